// Package c08drv holds the closed concurrent drivers of C08. It imports zog
// only, so the same bodies run under the cooperative scheduler (built with the
// overlay) and free-running under the race detector (built without it).
package c08drv

import (
	"fmt"
	"regexp"
	"sort"
	"strings"
	"time"

	z "github.com/Oudwins/zog"
	"github.com/Oudwins/zog/conf"
	"github.com/Oudwins/zog/i18n"
	"github.com/Oudwins/zog/i18n/en"
	"github.com/Oudwins/zog/i18n/es"
	"github.com/Oudwins/zog/zconst"
)

// Driver: Setup builds the shared schemas once; Thread(i) returns the body of
// thread i, which appends one observation string per operation to out.
type Driver struct {
	Name    string
	Threads int
	Setup   func() *Shared
}

type Shared struct {
	Owned   []any // values handed to builders (must never change)
	Thread  func(i int, out *[]string, yield func())
	Cleanup func()
}

func obsMap(m z.ZogIssueMap, dest any, extra ...any) string {
	var parts []string
	for k, l := range m {
		for _, is := range l {
			parts = append(parts, fmt.Sprintf("%s|%s|%s|%s|%v|%s", k, is.Path, is.Code, is.Dtype, is.Params, is.Message))
		}
	}
	sort.Strings(parts)
	return fmt.Sprintf("issues=%v dest=%+v extra=%v", parts, dest, extra)
}

func obsList(l z.ZogIssueList, dest any, extra ...any) string {
	var parts []string
	for _, is := range l {
		parts = append(parts, fmt.Sprintf("%s|%s|%s|%v|%s", is.Path, is.Code, is.Dtype, is.Params, is.Message))
	}
	distinct := true
	for i := range l {
		for j := i + 1; j < len(l); j++ {
			if l[i] == l[j] {
				distinct = false
			}
		}
	}
	return fmt.Sprintf("issues=%v distinct=%v dest=%+v extra=%v", parts, distinct, dest, extra)
}

// freshNames numbers the parameter names of driver 13 so that every Setup introduces names the process has not met
var freshNames int
var freshNameRe = regexp.MustCompile(`unit_[0-9]+_`)

type user struct {
	Name string
	Age  int
	Tags []string
}

func Drivers(nthreads int) []Driver {
	return []Driver{
		{"1 shared two-test string schema", nthreads, func() *Shared {
			s := z.String().Min(5).Contains("z")
			return &Shared{Thread: func(i int, out *[]string, yield func()) {
				in := []string{"ab", "abcdefz1", "zz"}[i%3]
				if i%3 == 1 {
					in = "abcdef" // fails one test only
				}
				var d string
				l := s.Parse(in, &d)
				*out = append(*out, obsList(l, d))
			}}
		}},
		{"2 shared struct schema: fail, CollectMap, parse again / fail twice", nthreads, func() *Shared {
			s := z.Struct(z.Schema{"name": z.String().Min(5).Required(), "age": z.Int().GT(18), "tags": z.Slice(z.String().Min(2)).Min(1)})
			return &Shared{Thread: func(i int, out *[]string, yield func()) {
				if i%2 == 0 {
					var d user
					m := s.Parse(map[string]any{"name": "ab", "age": 3, "tags": []any{"x"}}, &d)
					*out = append(*out, obsMap(m, d))
					z.Issues.CollectMap(m)
					var d2 user
					m2 := s.Parse(map[string]any{"name": "abcdef", "age": "x", "tags": []any{"ok", "y"}}, &d2)
					*out = append(*out, obsMap(m2, d2))
				} else {
					for k := 0; k < 2; k++ {
						var d user
						m := s.Parse(map[string]any{"age": 10 + k, "tags": []any{}}, &d)
						*out = append(*out, obsMap(m, d))
					}
				}
			}}
		}},
		{"3 slice Default + element Catch, Validate nil slice, PostTransform mutates element 0", nthreads, func() *Shared {
			def := []string{"d1", "d2"}
			s := z.Slice(z.String().Min(2).Catch("CC")).Default(def).PostTransform(func(p any, ctx z.Ctx) error {
				sl := p.(*[]string)
				if len(*sl) > 0 {
					(*sl)[0] = "MUT"
				}
				return nil
			})
			return &Shared{Owned: []any{def}, Thread: func(i int, out *[]string, yield func()) {
				var d []string
				m := s.Validate(&d)
				*out = append(*out, obsMap(m, d))
				d2 := []string{"x", "okay"}
				m2 := s.Validate(&d2)
				*out = append(*out, obsMap(m2, d2))
			}}
		}},
		{"4 different WithCtxValue per thread read by a recording test", nthreads, func() *Shared {
			var mk = func(seen *[]any, yield func()) *z.StringSchema[string] {
				return nil
			}
			_ = mk
			type probe struct{ seen []any }
			probes := make([]*probe, 8)
			for i := range probes {
				probes[i] = &probe{}
			}
			// one shared schema; the test records into the probe named by the context itself
			s := z.String().TestFunc(func(v any, ctx z.Ctx) bool {
				if id, ok := ctx.Get("thread").(int); ok {
					probes[id].seen = append(probes[id].seen, ctx.Get("k"))
				}
				return false
			}, z.Message("never"))
			return &Shared{Thread: func(i int, out *[]string, yield func()) {
				var d string
				var l z.ZogIssueList
				if i%2 == 0 {
					l = s.Parse("abc", &d, z.WithCtxValue("thread", i), z.WithCtxValue("k", fmt.Sprintf("value-of-%d", i)))
				} else {
					l = s.Parse("abc", &d, z.WithCtxValue("thread", i))
				}
				if yield != nil {
					yield()
				}
				*out = append(*out, obsList(l, d, probes[i].seen))
			}}
		}},
		{"5 Ptr(Struct) Validate", nthreads, func() *Shared {
			s := z.Ptr(z.Struct(z.Schema{"name": z.String().Min(5), "age": z.Int().GT(18).Catch(99)}).TestFunc(func(v any, ctx z.Ctx) bool {
				u, ok := v.(*user)
				return ok && u != nil && u.Name != "forbidden"
			}, z.IssueCode("forbidden"))).NotNil()
			return &Shared{Thread: func(i int, out *[]string, yield func()) {
				u := &user{Name: []string{"ab", "forbidden", "abcdefg"}[i%3], Age: 5 + 20*(i%2)}
				m := s.Validate(&u)
				*out = append(*out, obsMap(m, *u))
				var n *user
				m2 := s.Validate(&n)
				*out = append(*out, obsMap(m2, n))
			}}
		}},
		{"6 catching field next to a required slice; one thread triggers the catch", nthreads, func() *Shared {
			s := z.Struct(z.Schema{"name": z.String().Min(5).Catch("caught"), "tags": z.Slice(z.String()).Required()})
			return &Shared{Thread: func(i int, out *[]string, yield func()) {
				var d user
				var m z.ZogIssueMap
				if i%2 == 0 {
					m = s.Parse(map[string]any{"name": "x"}, &d)
				} else {
					m = s.Parse(map[string]any{"name": "long-enough"}, &d)
				}
				*out = append(*out, obsMap(m, d))
			}}
		}},
		{"7 i18n formatter with a different language per thread", nthreads, func() *Shared {
			old := conf.IssueFormatter
			i18n.SetLanguagesErrsMap(map[string]zconst.LangMap{"en": en.Map, "es": es.Map}, "en")
			s := z.Struct(z.Schema{"name": z.String().Min(5).Required(), "age": z.Int().GT(18)})
			return &Shared{Cleanup: func() { conf.IssueFormatter = old }, Thread: func(i int, out *[]string, yield func()) {
				var d user
				var m z.ZogIssueMap
				switch i % 3 {
				case 0:
					m = s.Parse(map[string]any{"name": "ab", "age": 3}, &d, z.WithCtxValue("lang", "es"))
				case 1:
					m = s.Parse(map[string]any{"name": "ab", "age": 3}, &d, z.WithCtxValue("lang", "en"))
				default:
					m = s.Parse(map[string]any{"age": 3}, &d)
				}
				*out = append(*out, obsMap(m, d))
			}}
		}},
		{"12 i18n installed; every thread names a language that is not installed (first use of that name)", nthreads, func() *Shared {
			old := conf.IssueFormatter
			i18n.SetLanguagesErrsMap(map[string]zconst.LangMap{"en": en.Map, "es": es.Map}, "es")
			s := z.Struct(z.Schema{"name": z.String().Min(5).Required(), "age": z.Int().GT(18)})
			return &Shared{Cleanup: func() { conf.IssueFormatter = old }, Thread: func(i int, out *[]string, yield func()) {
				var d user
				m := s.Parse(map[string]any{"name": "ab", "age": 3}, &d, z.WithCtxValue("lang", []string{"fr", "de", "pt-BR"}[i%3]))
				*out = append(*out, obsMap(m, d))
				var n string
				l := z.String().Min(5).Parse("abc", &n, z.WithCtxValue("lang", "it"))
				*out = append(*out, obsList(l, n))
			}}
		}},
		{"17 user-supplied language tables that lack whole sections and single codes; custom, number and string issues formatted through them", nthreads, func() *Shared {
			old := conf.IssueFormatter
			// fresh tables per setup (a program's own tables, not the shipped ones): one has only the string section,
			// the other lacks single codes
			onlyStrings := zconst.LangMap{zconst.TypeString: map[zconst.ZogIssueCode]string{"min": "muy corto ({{min}})", "default": "cadena mala"}}
			sparse := zconst.LangMap{
				zconst.TypeString: map[zconst.ZogIssueCode]string{"default": "bad text"},
				zconst.TypeNumber: map[zconst.ZogIssueCode]string{"gt": "too small ({{gt}})"},
			}
			i18n.SetLanguagesErrsMap(map[string]zconst.LangMap{"xs": onlyStrings, "xp": sparse}, "xs")
			viaOpt := z.WithIssueFormatter(conf.NewDefaultFormatter(sparse))
			s := z.Struct(z.Schema{
				"name": z.String().Min(5).Required(),
				"age":  z.Int().GT(18),
				"id":   z.CustomFunc(func(p *string, c z.Ctx) bool { return len(*p) == 4 }),
			})
			type D struct {
				Name string
				Age  int
				Id   string
			}
			return &Shared{Cleanup: func() { conf.IssueFormatter = old }, Thread: func(i int, out *[]string, yield func()) {
				var d D
				in := map[string]any{"name": "ab", "age": 3, "id": "toolong"}
				var m z.ZogIssueMap
				switch i % 3 {
				case 0:
					m = s.Parse(in, &d, z.WithCtxValue("lang", "xs"))
				case 1:
					m = s.Parse(in, &d, z.WithCtxValue("lang", "xp"))
				default:
					m = s.Parse(in, &d, viaOpt)
				}
				*out = append(*out, obsMap(m, d))
			}}
		}},
		{"18 record schemas with long lower-case keys (33 and 48 bytes), nested, Parse and Validate", nthreads, func() *Shared {
			type inner struct {
				Billing_address_line_one_as_printed_on_the_invoice string
			}
			type D struct {
				Shipping_address_line_one_of_the_recipient string
				Customer_reference_number_assigned_by_the_erp_system int
				Inner inner
			}
			s := z.Struct(z.Schema{
				"shipping_address_line_one_of_the_recipient":           z.String().Min(3),
				"customer_reference_number_assigned_by_the_erp_system": z.Int().GT(5),
				"inner": z.Struct(z.Schema{"billing_address_line_one_as_printed_on_the_invoice": z.String().Min(3)}),
			})
			return &Shared{Thread: func(i int, out *[]string, yield func()) {
				var d D
				m := s.Parse(map[string]any{
					"shipping_address_line_one_of_the_recipient":           []string{"ab", "abcd"}[i%2],
					"customer_reference_number_assigned_by_the_erp_system": 3 + 10*(i%2),
					"inner": map[string]any{"billing_address_line_one_as_printed_on_the_invoice": []string{"xy", "wxyz"}[(i+1)%2]},
				}, &d)
				*out = append(*out, obsMap(m, d))
				v := D{Shipping_address_line_one_of_the_recipient: "ab", Customer_reference_number_assigned_by_the_erp_system: 9, Inner: inner{"q"}}
				m2 := s.Validate(&v)
				*out = append(*out, obsMap(m2, v))
			}}
		}},
		{"19 Time schemas built from one Time.Format option value (a field and list items), per-thread texts", nthreads, func() *Shared {
			opt := z.Time.Format("2006-01-02")
			s := z.Struct(z.Schema{"day": z.Time(opt), "days": z.Slice(z.Time(opt))})
			own := z.Time(opt)
			type D struct {
				Day  time.Time
				Days []time.Time
			}
			texts := []string{"2021-03-04", "2019-12-31", "2024-02-29"}
			return &Shared{Thread: func(i int, out *[]string, yield func()) {
				var d D
				m := s.Parse(map[string]any{"day": texts[i%3], "days": []any{texts[(i+1)%3], texts[i%3]}}, &d)
				days := ""
				for _, t := range d.Days {
					days += t.UTC().Format("2006-01-02") + ","
				}
				*out = append(*out, obsMap(m, d.Day.UTC().Format("2006-01-02")+" ["+days+"]"))
				var t time.Time
				l := own.Parse(texts[(i+2)%3], &t)
				*out = append(*out, obsList(l, t.UTC().Format("2006-01-02")))
			}}
		}},
		{"13 tests carrying parameter names of their own (Params option), never seen before in this process", nthreads, func() *Shared {
			freshNames++
			pa := map[string]any{"min": 5, fmt.Sprintf("unit_%d_a", freshNames): "chars"}
			pb := map[string]any{"gt": 18, fmt.Sprintf("unit_%d_b", freshNames): "years"}
			s := z.Struct(z.Schema{"name": z.String().Min(5, z.Params(pa)), "age": z.Int().GT(18, z.Params(pb))})
			return &Shared{Owned: []any{pa, pb}, Thread: func(i int, out *[]string, yield func()) {
				var d user
				m := s.Parse(map[string]any{"name": []string{"ab", "abcdefg"}[i%2], "age": []int{3, 30}[(i/2+i)%2]}, &d)
				*out = append(*out, freshNameRe.ReplaceAllString(obsMap(m, d), "unit_N_")) // the numbering is not part of the observation
			}}
		}},
		{"14 results handed back through SanitizeMapAndCollect / SanitizeListAndCollect while other threads keep failing", nthreads, func() *Shared {
			s := z.Struct(z.Schema{"name": z.String().Min(5).Required(), "age": z.Int().GT(18)})
			p := z.String().Min(5).Contains("z")
			flat := func(m map[string][]string) string {
				var ks []string
				for k, l := range m {
					ks = append(ks, fmt.Sprintf("%s=%v", k, l))
				}
				sort.Strings(ks)
				return strings.Join(ks, ";")
			}
			return &Shared{Thread: func(i int, out *[]string, yield func()) {
				var d user
				m := s.Parse(map[string]any{"name": []string{"ab", "cd"}[i%2], "age": 3 + i}, &d)
				*out = append(*out, "sanitized: "+flat(z.Issues.SanitizeMapAndCollect(m)))
				var v string
				l := p.Parse("ab", &v)
				*out = append(*out, fmt.Sprintf("sanitized list: %v", z.Issues.SanitizeListAndCollect(l)))
				m2 := s.Parse(map[string]any{"age": 1}, &d)
				*out = append(*out, obsMap(m2, d))
			}}
		}},
		{"15 six-segment paths: lists of records of lists, each thread failing at its own indexes", nthreads, func() *Shared {
			s := z.Struct(z.Schema{"rows": z.Slice(z.Struct(z.Schema{"cells": z.Slice(z.Struct(z.Schema{"tags": z.Slice(z.String().Min(3))}))}))})
			type cell struct{ Tags []string }
			type row struct{ Cells []cell }
			type grid struct{ Rows []row }
			mk := func(r, c, t int) map[string]any {
				rows := make([]any, r+1)
				for i := range rows {
					cells := make([]any, c+1)
					for j := range cells {
						tags := make([]any, t+1)
						for k := range tags {
							tags[k] = "long-enough"
						}
						if i == r && j == c {
							tags[t] = "x"
						}
						cells[j] = map[string]any{"tags": tags}
					}
					rows[i] = map[string]any{"cells": cells}
				}
				return map[string]any{"rows": rows}
			}
			return &Shared{Thread: func(i int, out *[]string, yield func()) {
				var d grid
				m := s.Parse(mk(i%3, (i*2)%3, (i+1)%4), &d)
				*out = append(*out, obsMap(m, len(d.Rows)))
			}}
		}},
		{"9 shared slice schema on long slices (12+ items), issues at high indexes", nthreads, func() *Shared {
			s := z.Slice(z.String().Min(3)).Min(1)
			return &Shared{Thread: func(i int, out *[]string, yield func()) {
				n := 12 + i
				in := make([]any, n)
				val := make([]string, n)
				for k := range in {
					in[k], val[k] = "okay", "okay"
				}
				// failing items at thread-specific high indexes
				for _, k := range []int{10 + i%2, n - 1} {
					in[k], val[k] = "x", "x"
				}
				var d []string
				m := s.Parse(in, &d)
				*out = append(*out, obsMap(m, len(d)))
				m2 := s.Validate(&val)
				*out = append(*out, obsMap(m2, len(val)))
			}}
		}},
		{"10 present-but-empty lists next to failing fields, nested empty lists", nthreads, func() *Shared {
			s := z.Struct(z.Schema{"name": z.String().Min(5), "tags": z.Slice(z.String().Min(2))})
			nested := z.Slice(z.Slice(z.String().Min(3)))
			return &Shared{Thread: func(i int, out *[]string, yield func()) {
				var d user
				if i%2 == 0 {
					m := s.Parse(map[string]any{"name": "x", "tags": []any{}}, &d)
					*out = append(*out, obsMap(m, d))
					var dd [][]string
					m2 := nested.Parse([]any{[]any{}, []any{"x"}}, &dd)
					*out = append(*out, obsMap(m2, len(dd)))
				} else {
					m := s.Parse(map[string]any{"name": "y", "tags": []any{"ok", "z"}}, &d)
					*out = append(*out, obsMap(m, d))
					var s2 string
					l := z.String().Min(5).Parse("abc", &s2)
					*out = append(*out, obsList(l, s2))
				}
			}}
		}},
		{"11 every coercer from text: per-thread values, one thread repeating its own", nthreads, func() *Shared {
			s := z.Struct(z.Schema{"t": z.Time(), "i": z.Int(), "f": z.Float64(), "b": z.Bool(), "s": z.String()})
			ts := z.Time()
			type D struct {
				T time.Time
				I int
				F float64
				B bool
				S string
			}
			texts := []string{"2008-08-09T10:11:12Z", "2005-05-06T07:08:09Z", "2011-11-12T13:14:15Z"}
			return &Shared{Thread: func(i int, out *[]string, yield func()) {
				// the same text twice (anything remembered between the two must still be this thread's), then the record
				for k := 0; k < 2; k++ {
					var t time.Time
					l := ts.Parse(texts[i%3], &t)
					*out = append(*out, obsList(l, t.UTC().Format(time.RFC3339)))
				}
				var d D
				m := s.Parse(map[string]any{"t": texts[(i+1)%3], "i": fmt.Sprint(100 + i), "f": fmt.Sprintf("%d.5", i), "b": []string{"true", "false", "on"}[i%3], "s": fmt.Sprintf("s%d", i)}, &d)
				d.T = d.T.UTC()
				*out = append(*out, obsMap(m, fmt.Sprintf("%s %d %v %v %s", d.T.Format(time.RFC3339), d.I, d.F, d.B, d.S)))
			}}
		}},
		{"16 every built-in string test (grammars, classes, affixes, lists) on shared schemas; each thread starts with another test", nthreads, func() *Shared {
			re := regexp.MustCompile("^[a-z]+-[0-9]+$")
			list := []string{"red", "green"}
			tests := []struct {
				name string
				s    *z.StringSchema[string]
				vals []string
			}{
				{"Email", z.String().Email(), []string{"a@b.co", "nope", "x@y"}},
				{"UUID", z.String().UUID(), []string{"123e4567-e89b-12d3-a456-426614174000", "123", "123e4567-e89b-12d3-a456-42661417400g"}},
				{"URL", z.String().URL(), []string{"https://a.b/c", "a b", "//x"}},
				{"Match", z.String().Match(re), []string{"ab-12", "AB-12", "ab-"}},
				{"ContainsSpecial", z.String().ContainsSpecial(), []string{"a!", "ab", "é"}},
				{"ContainsUpper", z.String().ContainsUpper().ContainsDigit(), []string{"aB1", "ab1", "AB"}},
				{"Not.Email", z.String().Not().Email(), []string{"a@b.co", "nope", "x@y"}},
				{"Not.UUID", z.String().Not().UUID(), []string{"123e4567-e89b-12d3-a456-426614174000", "123", ""}},
				{"HasPrefix", z.String().HasPrefix("ab").HasSuffix("yz").Contains("m"), []string{"abmyz", "abyz", "m"}},
				{"OneOf", z.String().OneOf(list), []string{"red", "blue", "green"}},
			}
			return &Shared{Owned: []any{list}, Thread: func(i int, out *[]string, yield func()) {
				// three tests per thread, every thread starting with another one (8 threads cover all of them)
				for k := 0; k < 3; k++ {
					t := tests[(3*i+k)%len(tests)]
					var d string
					if k < 2 {
						l := t.s.Parse(t.vals[i%3], &d)
						*out = append(*out, t.name+": "+obsList(l, d))
					} else {
						d = t.vals[(i+1)%3]
						l := t.s.Validate(&d)
						*out = append(*out, t.name+" (validate): "+obsList(l, d))
					}
				}
			}}
		}},
		{"8 shared Time/Bool/Float schemas with defaults and OneOf lists", nthreads, func() *Shared {
			list := []float64{1.5, 2.5}
			t0 := time.Date(2024, 1, 1, 0, 0, 0, 0, time.UTC)
			s := z.Struct(z.Schema{"when": z.Time().Default(t0).After(t0.Add(-time.Hour)), "f": z.Float64().OneOf(list), "b": z.Bool().Default(true).True()})
			type D struct {
				When time.Time
				F    float64
				B    bool
			}
			return &Shared{Owned: []any{list}, Thread: func(i int, out *[]string, yield func()) {
				var d D
				m := s.Parse(map[string]any{"f": []any{1.5, 9.5, "x"}[i%3], "b": []any{nil, false, "on"}[i%3]}, &d)
				*out = append(*out, strings.ReplaceAll(obsMap(m, d), "\n", " "))
			}}
		}},
	}
}
