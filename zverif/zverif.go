// Package zverif is injected into the zog module by `go build -overlay` (it
// exists only in the overlay, as /repo/zverif/zverif.go). It replaces
// sync.Pool by a pool whose answers the explorer decides, provides the hook for
// range-over-map order, and the yield point used by the cooperative scheduler.
// It imports the standard library only; the explorer installs function hooks.
package zverif

import (
	"fmt"
	"sort"
)

// Pool has the API surface of sync.Pool that zog uses (New, Get, Put).
type Pool struct {
	New  func() any
	Free []any // free list, oldest first. Exported so the harness can snapshot it.
}

// GetHook, when set, decides which free entry Get returns: an index into
// p.Free, or -1 for a fresh object from New.
var GetHook func(p *Pool) int

// PutHook, when set, observes every Put (after the object was appended).
var PutHook func(p *Pool, x any)

// PoolOpHook, when set, is called before every Get/Put (scheduling point).
var PoolOpHook func(p *Pool, op string)

func (p *Pool) Get() any {
	if PoolOpHook != nil {
		PoolOpHook(p, "get")
	}
	idx := len(p.Free) - 1 // LIFO by default, like a single-P sync.Pool
	if GetHook != nil {
		idx = GetHook(p)
		if idx >= len(p.Free) {
			panic(fmt.Sprintf("zverif: GetHook returned %d for free list of %d", idx, len(p.Free)))
		}
	}
	if idx < 0 {
		if p.New == nil {
			return nil
		}
		return p.New()
	}
	x := p.Free[idx]
	p.Free = append(p.Free[:idx:idx], p.Free[idx+1:]...)
	return x
}

func (p *Pool) Put(x any) {
	if PoolOpHook != nil {
		PoolOpHook(p, "put")
	}
	if x == nil {
		return
	}
	p.Free = append(p.Free, x)
	if PutHook != nil {
		PutHook(p, x)
	}
}

// OrderHook, when set, returns the permutation (of 0..n-1) in which the n keys
// of a ranged-over map, sorted canonically, are visited at this site.
var OrderHook func(site string, n int) []int

// Sites records every range-over-map site that executed under OrderHook.
var Sites = map[string]int{}

// Keys returns the keys of m in the order the explorer chose (canonical sort
// then permutation), or in native order when no explorer is installed.
func Keys[K comparable, V any](site string, m map[K]V) []K {
	keys := make([]K, 0, len(m))
	for k := range m {
		keys = append(keys, k)
	}
	if OrderHook == nil {
		return keys
	}
	Sites[site]++
	sort.Slice(keys, func(i, j int) bool { return fmt.Sprint(keys[i]) < fmt.Sprint(keys[j]) })
	if len(keys) < 2 {
		return keys
	}
	perm := OrderHook(site, len(keys))
	if perm == nil {
		return keys
	}
	out := make([]K, len(keys))
	for i, p := range perm {
		out[i] = keys[p]
	}
	return out
}

// SyncHook, when set, is called before every library statement that performs an atomic operation (a coarse
// scheduling point, like a pool operation).
var SyncHook func(site int)

func SyncPoint(site int) {
	if SyncHook != nil {
		SyncHook(site)
	}
}

// YieldHook, when set, is called before every library statement (fine points).
var YieldHook func(site int)

func Yield(site int) {
	if YieldHook != nil {
		YieldHook(site)
	}
}
