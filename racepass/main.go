// racepass: the free-running race monitor of C08 (auxiliary, not exhaustive).
// Built with -race against the UN-instrumented zog sources: a cooperative
// scheduler's hand-offs are happens-before edges that would blind the
// detector. Runs every driver's threads as free goroutines, many iterations.
package main

import (
	"flag"
	"fmt"
	"sync"

	"zogverif/c08drv"
)

func main() {
	iters := flag.Int("iters", 300, "iterations per driver")
	threads := flag.Int("threads", 8, "goroutines per driver")
	only := flag.Int("driver", -1, "run only this driver (index); -1 runs all in this process")
	list := flag.Bool("list", false, "print the number of drivers and exit")
	flag.Parse()
	if *list {
		fmt.Println(len(c08drv.Drivers(*threads)))
		return
	}
	total := 0
	// several rounds per driver, each on freshly built schemas and freshly installed configuration, so that the
	// very first (cold) concurrent use of every shared object happens many times, not once
	const rounds = 10
	for di, drv := range c08drv.Drivers(*threads) {
		if *only >= 0 && di != *only {
			continue
		}
		for r := 0; r < rounds; r++ {
			sh := drv.Setup()
			var wg sync.WaitGroup
			start := make(chan struct{})
			for t := 0; t < drv.Threads; t++ {
				wg.Add(1)
				go func(t int) {
					defer wg.Done()
					<-start
					for k := 0; k < *iters/rounds; k++ {
						var out []string
						func() {
							defer func() { recover() }()
							sh.Thread(t, &out, nil)
						}()
					}
				}(t)
			}
			close(start)
			wg.Wait()
			if sh.Cleanup != nil {
				sh.Cleanup()
			}
		}
		total += drv.Threads * (*iters / rounds) * rounds
	}
	fmt.Printf("racepass: %d thread-iterations completed\n", total)
}
