// Package mc is the stateless choice-tree explorer (DESIGN §3.2): it runs a
// scenario function once per path of its choice tree, depth-first, replaying a
// recorded prefix and taking alternative 0 afterwards, with an optional bound
// on the number of "deviations" (choices whose non-zero alternatives cost 1).
package mc

import (
	"crypto/sha256"
	"encoding/hex"
	"fmt"
	"os"
	"sort"
	"strings"
	"time"
)

type point struct {
	n      int
	label  string
	cost   int // cost of taking a non-zero alternative at this point
	chosen int
}

// X is one execution of a scenario.
type X struct {
	prefix   []int
	expect   []point // recorded arity/label for prefix positions (strict replay)
	trace    []point
	devs     int
	maxDevs  int // <0: unbounded
	notes    []string
	Tier     string
	replayOK bool
}

// HarnessError aborts the whole run with exit code 2 (never a VIOLATION).
type HarnessError struct{ Msg string }

func (h HarnessError) Error() string { return h.Msg }

func (x *X) choose(n int, label string, cost int) int {
	if n <= 0 {
		panic(HarnessError{fmt.Sprintf("Choose(%d) at %q", n, label)})
	}
	i := len(x.trace)
	c := 0
	if i < len(x.prefix) {
		c = x.prefix[i]
		if i < len(x.expect) && (x.expect[i].n != n || x.expect[i].label != label) {
			panic(HarnessError{fmt.Sprintf("nondeterminism: replaying position %d expected %s/%d, got %s/%d", i, x.expect[i].label, x.expect[i].n, label, n)})
		}
		if c >= n {
			panic(HarnessError{fmt.Sprintf("nondeterminism: replaying position %d choice %d out of range %d (%s)", i, c, n, label)})
		}
	}
	if c > 0 {
		x.devs += cost
	}
	x.trace = append(x.trace, point{n: n, label: label, cost: cost, chosen: c})
	return c
}

// Choose is a free choice: all n alternatives are explored.
func (x *X) Choose(n int, label string) int { return x.choose(n, label, 0) }

// Deviate is a choice whose alternative 0 is the default; any other
// alternative costs one deviation from the execution's budget.
func (x *X) Deviate(n int, label string) int { return x.choose(n, label, 1) }

// Bool is Choose(2)==1.
func (x *X) Bool(label string) bool { return x.Choose(2, label) == 1 }

// Perm chooses a permutation of n elements (free choices, identity first).
func (x *X) Perm(n int, label string) []int {
	idx := make([]int, n)
	for i := range idx {
		idx[i] = i
	}
	out := make([]int, 0, n)
	for len(idx) > 1 {
		c := x.Choose(len(idx), label)
		out = append(out, idx[c])
		idx = append(idx[:c:c], idx[c+1:]...)
	}
	return append(out, idx[0])
}

// DevPerm is Perm whose non-identity picks cost a deviation.
func (x *X) DevPerm(n int, label string) []int {
	idx := make([]int, n)
	for i := range idx {
		idx[i] = i
	}
	out := make([]int, 0, n)
	for len(idx) > 1 {
		c := x.Deviate(len(idx), label)
		out = append(out, idx[c])
		idx = append(idx[:c:c], idx[c+1:]...)
	}
	return append(out, idx[0])
}

// NewReplayX returns an execution that replays the given choices and takes
// alternative 0 afterwards (used to rebuild a recorded history inside a scenario).
func NewReplayX(choices []int) *X { return &X{prefix: choices, maxDevs: -1} }

// Note attaches a human-readable line to this execution (for replays/samples).
func (x *X) Note(format string, a ...any) {
	x.notes = append(x.notes, fmt.Sprintf(format, a...))
}

func (x *X) Notes() []string { return x.notes }

func (x *X) Choices() []int {
	out := make([]int, len(x.trace))
	for i, p := range x.trace {
		out[i] = p.chosen
	}
	return out
}

func (x *X) Labels() []string {
	out := make([]string, len(x.trace))
	for i, p := range x.trace {
		out[i] = fmt.Sprintf("%s=%d/%d", p.label, p.chosen, p.n)
	}
	return out
}

// Violation describes one failed oracle.
type Violation struct {
	Key      string `json:"key"`      // stable identity of the finding (matched against known_findings.json)
	What     string `json:"what"`     // one-line description
	Expected string `json:"expected"` // oracle's expectation
	Observed string `json:"observed"` // what the implementation did
}

// Outcome is what a scenario reports for one execution.
type Outcome struct {
	Sig        string       // outcome signature (distinctness)
	Nontrivial bool         // by the scenario's stated rule
	Viol       []*Violation // nil when every oracle held
	Sample     any          // optional: the case written out
	LazySample func() any   // optional: computed only when a sample is actually recorded
	Traces     int          // number of implementation runs compared with the model/twin in this execution
}

type Scenario func(x *X) *Outcome

type Bounds struct {
	MaxDevs  int       // <0 unbounded
	Deadline time.Time // zero: none
	MaxExec  int64     // 0: none
}

type FoundViolation struct {
	V       *Violation `json:"violation"`
	Item    string     `json:"item"`
	Choices []int      `json:"choices"`
	Labels  []string   `json:"labels"`
	Notes   []string   `json:"notes"`
	Count   int64      `json:"count"`
}

type Stats struct {
	Executions  int64
	States      int64
	Transitions int64
	Traces      int64
	Nontrivial  int64
	Sigs        map[string]struct{}
	MaxDepth    int
	MaxDevsUsed int
	Capped      bool
	CapReason   string
	Violations  map[string]*FoundViolation // by key
	Samples     []any
	Rechecks    int64
}

func NewStats() *Stats {
	return &Stats{Sigs: map[string]struct{}{}, Violations: map[string]*FoundViolation{}}
}

func hashSig(s string) string {
	h := sha256.Sum256([]byte(s))
	return hex.EncodeToString(h[:8])
}

type frame struct {
	prefix []int
	expect []point
}

// Explore enumerates every path of scn's choice tree within the bounds.
func Explore(item string, scn Scenario, b Bounds, st *Stats, tier string) {
	ExploreFrom(item, scn, nil, b, st, tier)
}

// ExploreFrom enumerates the subtree below the given choice prefix.
func ExploreFrom(item string, scn Scenario, prefix []int, b Bounds, st *Stats, tier string) {
	stack := []frame{{prefix: append([]int(nil), prefix...)}}
	rootLen := len(prefix)
	sampleEvery := int64(1)
	for len(stack) > 0 {
		if !b.Deadline.IsZero() && time.Now().After(b.Deadline) {
			st.Capped, st.CapReason = true, "deadline"
			return
		}
		if b.MaxExec > 0 && st.Executions >= b.MaxExec {
			st.Capped, st.CapReason = true, "max executions"
			return
		}
		f := stack[len(stack)-1]
		stack = stack[:len(stack)-1]
		x := &X{prefix: f.prefix, expect: f.expect, maxDevs: b.MaxDevs, Tier: tier}
		out := runOne(scn, x)
		st.Executions++
		newPts := len(x.trace) - len(f.prefix)
		if len(f.prefix) > rootLen {
			newPts++ // the deviating edge itself
		}
		if newPts < 1 {
			newPts = 1
		}
		st.Transitions += int64(newPts)
		st.States += int64(newPts)
		if len(x.trace) > st.MaxDepth {
			st.MaxDepth = len(x.trace)
		}
		if x.devs > st.MaxDevsUsed {
			st.MaxDevsUsed = x.devs
		}
		if out != nil {
			st.Traces += int64(out.Traces)
			if out.Nontrivial {
				st.Nontrivial++
				st.Sigs[hashSig(out.Sig)] = struct{}{}
			}
			// determinism self-check: every 64th execution is run twice
			if st.Executions%64 == 1 {
				x2 := &X{prefix: x.Choices(), expect: x.trace, maxDevs: -1, Tier: tier}
				out2 := runOne(scn, x2)
				st.Rechecks++
				if out2 == nil || out2.Sig != out.Sig || len(x2.trace) != len(x.trace) {
					s2 := "<nil>"
					if out2 != nil {
						s2 = out2.Sig
					}
					panic(HarnessError{fmt.Sprintf("nondeterminism: item %s choices %v: outcome differs on re-execution:\n 1: %s\n 2: %s", item, x.Choices(), out.Sig, s2)})
				}
			}
			if st.Executions%sampleEvery == 0 && (out.Sample != nil || out.LazySample != nil) && len(st.Samples) < 6 {
				if out.Sample == nil {
					out.Sample = out.LazySample()
				}
				st.Samples = append(st.Samples, out.Sample)
				sampleEvery *= 7
			}
			for _, v := range out.Viol {
				fv, ok := st.Violations[v.Key]
				if !ok {
					fv = &FoundViolation{V: v, Item: item, Choices: x.Choices(), Labels: x.Labels(), Notes: x.Notes()}
					st.Violations[v.Key] = fv
				}
				fv.Count++
			}
		}
		// schedule alternatives (deepest first so that DFS order is kept)
		for i := len(f.prefix); i < len(x.trace); i++ {
			p := x.trace[i]
			if p.n < 2 {
				continue
			}
			if p.cost > 0 && b.MaxDevs >= 0 {
				used := 0
				for j := rootLen; j < i; j++ { // deviations inside the root prefix are not re-budgeted
					if x.trace[j].chosen > 0 {
						used += x.trace[j].cost
					}
				}
				if used+p.cost > b.MaxDevs {
					continue
				}
			}
			for alt := p.n - 1; alt >= 1; alt-- {
				np := make([]int, i+1)
				for j := 0; j < i; j++ {
					np[j] = x.trace[j].chosen
				}
				np[i] = alt
				ne := make([]point, i+1)
				copy(ne, x.trace[:i+1])
				stack = append(stack, frame{prefix: np, expect: ne})
			}
		}
	}
	st.States++ // root
}

// the order above pushes shallow alternatives first, so they are popped last:
// deepest alternatives are explored first (classic DFS with prefix replay).

func runOne(scn Scenario, x *X) (out *Outcome) {
	defer func() {
		if r := recover(); r != nil {
			if he, ok := r.(HarnessError); ok {
				fmt.Fprintf(os.Stderr, "HARNESS-ERROR %s\n choices=%v\n labels=%v\n", he.Msg, x.Choices(), x.Labels())
				os.Exit(2)
			}
			panic(r)
		}
	}()
	return scn(x)
}

// Replay runs one recorded choice vector.
func Replay(scn Scenario, choices []int, tier string) (*X, *Outcome) {
	x := &X{prefix: choices, maxDevs: -1, Tier: tier}
	out := runOne(scn, x)
	return x, out
}

// Shrink tries to reset single choices to 0 while the violation key persists.
func Shrink(scn Scenario, choices []int, key string, tier string) []int {
	cur := append([]int(nil), choices...)
	has := func(c []int) (ok bool) {
		defer func() {
			if r := recover(); r != nil {
				ok = false
			}
		}()
		x := &X{prefix: c, maxDevs: -1, Tier: tier}
		out := scn(x)
		if out == nil {
			return false
		}
		for _, v := range out.Viol {
			if v.Key == key {
				return true
			}
		}
		return false
	}
	changed := true
	for rounds := 0; changed && rounds < 4; rounds++ {
		changed = false
		for i := len(cur) - 1; i >= 0; i-- {
			if cur[i] == 0 {
				continue
			}
			try := append([]int(nil), cur...)
			try[i] = 0
			if has(try) {
				cur = try
				changed = true
			}
		}
	}
	// strip trailing zeros
	for len(cur) > 0 && cur[len(cur)-1] == 0 {
		cur = cur[:len(cur)-1]
	}
	return cur
}

func SortedKeys[V any](m map[string]V) []string {
	ks := make([]string, 0, len(m))
	for k := range m {
		ks = append(ks, k)
	}
	sort.Strings(ks)
	return ks
}

func Join(ss []string) string { return strings.Join(ss, "; ") }
