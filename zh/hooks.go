package zh

import (
	"fmt"
	"reflect"
	"sort"

	"github.com/Oudwins/zog/internals"
	"github.com/Oudwins/zog/zverif"
	"zogverif/mc"
)

// PoolMode says how Pool.Get answers are enumerated.
type PoolMode int

const (
	PoolLIFO    PoolMode = iota // deterministic LIFO, no choice point
	PoolDeviate                 // alternative 0 = LIFO, every other distinct answer costs one deviation
	PoolFree                    // every distinct answer is a free choice
	PoolDirty                   // alternative 0 = a fresh object; every distinct recycled object costs one deviation
)

// OrderMode says how range-over-map orders are enumerated.
type OrderMode int

const (
	OrderSorted  OrderMode = iota // canonical sorted order, no choice point
	OrderFree                     // every permutation
	OrderDeviate                  // identity first, other picks cost a deviation
	OrderRev                      // identity or reversed order at every site (covers both relative orders of any two fields)
)

// Pools lists zog's pools by name (addresses are stable across ClearPools).
func Pools() []NamedPool {
	return []NamedPool{
		{"ExecCtx", &internals.ExecCtxPool},
		{"SchemaCtx", &internals.SchemaCtxPool},
		{"ErrsList", &internals.InternalIssueListPool},
		{"ErrsMap", &internals.InternalIssueMapPool},
		{"ZogIssue", &internals.ZogIssuePool},
		{"PathBuilder", &internals.PathBuilderPool},
		{"StringBuilder", &internals.StringBuilderPool},
	}
}

type NamedPool struct {
	Name string
	P    *zverif.Pool
}

func PoolName(p *zverif.Pool) string {
	for _, np := range Pools() {
		if np.P == p {
			return np.Name
		}
	}
	return "?"
}

// Reset clears all pools and removes every hook.
func Reset() {
	zverif.GetHook = nil
	zverif.PutHook = nil
	zverif.PoolOpHook = nil
	zverif.OrderHook = nil
	zverif.YieldHook = nil
	zverif.SyncHook = nil
	internals.ClearPools()
	for _, np := range Pools() {
		np.P.Free = nil
	}
}

// GetCount counts Pool.Get calls per pool while hooks are installed.
var GetCount = map[string]int{}

// Install connects the hooks to execution x.
func Install(x *mc.X, pm PoolMode, om OrderMode) {
	zverif.GetHook = func(p *zverif.Pool) int {
		name := PoolName(p)
		GetCount[name]++
		n := len(p.Free)
		if pm == PoolLIFO {
			return n - 1
		}
		// candidate answers: distinct content classes of free entries (most
		// recently released first, so alternative 0 is LIFO), then "fresh".
		type cand struct {
			idx int
			key string
		}
		var cands []cand
		seen := map[string]bool{}
		for i := n - 1; i >= 0; i-- {
			k := entryKey(p, i)
			if seen[k] {
				continue
			}
			seen[k] = true
			cands = append(cands, cand{i, k})
		}
		if pm == PoolDirty {
			cands = append([]cand{{-1, "fresh"}}, cands...)
		} else {
			cands = append(cands, cand{-1, "fresh"})
		}
		if n == 0 {
			return -1
		}
		// a fresh object is indistinguishable from a free entry that equals New()
		var c int
		label := "pool." + name
		if pm == PoolFree {
			c = x.Choose(len(cands), label)
		} else {
			c = x.Deviate(len(cands), label)
		}
		return cands[c].idx
	}
	switch om {
	case OrderSorted:
		zverif.OrderHook = func(site string, n int) []int { return nil }
	case OrderFree:
		zverif.OrderHook = func(site string, n int) []int { return x.Perm(n, "order."+site) }
	case OrderDeviate:
		zverif.OrderHook = func(site string, n int) []int { return x.DevPerm(n, "order."+site) }
	case OrderRev:
		zverif.OrderHook = func(site string, n int) []int {
			if x.Choose(2, "orderrev."+site) == 0 {
				return nil
			}
			p := make([]int, n)
			for i := range p {
				p[i] = n - 1 - i
			}
			return p
		}
	}
}

// entryKey is the content class of free entry i, including how many times the
// very same object occurs in the free list (double release).
func entryKey(p *zverif.Pool, i int) string {
	obj := p.Free[i]
	dup := 0
	for _, o := range p.Free {
		if sameObject(o, obj) {
			dup++
		}
	}
	return fmt.Sprintf("x%d:%s", dup, CanonStringHidden(obj))
}

func sameObject(a, b any) bool {
	va, vb := reflect.ValueOf(a), reflect.ValueOf(b)
	if va.Kind() != reflect.Pointer || vb.Kind() != reflect.Pointer {
		return false
	}
	return va.Pointer() == vb.Pointer()
}

// PoolState is a canonical rendering of all free lists (as multisets, with
// object identity classes shared across pools so aliasing is visible).
func PoolState() string {
	c := NewCanon(true)
	for _, np := range Pools() {
		var entries []string
		for _, o := range np.P.Free {
			ec := &Canon{ids: c.ids, MaxDepth: 12, HiddenCap: true}
			ec.Val(reflect.ValueOf(o), 0)
			entries = append(entries, ec.String())
		}
		sort.Strings(entries)
		c.Write(np.Name + "=[")
		for _, e := range entries {
			c.Write(e + ";")
		}
		c.Write("] ")
	}
	return c.String()
}
