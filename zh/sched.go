package zh

import (
	"fmt"

	"github.com/Oudwins/zog/zverif"
	"zogverif/mc"
)

// Sched is the cooperative scheduler (DESIGN §3.6): the threads of a driver
// are goroutines that run one at a time; at every yield point the running
// thread asks the explorer which enabled thread runs next. Continuing with the
// running thread is alternative 0; switching away from it while it is still
// enabled is a preemption and costs one deviation.
type Sched struct {
	x       *mc.X
	n       int
	done    []bool
	resume  []chan struct{}
	cur     int
	active  bool
	allDone chan struct{}
	Err     any    // first panic raised inside a thread
	ErrWho  int
	Fine    bool   // yield before every library statement
	Points  int    // yield points passed in this execution
	Switches int
	// monitors
	owner   map[any]int // pooled object -> thread that holds it
	lastRel map[any]int // pooled object -> thread that released it last
	Handovers int       // Gets that returned an object last released by another thread
	MonErr  string
}

func NewSched(x *mc.X, n int) *Sched {
	s := &Sched{x: x, n: n, done: make([]bool, n), resume: make([]chan struct{}, n), allDone: make(chan struct{}), owner: map[any]int{}, lastRel: map[any]int{}}
	for i := range s.resume {
		s.resume[i] = make(chan struct{}, 1)
	}
	return s
}

func (s *Sched) enabledOthers() []int {
	var o []int
	for i := 0; i < s.n; i++ {
		if i != s.cur && !s.done[i] {
			o = append(o, i)
		}
	}
	return o
}

// Yield is a scheduling point of the running thread.
func (s *Sched) Yield() {
	if !s.active {
		return
	}
	s.Points++
	others := s.enabledOthers()
	if len(others) == 0 {
		return
	}
	c := s.x.Deviate(1+len(others), "sched")
	if c == 0 {
		return
	}
	next := others[c-1]
	prev := s.cur
	s.cur = next
	s.Switches++
	s.resume[next] <- struct{}{}
	<-s.resume[prev]
}

func (s *Sched) finish(id int) {
	s.done[id] = true
	others := s.enabledOthers()
	if len(others) == 0 {
		s.active = false
		close(s.allDone)
		return
	}
	c := s.x.Choose(len(others), "sched.next")
	s.cur = others[c]
	s.resume[s.cur] <- struct{}{}
}

// Run executes the thread bodies under the scheduler and returns when all have finished.
func (s *Sched) Run(bodies []func()) {
	for i := range bodies {
		i := i
		go func() {
			<-s.resume[i]
			defer func() {
				if r := recover(); r != nil {
					if s.Err == nil {
						s.Err, s.ErrWho = r, i
					}
				}
				s.finish(i)
			}()
			bodies[i]()
		}()
	}
	s.InstallHooks()
	s.active = true
	s.cur = s.x.Choose(s.n, "sched.first")
	s.resume[s.cur] <- struct{}{}
	<-s.allDone
	zverif.PoolOpHook = nil
	zverif.YieldHook = nil
	zverif.SyncHook = nil
	zverif.PutHook = nil
	if he, ok := s.Err.(mc.HarnessError); ok {
		panic(he)
	}
}

// InstallHooks wires the yield points and the pool-ownership monitor. zh.Install must have been called before.
func (s *Sched) InstallHooks() {
	zverif.PoolOpHook = func(p *zverif.Pool, op string) { s.Yield() }
	if !s.Fine {
		zverif.SyncHook = func(site int) { s.Yield() } // fine mode yields before every statement anyway
	}
	if s.Fine {
		zverif.YieldHook = func(site int) { s.Yield() }
	}
	inner := zverif.GetHook
	zverif.GetHook = func(p *zverif.Pool) int {
		idx := len(p.Free) - 1
		if inner != nil {
			idx = inner(p)
		}
		if idx >= 0 && idx < len(p.Free) {
			obj := p.Free[idx]
			if who, held := s.owner[obj]; held && s.MonErr == "" {
				s.MonErr = fmt.Sprintf("pool %s hands an object to thread %d while thread %d still holds it (released twice)", PoolName(p), s.cur, who)
			}
			s.owner[obj] = s.cur
			if who, ok := s.lastRel[obj]; ok && who != s.cur {
				s.Handovers++
			}
		}
		return idx
	}
	zverif.PutHook = func(p *zverif.Pool, x any) {
		cnt := 0
		for _, o := range p.Free {
			if o == x {
				cnt++
			}
		}
		if cnt > 1 && s.MonErr == "" {
			s.MonErr = fmt.Sprintf("an object is in the free list of pool %s twice (double release by thread %d)", PoolName(p), s.cur)
		}
		delete(s.owner, x)
		s.lastRel[x] = s.cur
	}
}
