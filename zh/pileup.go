package zh

import (
	"github.com/Oudwins/zog/zverif"
	"zogverif/mc"
)

// PileUp is the schedule with the most executions in flight at one program point: thread 0 runs until it has
// passed its j-th scheduling point and stops there, then thread 1 does the same, … ; once every thread has
// stopped (or finished, if it has fewer than j points) they run to completion one after the other in the order
// they were started. One (n, j) pair is one deterministic schedule; the caller enumerates j.
// Scheduling points are the coarse ones (pool operations, atomic operations, driver callbacks).
type PileUp struct {
	n, j    int
	phase   int // 0 stacking, 1 draining
	cur     int
	count   []int
	parked  []bool
	done    []bool
	resume  []chan struct{}
	allDone chan struct{}
	Err     any
	ErrWho  int
	MaxInFlight int
}

func NewPileUp(n, j int) *PileUp {
	p := &PileUp{n: n, j: j, count: make([]int, n), parked: make([]bool, n), done: make([]bool, n), resume: make([]chan struct{}, n), allDone: make(chan struct{})}
	for i := range p.resume {
		p.resume[i] = make(chan struct{}, 1)
	}
	return p
}

func (p *PileUp) nextParked() int {
	for i := 0; i < p.n; i++ {
		if p.parked[i] && !p.done[i] {
			return i
		}
	}
	return -1
}

func (p *PileUp) Yield() {
	if p.phase != 0 {
		return
	}
	me := p.cur
	p.count[me]++
	if p.count[me] < p.j {
		return
	}
	p.parked[me] = true
	inFlight := 0
	for i := range p.parked {
		if p.parked[i] && !p.done[i] {
			inFlight++
		}
	}
	if inFlight > p.MaxInFlight {
		p.MaxInFlight = inFlight
	}
	if me+1 < p.n {
		p.cur = me + 1
	} else {
		p.phase = 1
		p.cur = p.nextParked()
		if p.cur == me {
			return
		}
	}
	p.resume[p.cur] <- struct{}{}
	<-p.resume[me]
}

func (p *PileUp) finish(i int) {
	p.done[i] = true
	if p.phase == 0 && i+1 < p.n {
		p.cur = i + 1
		p.resume[p.cur] <- struct{}{}
		return
	}
	p.phase = 1
	nx := p.nextParked()
	if nx < 0 {
		close(p.allDone)
		return
	}
	p.cur = nx
	p.resume[nx] <- struct{}{}
}

func (p *PileUp) Run(bodies []func()) {
	for i := range bodies {
		i := i
		go func() {
			<-p.resume[i]
			defer func() {
				if r := recover(); r != nil && p.Err == nil {
					p.Err, p.ErrWho = r, i
				}
				p.finish(i)
			}()
			bodies[i]()
		}()
	}
	zverif.PoolOpHook = func(q *zverif.Pool, op string) { p.Yield() }
	zverif.SyncHook = func(site int) { p.Yield() }
	p.cur = 0
	p.resume[0] <- struct{}{}
	<-p.allDone
	zverif.PoolOpHook = nil
	zverif.SyncHook = nil
	if he, ok := p.Err.(mc.HarnessError); ok {
		panic(he)
	}
}
