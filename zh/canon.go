// Package zh is the harness runtime that links the explorer (mc) to the hooks
// the overlay injected into zog (zverif), plus canonical deep printing used for
// observations and pool-state keys.
package zh

import (
	"fmt"
	"reflect"
	"runtime"
	"sort"
	"strings"
	"time"
)

// Canon renders v as a canonical string: maps sorted by key, pointers replaced
// by identity-class numbers in traversal order (so "same object twice" differs
// from "two equal objects"), funcs by symbol name, unexported fields included.
type Canon struct {
	sb        strings.Builder
	ids       map[uintptr]int
	HiddenCap bool // also print slice elements between len and cap
	MaxDepth  int
	NoIdentity bool // render pointed-to values without identity numbers (equal values compare equal whatever they share)
	NoTypes   bool // omit struct/slice type names (values of structurally equal but differently tagged types compare equal)
}

func CanonString(v any) string {
	c := &Canon{ids: map[uintptr]int{}, MaxDepth: 12}
	c.Val(reflect.ValueOf(v), 0)
	return c.sb.String()
}

func CanonStringHidden(v any) string {
	c := &Canon{ids: map[uintptr]int{}, MaxDepth: 12, HiddenCap: true}
	c.Val(reflect.ValueOf(v), 0)
	return c.sb.String()
}

func NewCanon(hidden bool) *Canon {
	return &Canon{ids: map[uintptr]int{}, MaxDepth: 12, HiddenCap: hidden}
}

func (c *Canon) String() string { return c.sb.String() }
func (c *Canon) Write(s string)  { c.sb.WriteString(s) }

var timeType = reflect.TypeOf(time.Time{})

func (c *Canon) Val(v reflect.Value, depth int) {
	if !v.IsValid() {
		c.sb.WriteString("nil")
		return
	}
	if depth > c.MaxDepth {
		c.sb.WriteString("<deep>")
		return
	}
	if v.Type() == timeType {
		if v.CanInterface() {
			t := v.Interface().(time.Time)
			// the instant, and the zone offset the value carries when it is not UTC (a value "exactly equal" to another
			// shows the same wall clock, not only the same instant)
			zone := ""
			if _, off := t.Zone(); off != 0 {
				zone = fmt.Sprintf(" @%+ds", off)
			}
			c.sb.WriteString("time(" + t.UTC().Format(time.RFC3339Nano) + zone + ")")
		} else {
			// unexported time: print fields
			fmt.Fprintf(&c.sb, "time{%d,%d}", v.Field(0).Uint(), v.Field(1).Int())
		}
		return
	}
	switch v.Kind() {
	case reflect.Bool:
		fmt.Fprintf(&c.sb, "%v", v.Bool())
	case reflect.Int, reflect.Int8, reflect.Int16, reflect.Int32, reflect.Int64:
		fmt.Fprintf(&c.sb, "%s(%d)", v.Type().String(), v.Int())
	case reflect.Uint, reflect.Uint8, reflect.Uint16, reflect.Uint32, reflect.Uint64, reflect.Uintptr:
		fmt.Fprintf(&c.sb, "%s(%d)", v.Type().String(), v.Uint())
	case reflect.Float32, reflect.Float64:
		fmt.Fprintf(&c.sb, "%s(%v)", v.Type().String(), v.Float())
	case reflect.Complex64, reflect.Complex128:
		fmt.Fprintf(&c.sb, "%v", v.Complex())
	case reflect.String:
		fmt.Fprintf(&c.sb, "%q", v.String())
	case reflect.Func:
		if v.IsNil() {
			c.sb.WriteString("func(nil)")
		} else {
			name := "?"
			if f := runtime.FuncForPC(v.Pointer()); f != nil {
				name = f.Name()
			}
			c.sb.WriteString("func(" + name + ")")
		}
	case reflect.Chan, reflect.UnsafePointer:
		if v.IsNil() {
			c.sb.WriteString("chan(nil)")
		} else {
			c.sb.WriteString("chan")
		}
	case reflect.Interface:
		if v.IsNil() {
			c.sb.WriteString("nil")
			return
		}
		c.sb.WriteString("i:")
		c.Val(v.Elem(), depth+1)
	case reflect.Pointer:
		if v.IsNil() {
			if c.NoTypes {
				c.sb.WriteString("(*)(nil)")
				return
			}
			c.sb.WriteString("(*" + v.Type().Elem().String() + ")(nil)")
			return
		}
		if c.NoIdentity {
			// values only: which pointers share an object is not rendered (acyclic values only)
			c.sb.WriteString("&")
			c.Val(v.Elem(), depth+1)
			return
		}
		p := v.Pointer()
		if id, ok := c.ids[p]; ok {
			fmt.Fprintf(&c.sb, "&#%d", id)
			return
		}
		id := len(c.ids) + 1
		c.ids[p] = id
		fmt.Fprintf(&c.sb, "&#%d:", id)
		c.Val(v.Elem(), depth+1)
	case reflect.Struct:
		if c.NoTypes {
			c.sb.WriteString("{")
		} else {
			c.sb.WriteString(v.Type().String() + "{")
		}
		for i := 0; i < v.NumField(); i++ {
			if i > 0 {
				c.sb.WriteString(",")
			}
			c.sb.WriteString(v.Type().Field(i).Name + ":")
			c.Val(v.Field(i), depth+1)
		}
		c.sb.WriteString("}")
	case reflect.Slice:
		if v.IsNil() {
			if c.NoTypes {
				c.sb.WriteString("[](nil)")
				return
			}
			c.sb.WriteString(v.Type().String() + "(nil)")
			return
		}
		n := v.Len()
		if c.NoTypes {
			c.sb.WriteString("[")
		} else {
			c.sb.WriteString(v.Type().String() + "[")
		}
		lim := n
		if c.HiddenCap {
			lim = v.Cap()
			v = v.Slice(0, lim)
		}
		for i := 0; i < lim; i++ {
			if i == n {
				c.sb.WriteString("|hidden:")
			} else if i > 0 {
				c.sb.WriteString(",")
			}
			c.Val(v.Index(i), depth+1)
		}
		c.sb.WriteString("]")
	case reflect.Array:
		c.sb.WriteString(v.Type().String() + "[")
		for i := 0; i < v.Len(); i++ {
			if i > 0 {
				c.sb.WriteString(",")
			}
			c.Val(v.Index(i), depth+1)
		}
		c.sb.WriteString("]")
	case reflect.Map:
		if v.IsNil() {
			c.sb.WriteString(v.Type().String() + "(nil)")
			return
		}
		type kv struct {
			k string
			v reflect.Value
		}
		var kvs []kv
		it := v.MapRange()
		for it.Next() {
			kc := &Canon{ids: c.ids, MaxDepth: c.MaxDepth}
			kc.Val(it.Key(), depth+1)
			kvs = append(kvs, kv{kc.sb.String(), it.Value()})
		}
		sort.Slice(kvs, func(i, j int) bool { return kvs[i].k < kvs[j].k })
		c.sb.WriteString(v.Type().String() + "{")
		for i, e := range kvs {
			if i > 0 {
				c.sb.WriteString(",")
			}
			c.sb.WriteString(e.k + ":")
			c.Val(e.v, depth+1)
		}
		c.sb.WriteString("}")
	default:
		fmt.Fprintf(&c.sb, "<%s>", v.Kind())
	}
}
