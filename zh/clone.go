package zh

import (
	"reflect"
	"unsafe"
)

// Cloner deep-copies object graphs (pooled zog objects and whatever their
// stale fields still point to), preserving aliasing inside the copied graph:
// the same source pointer always maps to the same copy. Unexported fields are
// copied too. Funcs and channels are shared.
type Cloner struct {
	ptrs map[unsafe.Pointer]reflect.Value
}

func NewCloner() *Cloner { return &Cloner{ptrs: map[unsafe.Pointer]reflect.Value{}} }

// CloneObj clones a pointer-typed pool entry.
func (c *Cloner) CloneObj(o any) any {
	if o == nil {
		return nil
	}
	return c.clone(reflect.ValueOf(o), 0).Interface()
}

func open(v reflect.Value) reflect.Value {
	if v.CanInterface() || !v.CanAddr() {
		return v
	}
	return reflect.NewAt(v.Type(), unsafe.Pointer(v.UnsafeAddr())).Elem()
}

func (c *Cloner) clone(v reflect.Value, depth int) reflect.Value {
	if !v.IsValid() {
		return v
	}
	if depth > 40 {
		return v
	}
	switch v.Kind() {
	case reflect.Pointer:
		if v.IsNil() {
			return reflect.Zero(v.Type())
		}
		p := v.UnsafePointer()
		if nv, ok := c.ptrs[p]; ok && nv.Type() == v.Type() {
			return nv
		}
		nv := reflect.New(v.Type().Elem())
		if _, ok := c.ptrs[p]; !ok {
			c.ptrs[p] = nv
		}
		c.copyInto(nv.Elem(), v.Elem(), depth+1)
		return nv
	default:
		nv := reflect.New(v.Type()).Elem()
		c.copyInto(nv, v, depth+1)
		return nv
	}
}

// copyInto fills addressable dst with a deep copy of src.
func (c *Cloner) copyInto(dst, src reflect.Value, depth int) {
	src = open(src)
	dst = open(dst)
	switch src.Kind() {
	case reflect.Pointer:
		dst.Set(c.clone(src, depth))
	case reflect.Interface:
		if src.IsNil() {
			return
		}
		dst.Set(c.clone(src.Elem(), depth))
	case reflect.Struct:
		if src.Type() == timeType {
			dst.Set(src)
			return
		}
		for i := 0; i < src.NumField(); i++ {
			sf := src.Field(i)
			if !sf.CanAddr() {
				// non-addressable struct (e.g. map element): copy wholesale
				dst.Set(src)
				return
			}
			c.copyInto(dst.Field(i), sf, depth+1)
		}
	case reflect.Slice:
		if src.IsNil() {
			return
		}
		full := src.Slice(0, src.Cap())
		ns := reflect.MakeSlice(src.Type(), src.Cap(), src.Cap())
		for i := 0; i < full.Len(); i++ {
			c.copyInto(ns.Index(i), full.Index(i), depth+1)
		}
		dst.Set(ns.Slice(0, src.Len()))
	case reflect.Array:
		for i := 0; i < src.Len(); i++ {
			c.copyInto(dst.Index(i), src.Index(i), depth+1)
		}
	case reflect.Map:
		if src.IsNil() {
			return
		}
		nm := reflect.MakeMapWithSize(src.Type(), src.Len())
		it := src.MapRange()
		for it.Next() {
			// map values are not addressable: copy through an addressable temporary
			tmp := reflect.New(src.Type().Elem()).Elem()
			tmp.Set(it.Value())
			nv := reflect.New(src.Type().Elem()).Elem()
			c.copyInto(nv, tmp, depth+1)
			nm.SetMapIndex(it.Key(), nv)
		}
		dst.Set(nm)
	default:
		dst.Set(src)
	}
}
