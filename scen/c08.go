package scen

// C08 — schemas are safe to share between goroutines.
// Closed drivers (c08drv) with 2 (→3) threads on shared schema objects are
// run under the cooperative scheduler: every interleaving at the yield points
// (pool operations = the library's only synchronisation; thorough: also
// before every library statement) within the preemption bound × pool answers.
// Oracle: each call's observation equals the observation of the same thread
// run alone on cleared pools; pool-ownership monitor; schema-owned values
// unchanged. A separate free-running -race pass over the same bodies is run
// by the driver (auxiliary, not exhaustive).

import (
	"fmt"
	"strings"

	"zogverif/c08drv"
	"zogverif/mc"
	"zogverif/zh"
)

func c08Scenario(di int, nthreads int, fine bool) mc.Scenario {
	var baseline [][]string
	var baseOwned string
	return func(x *mc.X) *mc.Outcome {
		drv := c08drv.Drivers(nthreads)[di]
		// Prologue of every execution: each thread alone, on cleared pools and a freshly built schema. The first
		// one is the baseline. Repeating it makes whatever the library keeps between calls outside the pools
		// (a cache, a remembered value) start every schedule from the same content, so that a schedule's
		// execution is a function of its choice vector.
		var alone [][]string
		for t := 0; t < drv.Threads; t++ {
			zh.Reset()
			sh := drv.Setup()
			zh.Install(x, zh.PoolLIFO, zh.OrderSorted) // same canonical field order as the scheduled runs
			var out []string
			sh.Thread(t, &out, nil)
			alone = append(alone, out)
			if sh.Cleanup != nil {
				sh.Cleanup()
			}
		}
		if baseline == nil {
			baseline = alone
		}
		zh.Reset()
		sh := drv.Setup()
		baseOwned = zh.CanonStringHidden(sh.Owned) // values handed to the builders, before any use
		zh.Install(x, zh.PoolDeviate, zh.OrderSorted)
		s := zh.NewSched(x, drv.Threads)
		s.Fine = fine
		outs := make([][]string, drv.Threads)
		bodies := make([]func(), drv.Threads)
		for t := 0; t < drv.Threads; t++ {
			t := t
			bodies[t] = func() { sh.Thread(t, &outs[t], s.Yield) }
		}
		s.Run(bodies)
		owned := zh.CanonStringHidden(sh.Owned)
		if sh.Cleanup != nil {
			sh.Cleanup()
		}
		zh.Reset()
		out := &mc.Outcome{Traces: drv.Threads, Nontrivial: s.Switches > 0}
		// distinctness: how the threads actually collided (context switches, pooled objects handed from one thread to the other)
		out.Sig = fmt.Sprintf("%s|switches=%d|handovers=%d|%v", drv.Name, s.Switches, s.Handovers, outs)
		out.LazySample = func() any {
			return map[string]any{"driver": drv.Name, "schedule": x.Labels(), "yield_points": s.Points, "switches": s.Switches, "pool_objects_handed_between_threads": s.Handovers, "observations": outs}
		}
		fail := func(key, what, exp, got string) {
			x.Note("driver: %s (%d threads, fine=%v)", drv.Name, drv.Threads, fine)
			x.Note("schedule (choice vector): %v", x.Choices())
			out.Viol = append(out.Viol, &mc.Violation{Key: key, What: what, Expected: exp, Observed: got})
		}
		for t := range alone {
			if !eqStrings(alone[t], baseline[t]) {
				fail(fmt.Sprintf("C08:alone-result-unstable:d%d", di), fmt.Sprintf("thread %d run alone does not return what it returned alone before (after concurrent executions of the same driver)", t), strings.Join(baseline[t], " || "), strings.Join(alone[t], " || "))
				return out
			}
		}
		if s.Err != nil {
			fail(fmt.Sprintf("C08:panic:d%d", di), fmt.Sprintf("thread %d panicked under this interleaving", s.ErrWho), "no panic", fmt.Sprint(s.Err))
			return out
		}
		if s.MonErr != "" {
			fail(fmt.Sprintf("C08:ownership:d%d", di), "pool ownership violated: "+s.MonErr, "every pooled object has at most one owner and is released once", s.MonErr)
			return out
		}
		for t := range outs {
			if !eqStrings(outs[t], baseline[t]) {
				fail(fmt.Sprintf("C08:result:d%d", di), fmt.Sprintf("thread %d's calls did not return what they return running alone", t), strings.Join(baseline[t], " || "), strings.Join(outs[t], " || "))
				return out
			}
		}
		if owned != baseOwned {
			fail(fmt.Sprintf("C08:schema-modified:d%d", di), "values owned by the shared schema were modified during concurrent use", baseOwned, owned)
		}
		return out
	}
}

// Many executions in flight at one program point: n threads (70, 1100) of a driver are stopped one after the
// other behind their j-th scheduling point and then finished in turn, for every j up to the longest thread.
// Whatever the library counts or keeps per schema while a call is inside it is then at its largest.
func c08PileUpScenario(di int) mc.Scenario {
	return func(x *mc.X) *mc.Outcome {
		n := []int{70, 1100}[x.Choose(2, "threads")]
		j := 1 + x.Choose(48, "stop behind scheduling point")
		drv := c08drv.Drivers(n)[di]
		// what a thread returns alone depends on its index through a short period only (inputs are chosen by i%2, i%3, i%4, i%5)
		alone := make([][]string, 60)
		for t := range alone {
			zh.Reset()
			sh := drv.Setup()
			zh.Install(x, zh.PoolLIFO, zh.OrderSorted)
			var out []string
			sh.Thread(t, &out, nil)
			alone[t] = out
			if sh.Cleanup != nil {
				sh.Cleanup()
			}
		}
		zh.Reset()
		sh := drv.Setup()
		zh.Install(x, zh.PoolLIFO, zh.OrderSorted)
		p := zh.NewPileUp(n, j)
		outs := make([][]string, n)
		bodies := make([]func(), n)
		for t := 0; t < n; t++ {
			t := t
			bodies[t] = func() { sh.Thread(t, &outs[t], p.Yield) }
		}
		p.Run(bodies)
		if sh.Cleanup != nil {
			sh.Cleanup()
		}
		zh.Reset()
		out := &mc.Outcome{Traces: n, Nontrivial: p.MaxInFlight > 1, Sig: fmt.Sprintf("pileup|%s|%d|%d", drv.Name, n, p.MaxInFlight)}
		out.Sample = map[string]any{"driver": drv.Name, "threads": n, "stopped_behind_point": j, "executions_in_flight": p.MaxInFlight}
		fail := func(key, what, exp, got string) {
			x.Note("driver: %s; %d threads each stopped behind its scheduling point %d (%d in flight at once), then finished in turn", drv.Name, n, j, p.MaxInFlight)
			out.Viol = append(out.Viol, &mc.Violation{Key: key, What: what, Expected: exp, Observed: got})
		}
		if p.Err != nil {
			fail(fmt.Sprintf("C08:panic:d%d", di), fmt.Sprintf("thread %d panicked with %d executions in flight", p.ErrWho, p.MaxInFlight), "no panic", fmt.Sprint(p.Err))
			return out
		}
		for t := range outs {
			if !eqStrings(outs[t], alone[t%60]) {
				fail(fmt.Sprintf("C08:result:d%d", di), fmt.Sprintf("thread %d's calls did not return what they return running alone", t), strings.Join(alone[t%60], " || "), strings.Join(outs[t], " || "))
				return out
			}
		}
		return out
	}
}

func c08Bounds(tier string) (coarse, fineDevs, coarse3 int) {
	if tier == "thorough" {
		return 3, 1, 2
	}
	return 2, 0, 0
}

func init() {
	Register(&Prop{
		ID:    "C08",
		Rule:  "one execution = one schedule of a closed driver: 19 drivers, 2 threads (thorough: also 3) each performing 1–2 Parse/Validate/Collect operations on SHARED schema objects with per-thread data, destination and options; choice points: which thread runs first, at every pool Get/Put (thorough: also before every library statement) whether to preempt, which thread continues when one finishes, and which free object each pool Get returns; budget = preemptions + non-LIFO pool answers; oracle: every call's full observation equals the same thread run alone on cleared pools, pool-ownership monitor (no object held by two threads, none released twice), schema-owned values unchanged; non-trivial = at least one context switch; distinct = distinct (driver, number of context switches, number of pooled objects handed from one thread to another, observations). plus pile-up schedules: 70 and 1100 threads of five drivers, each stopped behind its j-th scheduling point (every j ≤ 48) and then finished in turn — one deterministic schedule per (driver, thread count, j) with up to 1100 executions in flight, same per-thread oracle. Auxiliary: free-running -race pass over the same bodies (sampling, reported separately)",
		Floor: 5,
		Bound: func(tier string) string {
			c, f, c3 := c08Bounds(tier)
			if tier == "thorough" {
				return fmt.Sprintf("2 threads: coarse points ≤%d deviations; fine points (every statement) ≤%d preemption; 3 threads: coarse points ≤%d deviations", c, f, c3)
			}
			return fmt.Sprintf("2 threads, coarse points (pool operations, callbacks), ≤%d deviations (preemptions + non-LIFO pool answers)", c)
		},
		Assumptions: []string{
			"between two pool operations a call touches only objects it owns, its own input/destination and read-only shared data; the fine mode (thorough) and the race monitor check that premise instead of relying on it",
			"memory-model level data races are monitored by a separate free-running -race run (not exhaustive)",
		},
		Items: func(tier string) []Item {
			c, f, c3 := c08Bounds(tier)
			var items []Item
			for i, d := range c08drv.Drivers(2) {
				items = append(items, Item{Name: "coarse/2threads/" + d.Name, MaxDevs: c, Run: c08Scenario(i, 2, false)})
			}
			if tier != "thorough" {
				// quick: one preemption anywhere (before any library statement), pool answers most-recently-released-first
				for i, d := range c08drv.Drivers(2) {
					items = append(items, Item{Name: "fine/2threads/" + d.Name, MaxDevs: 1, Run: c08Scenario(i, 2, true)})
				}
				// quick: two preemptions anywhere, on the smallest driver (what every execution shares — contexts, paths,
				// issue lists — is exercised by it; a window that needs the other thread to come back needs two)
				for i, d := range c08drv.Drivers(2) {
					if strings.HasPrefix(d.Name, "1 ") {
						items = append(items, Item{Name: "fine-two-preemptions/2threads/" + d.Name, MaxDevs: 2, Run: c08Scenario(i, 2, true)})
					}
				}
			}
			for i, d := range c08drv.Drivers(2) {
				if c08PileUpOK[i] {
					items = append(items, Item{Name: "pile-up/" + d.Name, MaxDevs: -1, Run: c08PileUpScenario(i)})
				}
			}
			if tier == "thorough" {
				for i, d := range c08drv.Drivers(2) {
					items = append(items, Item{Name: "fine/2threads/" + d.Name, MaxDevs: f, Run: c08Scenario(i, 2, true)})
				}
				for i, d := range c08drv.Drivers(3) {
					items = append(items, Item{Name: "coarse/3threads/" + d.Name, MaxDevs: c3, Run: c08Scenario(i, 3, false)})
				}
			}
			return items
		},
	})
}

// drivers whose per-thread inputs have a period dividing 60 (so that "thread t alone" is known from t%60) and
// whose threads are independent of the thread count
var c08PileUpOK = map[int]bool{0: true, 1: true, 2: true, 4: true, 5: true}
