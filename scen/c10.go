package scen

// C10 — the issue map is well-formed and addresses every issue by its path.
// Records with nested structs and lists × struct-tag configurations × six
// front ends × sets of simultaneously failing nodes × field visit orders ×
// modes. Oracle: map invariants; Path == documented key chain; $first == the
// first issue recorded under the chosen order; sanitizers mirror the map.

import (
	"net/http/httptest"
	"github.com/Oudwins/zog/zhttp"
	"fmt"
	"reflect"
	"sort"
	"strings"

	z "github.com/Oudwins/zog"
	"zogverif/mc"
	"zogverif/zh"
)

// c10Invariants checks the well-formedness of a returned issue map.
func c10Invariants(m z.ZogIssueMap) string {
	if m == nil {
		return ""
	}
	seen := map[*z.ZogIssue]int{}
	first, ok := m["$first"]
	if !ok {
		return "non-empty result without $first"
	}
	if len(first) != 1 {
		return fmt.Sprintf("$first holds %d issues", len(first))
	}
	for k, l := range m {
		if len(l) == 0 {
			return fmt.Sprintf("key %q holds an empty list", k)
		}
		if k == "$first" {
			continue
		}
		if strings.HasPrefix(k, "$") && k != "$root" {
			return fmt.Sprintf("unexpected reserved key %q", k)
		}
		for _, is := range l {
			seen[is]++
			want := is.Path
			if want == "" {
				want = "$root"
			}
			if k != want {
				return fmt.Sprintf("issue with path %q stored under key %q", is.Path, k)
			}
		}
	}
	for is, n := range seen {
		if n != 1 {
			return fmt.Sprintf("issue %s@%s appears %d times", is.Code, is.Path, n)
		}
	}
	if seen[first[0]] != 1 {
		return "$first is not one of the issues stored under their paths"
	}
	if len(m) < 2 {
		return "map holds only $first"
	}
	// sanitizers
	sm := z.Issues.SanitizeMap(m)
	if len(sm) != len(m) {
		return "SanitizeMap has different keys"
	}
	for k, l := range m {
		sl, ok := sm[k]
		if !ok || len(sl) != len(l) {
			return fmt.Sprintf("SanitizeMap key %q differs", k)
		}
		for i := range l {
			if sl[i] != l[i].Message {
				return fmt.Sprintf("SanitizeMap[%q][%d] = %q, issue message %q", k, i, sl[i], l[i].Message)
			}
		}
		s2 := z.Issues.SanitizeList(l)
		if !reflect.DeepEqual(s2, sl) {
			return "SanitizeList differs from SanitizeMap"
		}
	}
	return ""
}

var c10SkelCache = map[string]*Skel{}

func c10Skel(fe FrontEnd, tags map[string]int, deep bool) *Skel {
	key := fmt.Sprintf("%d|%s|%v", fe, tagsString(tags), deep)
	if s, ok := c10SkelCache[key]; ok {
		return s
	}
	s := recordSkel(fe, tags, deep)
	c10SkelCache[key] = s
	return s
}

// feCase is one enumerated front-end case run on the real code with the model's verdicts.
type feCase struct {
	fe        FrontEnd
	c         *Case
	r         *Rendered
	real      *Obs
	orders    [][]int
	ideal     *specState
	idealDest reflect.Value
	quirk     *specState
	quirkDest reflect.Value
	dest      reflect.Value
}

func runFE(x *mc.X, fe FrontEnd, a *Alpha, skel *Skel, fm map[string]bool, elems int, om zh.OrderMode, fixedOrders [][]int, c *Case) *feCase {
	fc := &feCase{fe: fe, c: c}
	fc.r = Render(fe, c.Root, c.Data)
	if !fc.r.Expressible {
		return fc
	}
	zh.Reset()
	rec := &Recorder{Light: true}
	schema := BuildZog(c.Root, rec)
	fc.dest = reflect.New(c.Root.GoType())
	fillSentinel(fc.dest.Elem(), c.Root)
	if fixedOrders != nil {
		zh.Install(x, zh.PoolLIFO, zh.OrderSorted)
		installReplayOrders(fixedOrders)
		fc.orders = fixedOrders
	} else {
		installOrderRecorder(x, om, &fc.orders)
	}
	data := fc.r.MkData()
	fc.real = RunParse(schema, data, fc.dest)
	fc.r.Cleanup()
	zh.Reset()
	run := func(quirks map[string]bool) (*specState, reflect.Value) {
		st := &specState{orders: fc.orders, quirks: quirks}
		md := reflect.New(c.Root.GoType())
		fillSentinel(md.Elem(), c.Root)
		st.specParse(c.Root, fc.r.Src, md.Elem(), "")
		return st, md
	}
	fc.ideal, fc.idealDest = run(nil)
	fc.quirk, fc.quirkDest = run(map[string]bool{"nested-tag": true, "nested-flat": true, "empty-doc-tag": true})
	return fc
}

func firedList(st *specState) string {
	var l []string
	for k := range st.fired {
		l = append(l, k)
	}
	sort.Strings(l)
	return strings.Join(l, "+")
}

func c10Scenario(tier string, tags map[string]int, focus []string, deep bool, elems int) mc.Scenario {
	fm := focusMap(focus)
	return func(x *mc.X) *mc.Outcome {
		fe := FrontEnd(x.Choose(int(feCount), "frontend"))
		mode := 0
		if fe == FEMap {
			mode = x.Choose(2, "mode")
		}
		a := &Alpha{Tier: tier, Mode: mode, NoCatch: true, FE: true, SourceTag: fe.SourceTag(), NoBracket: hasBracketTag(tags)}
		skel := c10Skel(fe, tags, deep)
		zh.Reset()
		c := BuildCase(x, a, skel, fm, elems)
		for u := range fm {
			if !c.Touched[u] {
				return &mc.Outcome{Sig: "redundant"}
			}
		}
		out := &mc.Outcome{Traces: 1, Nontrivial: true}
		var real *Obs
		var want []string
		var wantFirst *Iss
		var orders [][]int
		known := ""
		desc := ""
		var idealWant []string
		if mode == 1 {
			cr := runCoreOnCase(x, c, zh.OrderRev)
			real, orders = cr.Real, cr.Orders
			want = cr.Spec.sorted()
			if len(cr.Spec.issues) > 0 {
				wantFirst = &cr.Spec.issues[0]
			}
			desc = "Validate " + canonValue(c.Dest.Elem())
		} else {
			fc := runFE(x, fe, a, skel, fm, elems, zh.OrderRev, nil, c)
			if !fc.r.Expressible {
				return &mc.Outcome{Sig: "inexpressible:" + fc.r.Why}
			}
			real, orders = fc.real, fc.orders
			desc = fc.r.Desc
			got := real.IssueStrings()
			want = fc.ideal.sorted()
			idealWant = want
			if len(fc.ideal.issues) > 0 {
				wantFirst = &fc.ideal.issues[0]
			}
			if real.Panic == "" && !eqStrings(want, got) && eqStrings(fc.quirk.sorted(), got) && len(fc.quirk.fired) > 0 {
				known = firedList(fc.quirk)
				want = fc.quirk.sorted()
				wantFirst = nil
				if len(fc.quirk.issues) > 0 {
					wantFirst = &fc.quirk.issues[0]
				}
			}
		}
		got := real.IssueStrings()
		out.Sig = fmt.Sprintf("%s|%d|%s|%v", fe, mode, tagsString(tags), want)
		out.LazySample = func() any {
			return map[string]any{"frontend": fe.String(), "schema": c.Root.Describe(), "input": desc, "orders": orders, "issues": got}
		}
		note := func() {
			x.Note("front end: %s, mode %d", fe, mode)
			x.Note("schema: %s", c.Root.Describe())
			x.Note("input: %s", desc)
			x.Note("visit orders: %v", orders)
		}
		if real.Panic != "" {
			note()
			out.Viol = append(out.Viol, &mc.Violation{Key: "C10:panic:" + firstLine(real.Panic), What: "panic", Observed: real.Panic})
			return out
		}
		if known != "" {
			note()
			for _, q := range strings.Split(known, "+") {
				out.Viol = append(out.Viol, &mc.Violation{
					Key:      "C10:" + quirkDefect(q) + ":" + q,
					What:     "issue keys deviate from the documented key rule exactly as the as-is model with quirk " + q + " predicts (" + quirkDefect(q) + ")",
					Expected: "documented: " + fmt.Sprint(idealWant),
					Observed: fmt.Sprint(got),
				})
			}
		}
		if !eqStrings(want, got) {
			note()
			out.Viol = append(out.Viol, &mc.Violation{Key: "C10:paths:" + fe.String() + ":" + diffKey(want, got), What: "issue keys/paths differ from the documented key chain (source tag → zog tag → schema key at every depth, [i] for positions)", Expected: fmt.Sprint(want), Observed: fmt.Sprint(got)})
			return out
		}
		if msg := c10Invariants(real.RawMap); msg != "" {
			note()
			out.Viol = append(out.Viol, &mc.Violation{Key: "C10:invariant:" + strings.SplitN(msg, " ", 3)[0], What: "issue map is not well-formed: " + msg, Expected: "every issue exactly once under its path, $first exactly one, sanitizers mirror the map", Observed: msg})
			return out
		}
		if wantFirst != nil {
			if real.First == nil || real.First.Path != wantFirst.Path || real.First.Code != wantFirst.Code {
				note()
				g := "<none>"
				if real.First != nil {
					g = real.First.String()
				}
				out.Viol = append(out.Viol, &mc.Violation{Key: "C10:first", What: "$first is not the first issue recorded under the chosen visit order", Expected: wantFirst.String(), Observed: g})
			}
		}
		return out
	}
}

func quirkDefect(q string) string {
	if q == "empty-doc-tag" {
		return "D24"
	}
	return "D18"
}

// runCoreOnCase: Validate-mode run of an already built case with the model.
func runCoreOnCase(x *mc.X, c *Case, om zh.OrderMode) *CoreRun {
	cr := &CoreRun{Case: c}
	zh.Reset()
	cr.Rec = &Recorder{Light: true}
	schema := BuildZog(c.Root, cr.Rec)
	installOrderRecorder(x, om, &cr.Orders)
	pre := deepCopy(c.Dest.Elem())
	cr.Real = RunValidate(schema, c.Dest)
	zh.Reset()
	st := &specState{orders: cr.Orders}
	md := reflect.New(c.Root.GoType())
	md.Elem().Set(pre)
	st.specValidate(c.Root, md.Elem(), "")
	cr.Spec, cr.SpecDest = st, md
	return cr
}

// IssuePath overrides and root-level tests
func c10IssuePathScenario(x *mc.X) *mc.Outcome {
	zh.Reset()
	zh.Install(x, zh.PoolLIFO, zh.OrderFree)
	mode := x.Choose(2, "mode")
	// 0 root test, 1 field test, 2 required, 3 slice element test; 4..8: a PASSING test carries the IssuePath and an
	// issue that belongs to no test (PostTransform error, required) arises on the same node, on a sibling, on the
	// record, or in a later call: it must be keyed by its own node's path
	where := x.Choose(13, "where")
	if where >= 9 {
		return c10IssuePathNested(x, where-9)
	}
	custom := []string{"custom", "a", "deep.path[3]", "l[0]"}[x.Choose(4, "issuePath")]
	type D struct {
		A string
		L []string
	}
	fail := func(v any, ctx z.Ctx) bool { return false }
	pass := func(v any, ctx z.Ctx) bool { return true }
	boom := func(p any, ctx z.Ctx) error { return fmt.Errorf("transform failed") }
	var s *z.StructSchema
	wantKeys := map[string]int{}
	valid := false
	switch where {
	case 4:
		s, valid = z.Struct(z.Schema{"a": z.String().Min(1, z.IssuePath(custom)).PostTransform(boom), "l": z.Slice(z.String())}), true
		wantKeys["a"]++
	case 5:
		s, valid = z.Struct(z.Schema{"a": z.String().Min(1, z.IssuePath(custom)), "l": z.Slice(z.String()).PostTransform(boom)}), true
		wantKeys["l"]++
	case 6:
		s, valid = z.Struct(z.Schema{"a": z.String().Min(1), "l": z.Slice(z.String())}).TestFunc(pass, z.IssuePath(custom)).PostTransform(boom), true
		wantKeys["$root"]++
	case 7:
		s, valid = z.Struct(z.Schema{"a": z.String().Min(1, z.IssuePath(custom)), "l": z.Slice(z.String()).Required()}), true
		wantKeys["l"]++
	case 8:
		// an earlier, successful call of an unrelated schema whose test carries the IssuePath
		var tmp string
		z.String().Min(1, z.IssuePath(custom)).Parse("ok", &tmp)
		s, valid = z.Struct(z.Schema{"a": z.String(), "l": z.Slice(z.String())}).PostTransform(boom), true
		wantKeys["$root"]++
	case 0:
		s = z.Struct(z.Schema{"a": z.String().Min(5), "l": z.Slice(z.String())}).TestFunc(fail, z.IssuePath(custom), z.IssueCode("rootfail"))
		wantKeys[custom]++
		wantKeys["a"]++
	case 1:
		s = z.Struct(z.Schema{"a": z.String().Min(5, z.IssuePath(custom)).Max(1), "l": z.Slice(z.String())})
		wantKeys[custom]++
		wantKeys["a"]++
	case 2:
		s = z.Struct(z.Schema{"a": z.String().Min(1), "l": z.Slice(z.String()).Required(z.IssuePath(custom))})
		wantKeys[custom]++
	case 3:
		s = z.Struct(z.Schema{"a": z.String().Min(1), "l": z.Slice(z.String().Min(5, z.IssuePath(custom))).Min(3)})
		wantKeys[custom] += 2
		wantKeys["l"]++
	}
	var m z.ZogIssueMap
	var d D
	if mode == 0 {
		data := map[string]any{"a": "ab", "l": []any{"x", "y"}}
		if where == 2 || where == 7 {
			delete(data, "l")
		}
		_ = valid
		m = s.Parse(data, &d)
	} else {
		d = D{A: "ab", L: []string{"x", "y"}}
		if where == 2 || where == 7 {
			d.L = nil
		}
		m = s.Validate(&d)
	}
	zh.Reset()
	gotKeys := map[string]int{}
	for k, l := range m {
		if k != "$first" {
			gotKeys[k] += len(l)
		}
	}
	out := &mc.Outcome{Traces: 1, Nontrivial: true, Sig: fmt.Sprintf("issuepath|%d|%d|%s", mode, where, custom)}
	out.Sample = map[string]any{"where": where, "issuePath": custom, "keys": fmt.Sprint(gotKeys)}
	if !reflect.DeepEqual(wantKeys, gotKeys) {
		x.Note("mode %d where %d IssuePath(%q)", mode, where, custom)
		out.Viol = append(out.Viol, &mc.Violation{Key: fmt.Sprintf("C10:issuepath:%d", where), What: "IssuePath does not override the path of exactly its own test (cases 4-8: an issue that belongs to no test must be keyed by its own node's path)", Expected: fmt.Sprint(wantKeys), Observed: fmt.Sprint(gotKeys)})
		return out
	}
	if msg := c10Invariants(m); msg != "" {
		out.Viol = append(out.Viol, &mc.Violation{Key: "C10:issuepath-invariant", What: msg, Observed: msg})
	}
	return out
}

// IssuePath overrides at depth: the override is the literal path, wherever in the tree the test sits
// (in a nested record, behind a pointer, in a record that is a list item, in a list inside a nested record).
func c10IssuePathNested(x *mc.X, where int) *mc.Outcome {
	mode := x.Choose(2, "mode")
	custom := []string{"custom", "line1", "deep.path[3]", "lines"}[x.Choose(4, "issuePath")]
	type Addr struct {
		Line1 string
		Lines []string
	}
	type D struct {
		Address Addr
		Ptr     *Addr
		List    []Addr
	}
	inner := func() *z.StructSchema {
		return z.Struct(z.Schema{"line1": z.String().Min(5, z.IssuePath(custom)), "lines": z.Slice(z.String().Min(5)).Min(3, z.IssuePath(custom))})
	}
	var s *z.StructSchema
	wantKeys := map[string]int{custom: 2}
	var data map[string]any
	d := D{}
	rec := map[string]any{"line1": "ab", "lines": []any{"long-enough"}}
	val := Addr{Line1: "ab", Lines: []string{"long-enough"}}
	switch where {
	case 0: // nested record
		s = z.Struct(z.Schema{"address": inner()})
		data, d.Address = map[string]any{"address": rec}, val
	case 1: // behind a pointer
		s = z.Struct(z.Schema{"ptr": z.Ptr(inner())})
		v := val
		data, d.Ptr = map[string]any{"ptr": rec}, &v
	case 2: // a record that is a list item
		s = z.Struct(z.Schema{"list": z.Slice(inner())})
		data, d.List = map[string]any{"list": []any{rec}}, []Addr{val}
	case 3: // required with IssuePath inside a nested record
		s = z.Struct(z.Schema{"address": z.Struct(z.Schema{"line1": z.String().Required(z.IssuePath(custom)), "lines": z.Slice(z.String()).Required(z.IssuePath(custom))})})
		data = map[string]any{"address": map[string]any{"line1": "", "lines": nil}}
	}
	var m z.ZogIssueMap
	if mode == 0 {
		m = s.Parse(data, &d)
	} else {
		m = s.Validate(&d)
	}
	zh.Reset()
	gotKeys := map[string]int{}
	for k, l := range m {
		if k != "$first" {
			gotKeys[k] += len(l)
		}
	}
	out := &mc.Outcome{Traces: 1, Nontrivial: true, Sig: fmt.Sprintf("issuepath-nested|%d|%d|%s", mode, where, custom)}
	out.Sample = map[string]any{"where": where, "issuePath": custom, "keys": fmt.Sprint(gotKeys)}
	if !reflect.DeepEqual(wantKeys, gotKeys) {
		x.Note("mode %d, IssuePath(%q) on tests at depth: case %d (0 nested record, 1 behind a pointer, 2 record that is a list item, 3 required inside a nested record)", mode, custom, where)
		out.Viol = append(out.Viol, &mc.Violation{Key: fmt.Sprintf("C10:issuepath-nested:%d", where), What: "an IssuePath override at depth is not the literal path of exactly its own test", Expected: fmt.Sprint(wantKeys), Observed: fmt.Sprint(gotKeys)})
		return out
	}
	if msg := c10Invariants(m); msg != "" {
		out.Viol = append(out.Viol, &mc.Violation{Key: "C10:issuepath-invariant", What: msg, Observed: msg})
	}
	return out
}

// The sanitizers are functions of the map they are given: for ANY issue map a caller holds — results of several
// schemas merged under prefixes, issues filed through the deprecated Ctx.NewError (which files an issue under a
// path without touching the issue's own Path field) — they return the same keys and order carrying only the
// messages. One execution = one map over the keys {$root, name, a.b} with 0..2 issues each drawn from four
// issues with distinct messages and Path fields, and one of the four under $first.
func c10SanitizeComposedScenario(x *mc.X) *mc.Outcome {
	zh.Reset()
	zh.Install(x, zh.PoolLIFO, zh.OrderSorted)
	paths := []string{"", "name", "a.b", "name"}
	var pool []*z.ZogIssue
	for i, p := range paths {
		pool = append(pool, (&z.ZogIssue{}).SetCode(fmt.Sprintf("c%d", i)).SetPath(p).SetMessage(fmt.Sprintf("message %d", i)))
	}
	// an issue whose message is blank (a formatter that has no text for its code) is still an issue: one entry, an empty text
	pool = append(pool, (&z.ZogIssue{}).SetCode("c4").SetPath("name"))
	m := z.ZogIssueMap{}
	var desc []string
	for _, k := range []string{"$root", "name", "a.b"} {
		n := x.Choose(3, k+".len")
		var l []*z.ZogIssue
		for j := 0; j < n; j++ {
			l = append(l, pool[x.Choose(len(pool), k+".issue")])
		}
		if n > 0 {
			m[k] = l
			desc = append(desc, fmt.Sprintf("%s:%v", k, issueCodes(l)))
		}
	}
	fi := x.Choose(len(pool), "$first")
	m["$first"] = []*z.ZogIssue{pool[fi]}
	desc = append(desc, fmt.Sprintf("$first:%v", issueCodes(m["$first"])))
	collect := x.Bool("SanitizeMapAndCollect")
	want := map[string][]string{}
	for k, l := range m {
		for _, is := range l {
			want[k] = append(want[k], is.Message)
		}
	}
	var got map[string][]string
	pmsg := func() (msg string) {
		defer func() {
			if r := recover(); r != nil {
				msg = firstLine(fmt.Sprint(r))
			}
		}()
		if collect {
			// (the issues are the caller's own objects: handing them to the pool afterwards is the documented use)
			got = z.Issues.SanitizeMapAndCollect(m)
		} else {
			got = z.Issues.SanitizeMap(m)
		}
		return ""
	}()
	zh.Reset()
	out := &mc.Outcome{Traces: 1, Nontrivial: len(m) > 1, Sig: fmt.Sprintf("sanitize|%d|%v", len(m), collect)}
	out.Sample = map[string]any{"map": desc, "sanitized": got}
	if pmsg == "" && reflect.DeepEqual(got, want) {
		// the returned lists are the caller's: adding a message of its own to one of them changes no other list
		for _, k := range sortedKeysS(got) {
			got[k] = append(got[k], "added by the caller to "+k)
		}
		for k, l := range want {
			if len(got[k]) != len(l)+1 || !reflect.DeepEqual(got[k][:len(l)], l) {
				x.Note("issue map (code@Path per entry): %v; after the caller appended one message of its own to every sanitized list", desc)
				out.Viol = append(out.Viol, &mc.Violation{Key: "C10:sanitize-lists-share-memory", What: "appending to one sanitized list changed another", Expected: fmt.Sprint(l), Observed: fmt.Sprint(got[k])})
				return out
			}
		}
		return out
	}
	if pmsg != "" || !reflect.DeepEqual(got, want) {
		x.Note("issue map (code@Path per entry): %v; entry point SanitizeMapAndCollect=%v", desc, collect)
		out.Viol = append(out.Viol, &mc.Violation{Key: "C10:sanitize-composed-map", What: "SanitizeMap does not return the same keys and order carrying only the messages", Expected: fmt.Sprint(want), Observed: fmt.Sprintf("panic=%q %v", pmsg, got)})
	}
	return out
}

// Fields tagged zog:"" (an explicitly empty name): the tag is present, so it names the field — with the empty
// key. Paths below are the chain of keys joined by '.', the empty path keyed $root, in Parse and in Validate.
type c10ETAddr struct {
	Street string `zog:""`
}

type c10ET struct {
	Note  string `zog:""`
	Addr  c10ETAddr
	Items []c10ETAddr
}

func c10EmptyTagScenario(x *mc.X) *mc.Outcome {
	zh.Reset()
	zh.Install(x, zh.PoolLIFO, zh.OrderFree)
	mode := x.Choose(2, "mode")
	failNote, failAddr, failItem := x.Bool("note fails"), x.Bool("addr.street fails"), x.Bool("items[1].street fails")
	val := func(fail bool) string {
		if fail {
			return "x"
		}
		return "long enough"
	}
	s := z.Struct(z.Schema{
		"note":  z.String().Min(3),
		"addr":  z.Struct(z.Schema{"street": z.String().Min(3)}),
		"items": z.Slice(z.Struct(z.Schema{"street": z.String().Min(3)})),
	})
	var d c10ET
	var m z.ZogIssueMap
	pmsg := func() (msg string) {
		defer func() {
			if r := recover(); r != nil {
				msg = firstLine(fmt.Sprint(r))
			}
		}()
		if mode == 0 {
			m = s.Parse(map[string]any{"": val(failNote), "addr": map[string]any{"": val(failAddr)}, "items": []any{map[string]any{"": "long enough"}, map[string]any{"": val(failItem)}}}, &d)
		} else {
			d = c10ET{Note: val(failNote), Addr: c10ETAddr{val(failAddr)}, Items: []c10ETAddr{{"long enough"}, {val(failItem)}}}
			m = s.Validate(&d)
		}
		return ""
	}()
	zh.Reset()
	var want, got []string
	if failNote {
		want = append(want, "$root|min")
	}
	if failAddr {
		want = append(want, "addr.|min")
	}
	if failItem {
		want = append(want, "items[1].|min")
	}
	for _, k := range sortedKeys(m) {
		if k != "$first" {
			for _, is := range m[k] {
				got = append(got, k+"|"+is.Code)
			}
		}
	}
	sort.Strings(want)
	sort.Strings(got)
	out := &mc.Outcome{Traces: 1, Nontrivial: len(want) > 0, Sig: fmt.Sprintf("emptytag|%d|%v", mode, want)}
	out.Sample = map[string]any{"mode": mode, "issues": got}
	if pmsg != "" || !eqStrings(want, got) {
		x.Note("destination fields tagged zog:\"\" at top level (note), in a nested record (addr.street) and in records of a list (items[i].street); mode %d (0 Parse from a Go map, 1 Validate)", mode)
		out.Viol = append(out.Viol, &mc.Violation{Key: fmt.Sprintf("C10:empty-zog-tag:%d", mode), What: "issues below a field whose zog tag is explicitly empty are not keyed by the key chain the tag defines", Expected: fmt.Sprint(want), Observed: fmt.Sprintf("panic=%q %v", pmsg, got)})
	}
	return out
}

func sortedKeysS(m map[string][]string) []string {
	var ks []string
	for k := range m {
		ks = append(ks, k)
	}
	sort.Strings(ks)
	return ks
}

// Keys that END in "]" (the list-parameter convention "ids[]", used as a field's name) are ordinary keys: below
// a record or a list item they are joined with '.', and their own items are written [i] after them.
type c10BKInner struct {
	Ids  []int  `zog:"ids[]" query:"ids[]" form:"ids[]"`
	Note string `zog:"note]"`
}

type c10BK struct {
	Ids    []int `zog:"ids[]" query:"ids[]" form:"ids[]"`
	Filter c10BKInner
	Rows   []c10BKInner
}

func c10BracketKeyScenario(x *mc.X) *mc.Outcome {
	zh.Reset()
	zh.Install(x, zh.PoolLIFO, zh.OrderFree)
	mode := x.Choose(3, "mode") // 0 Parse from a Go map, 1 Validate, 2 Parse from a query string
	which := x.Choose(4, "what fails")
	inner := func() *z.StructSchema {
		return z.Struct(z.Schema{"ids": z.Slice(z.Int().GT(0)).Min(1), "note": z.String().Min(3)})
	}
	s := z.Struct(z.Schema{"ids": z.Slice(z.Int().GT(0)).Min(1), "filter": inner(), "rows": z.Slice(inner())})
	good, bad := []any{1, 2}, []any{1, -2}
	pick := func(fail bool) []any {
		if fail {
			return bad
		}
		return good
	}
	var want []string
	switch which {
	case 0:
		want = []string{"ids[][1]|gt"}
	case 1:
		want = []string{"filter.ids[][1]|gt"}
	case 2:
		want = []string{"filter.note]|min"}
	default:
		want = []string{"rows[0].ids[][1]|gt"}
	}
	note := func(fail bool) string {
		if fail {
			return "x"
		}
		return "long enough"
	}
	var m z.ZogIssueMap
	var d c10BK
	pmsg := func() (msg string) {
		defer func() {
			if r := recover(); r != nil {
				msg = firstLine(fmt.Sprint(r))
			}
		}()
		toInts := func(l []any) (o []int) {
			for _, v := range l {
				o = append(o, v.(int))
			}
			return
		}
		switch mode {
		case 0:
			m = s.Parse(map[string]any{"ids[]": pick(which == 0), "filter": map[string]any{"ids[]": pick(which == 1), "note]": note(which == 2)}, "rows": []any{map[string]any{"ids[]": pick(which == 3), "note]": "long enough"}}}, &d)
		case 1:
			d = c10BK{Ids: toInts(pick(which == 0)), Filter: c10BKInner{Ids: toInts(pick(which == 1)), Note: note(which == 2)}, Rows: []c10BKInner{{Ids: toInts(pick(which == 3)), Note: "long enough"}}}
			m = s.Validate(&d)
		default:
			// a flat source: nested records read the same parameters; only the top-level and filter lists are sent
			if which >= 2 {
				return "n/a"
			}
			q := "ids%5B%5D=1&ids%5B%5D=2&note%5D=long+enough"
			if which <= 1 {
				q = "ids%5B%5D=1&ids%5B%5D=-2&note%5D=long+enough"
			}
			var dq struct {
				Ids    []int `query:"ids[]"`
				Filter struct {
					Ids  []int  `query:"ids[]"`
					Note string `query:"note]"`
				}
			}
			m = z.Struct(z.Schema{"ids": z.Slice(z.Int().GT(0)).Min(1), "filter": inner()}).Parse(zhttp.Request(httptest.NewRequest("GET", "/?"+q, nil)), &dq)
			want = []string{"filter.ids[][1]|gt", "ids[][1]|gt"}
		}
		return ""
	}()
	zh.Reset()
	if pmsg == "n/a" {
		return &mc.Outcome{Sig: "n/a"}
	}
	var got []string
	for _, k := range sortedKeys(m) {
		if k != "$first" {
			for _, is := range m[k] {
				got = append(got, k+"|"+is.Code)
				if is.Path != k {
					got = append(got, "(Path field says "+is.Path+")")
				}
			}
		}
	}
	sort.Strings(want)
	out := &mc.Outcome{Traces: 1, Nontrivial: true, Sig: fmt.Sprintf("bracketkey|%d|%d", mode, which)}
	out.Sample = map[string]any{"mode": mode, "failing": which, "issues": got}
	if pmsg != "" || !eqStrings(got, want) {
		x.Note("fields named \"ids[]\" and \"note]\" at top level, in a nested record and in records of a list; mode %d (0 Parse from a Go map, 1 Validate, 2 Parse from a query string); failing node %d", mode, which)
		out.Viol = append(out.Viol, &mc.Violation{Key: fmt.Sprintf("C10:keys-ending-in-bracket:%d", mode), What: "a key that ends in ']' is not joined to its parent with '.' (or its items are not written [i] after it)", Expected: fmt.Sprint(want), Observed: fmt.Sprintf("panic=%q %v", pmsg, got)})
	}
	return out
}

func c10Items(tier string, mk func(tier string, tags map[string]int, focus []string, deep bool, elems int) mc.Scenario) []Item {
	var items []Item
	deep := tier == "thorough"
	fields := recordFields(deep)
	units := skelUnits(recordSkel(FEMap, nil, deep), 2)
	// (A) every tag assignment with ≤2 deviating fields × ≤1 focus unit
	for _, tv := range tagVariants(fields, 2, true) {
		for _, fs := range focusSets(units, 1) {
			items = append(items, Item{Name: fmt.Sprintf("tags{%s}/focus{%s}", tagsString(tv), strings.Join(fs, ",")), MaxDevs: -1, Run: mk(tier, tv, fs, deep, 2)})
		}
	}
	// (B) uniform tag configurations × ≤2 focus units
	for _, cfg := range []int{0, 1, 2, 3, 5, 6, 7, 8} {
		tv := uniformTags(fields, cfg)
		for _, fs := range focusSets(units, 2) {
			if len(fs) < 2 {
				continue
			}
			items = append(items, Item{Name: fmt.Sprintf("uniform%d/focus{%s}", cfg, strings.Join(fs, ",")), MaxDevs: -1, Run: mk(tier, tv, fs, deep, 2)})
		}
	}
	// (D) quick tier: the three-level record (a record inside a record inside the record) under the uniform
	// source-tag assignments × ≤1 focus unit, so that keys below the second level are covered on every change
	if !deep {
		df := recordFields(true)
		deepUnits := skelUnits(recordSkel(FEMap, nil, true), 2)
		for _, cfg := range []int{2, 3, 7} {
			tv := uniformTags(df, cfg)
			for _, fs := range focusSets(deepUnits, 2) {
				if len(fs) == 2 {
					// pairs only along one branch: an inner record (n, n.d) and a node below it, so that a record which is
					// absent, explicitly empty or of the wrong type meets every configuration of what it contains
					a, b := strings.SplitN(fs[0], "#", 2)[0], strings.SplitN(fs[1], "#", 2)[0]
					if len(a) > len(b) {
						a, b = b, a
					}
					if a == "root" || !strings.HasPrefix(b, a+".") {
						continue
					}
				}
				items = append(items, Item{Name: fmt.Sprintf("deep-record/uniform%d/focus{%s}", cfg, strings.Join(fs, ",")), MaxDevs: -1, Run: mk(tier, tv, fs, true, 2)})
			}
		}
	}
	// (C) the record variant with optional parts behind pointers (Ptr(Struct), Ptr(Int) next to a direct record),
	// uniform tag configurations × ≤2 focus units
	pf := recordFieldsPtr()
	ptrUnits := skelUnits(recordSkel(FEMap, map[string]int{shapeKey: 1}, false), 2)
	for _, cfg := range []int{0, 1, 2, 3, 7} {
		tv := uniformTags(pf, cfg)
		tv[shapeKey] = 1
		for _, fs := range focusSets(ptrUnits, 2) {
			items = append(items, Item{Name: fmt.Sprintf("ptr-record/uniform%d/focus{%s}", cfg, strings.Join(fs, ",")), MaxDevs: -1, Run: mk(tier, tv, fs, false, 2)})
		}
	}
	return items
}

func init() {
	Register(&Prop{
		ID:    "C10",
		Rule:  "one execution = one record case: record schema Struct{s,i,l:[]string,n:Struct{s2,b2[,d:Struct{s3,i3}]}} × struct-tag assignment (per field none | zog | source | both | source with [] suffix | foreign tags whose key ends in the source tag name | zog tag containing a comma | (uniform only) renamed to a sibling's schema key; ≤2 fields deviating × ≤1 focus unit, and the seven uniform assignments × ≤2 focus units) × front end {Go map, zjson, zhttp JSON, zhttp JSON of unknown length, form, query, env} (+Validate for Go values) × focus units over Required × tests × input classes × identity and reversed field visit order at every struct visit (both relative orders of any two fields); oracle: issue keys/paths == documented key chain, map invariants, $first == first recorded issue, sanitizers; plus IssuePath overrides at root/field/required/element tests and at depth (nested record, behind a pointer, record that is a list item), and IssuePath on a passing test next to PostTransform errors / required issues of the same node, a sibling, the record, or a later call; non-trivial = every expressible case; distinct = distinct (front end, mode, tags, expected issues). plus, for sequences whose first call parses the record through a front end (its result kept, or handed back through Collect* / Sanitize*AndCollect), " + callsRule,
		Floor: 50,
		Bound: func(tier string) string {
			if tier == "thorough" {
				return "nesting depth 3 record, ≤2 tag deviations × ≤1 focus unit + 4 uniform tag assignments × ≤2 focus units, 6 front ends, all visit orders"
			}
			return "nesting depth 2 record, ≤2 tag deviations × ≤1 focus unit + 4 uniform tag assignments × ≤2 focus units, 6 front ends, all visit orders"
		},
		Assumptions: []string{
			"documented key rule: source tag → zog tag → schema key at every depth (Validate: zog tag → schema key); flat sources resolve nested fields against the same source",
			"known finding D18 is matched by model: the as-is reference model with the quirk switches nested-tag / nested-flat must predict the result exactly, otherwise the case is a new violation",
		},
		Items: func(tier string) []Item {
			items := c10Items(tier, c10Scenario)
			items = append(items, Item{Name: "issuepath", MaxDevs: -1, Run: c10IssuePathScenario})
			items = append(items, Item{Name: "sanitize-composed-maps", MaxDevs: -1, Run: c10SanitizeComposedScenario})
			items = append(items, Item{Name: "empty-zog-tags", MaxDevs: -1, Run: c10EmptyTagScenario})
			items = append(items, Item{Name: "keys-ending-in-a-bracket", MaxDevs: -1, Run: c10BracketKeyScenario})
			items = append(items, Item{Name: "path-rewriting-formatters", MaxDevs: -1, Run: c10PathFormatterScenario})
			// keys must not depend on what earlier calls read: sequences that start with a record parsed through any front end
			items = append(items, callsItemsOpt(tier, "C10", func(class string) bool { return strings.HasPrefix(class, "record") }, true, "depends-on-history", "nested-call-differs", "earlier-result-changed")...)
			return items
		},
	})
}
