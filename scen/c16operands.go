package scen

// C16 (continued): the variadic operands of Merge / Pick / Omit handed over as a caller-owned list with spare
// capacity (`a.Merge(b, mixins...)`, `base.Pick(keys...)`). The list is the caller's: it must read the same
// after the call (including the slots behind its length), and a second derivation from the same list must
// behave like one from a freshly written list.

import (
	"fmt"

	z "github.com/Oudwins/zog"
	"zogverif/mc"
	"zogverif/zh"
)

func c16OperandListScenario(x *mc.X) *mc.Outcome {
	zh.Reset()
	zh.Install(x, zh.PoolLIFO, zh.OrderSorted)
	op := x.Choose(3, "operation")       // 0 Merge, 1 Pick, 2 Omit
	spare := x.Choose(4, "spare capacity") // 0..3 free slots behind the operands
	n := 1 + x.Choose(2, "operands")      // one or two operands in the list
	type dest struct {
		A, C, D string
		B       int
	}
	inputs := []map[string]any{
		{"a": "abcd", "b": 9, "c": "x", "d": "dd"},
		{"a": "ab", "b": 1},
		{"a": "a", "b": 9, "c": "", "d": "d"},
		{},
	}
	behave := func(s *z.StructSchema) []string {
		var out []string
		for _, in := range inputs {
			var d dest
			m := s.Parse(in, &d)
			out = append(out, fmt.Sprintf("%+v %v", d, obsFromMap(m).IssueStrings()))
		}
		return out
	}
	mkA := func() *z.StructSchema { return z.Struct(z.Schema{"a": z.String().Min(3)}) }
	mkB := func() *z.StructSchema { return z.Struct(z.Schema{"b": z.Int().GT(5)}) }
	mkM := func() []*z.StructSchema {
		return []*z.StructSchema{z.Struct(z.Schema{"c": z.String().Required()}), z.Struct(z.Schema{"a": z.String().Max(2), "d": z.String().Min(2)})}[:n]
	}
	base := func() *z.StructSchema {
		return z.Struct(z.Schema{"a": z.String().Min(3), "b": z.Int().GT(5), "c": z.String().Required(), "d": z.String().Min(2)})
	}
	allKeys := []any{"a", "c", "d"}
	var got, want [][]string
	var listBad string
	switch op {
	case 0:
		ms := mkM()
		list := make([]*z.StructSchema, 0, n+spare)
		list = append(list, ms...)
		a, b := mkA(), mkB()
		got = append(got, behave(a.Merge(b, list...)), behave(b.Merge(a, list...)), behave(a.Merge(b, list...)))
		full := list[:cap(list)]
		for i := range full {
			if i < n && full[i] != ms[i] {
				listBad = fmt.Sprintf("operand %d of the caller's list was replaced", i)
			}
			if i >= n && full[i] != nil {
				listBad = fmt.Sprintf("slot %d behind the caller's list was written", i)
			}
		}
		fa, fb := mkA(), mkB()
		want = append(want, behave(fa.Merge(fb, mkM()...)), behave(fb.Merge(fa, mkM()...)), behave(fa.Merge(fb, mkM()...)))
	default:
		list := make([]any, 0, n+spare)
		list = append(list, allKeys[:n]...)
		derive := func(s *z.StructSchema, l []any) *z.StructSchema {
			if op == 1 {
				return s.Pick(l...)
			}
			return s.Omit(l...)
		}
		b := base()
		got = append(got, behave(derive(b, list)), behave(derive(b, list)))
		full := list[:cap(list)]
		for i := range full {
			if i < n && full[i] != allKeys[i] {
				listBad = fmt.Sprintf("key %d of the caller's list was replaced by %v", i, full[i])
			}
			if i >= n && full[i] != nil {
				listBad = fmt.Sprintf("slot %d behind the caller's list was written", i)
			}
		}
		fb := base()
		want = append(want, behave(derive(fb, append([]any{}, allKeys[:n]...))), behave(derive(fb, append([]any{}, allKeys[:n]...))))
	}
	zh.Reset()
	out := &mc.Outcome{Traces: len(got) + len(want), Nontrivial: true, Sig: fmt.Sprintf("operands|%d|%d|%d|%v", op, spare, n, want[0])}
	out.Sample = map[string]any{"operation": op, "spare": spare, "operands": n, "behaviour": want[0]}
	name := []string{"Merge", "Pick", "Omit"}[op]
	if listBad != "" {
		x.Note("%s given %d operand(s) spread from a caller-owned list with %d spare slots", name, n, spare)
		out.Viol = append(out.Viol, &mc.Violation{Key: "C16:operand-list-modified:" + name, What: "a deriving call wrote into the caller's operand list", Expected: "list unchanged", Observed: listBad})
	}
	for i := range got {
		if !eqStrings(got[i], want[i]) {
			x.Note("%s given %d operand(s) spread from a caller-owned list with %d spare slots; derivation %d from that list", name, n, spare, i)
			out.Viol = append(out.Viol, &mc.Violation{Key: fmt.Sprintf("C16:operand-list:%s:%d", name, i), What: "a schema derived from a caller-owned operand list does not behave like one derived from freshly written operands", Expected: fmt.Sprint(want[i]), Observed: fmt.Sprint(got[i])})
			break
		}
	}
	return out
}

// Names handed to Pick / Omit that are not keys of the base (another letter case of a key, a key with a blank,
// an unrelated name, the empty name) select nothing: the derived schema is the one derived without them.
func c16ForeignNamesScenario(x *mc.X) *mc.Outcome {
	zh.Reset()
	zh.Install(x, zh.PoolLIFO, zh.OrderSorted)
	// Omit only: Pick of a name that is not a key stores a nil entry under that name and the derived schema panics
	// when used — the statement does not say what the selection is for such a name (treated as misconfiguration,
	// see DESIGN A.4), so only Omit, whose documented selection is unambiguous, is checked
	op := 1 + x.Choose(1, "operation") // 1 Omit
	form := x.Choose(2, "form")        // 0 names, 1 map[string]bool
	foreign := []string{"A", "B", "Name", "a ", " a", "zzz", "", "AB", "aB"}[x.Choose(9, "foreign name")]
	withKey := x.Bool("together with the key b")
	type dest struct {
		A, AB, Name string
		B           int
	}
	base := func() *z.StructSchema {
		return z.Struct(z.Schema{"a": z.String().Min(3), "b": z.Int().GT(5), "name": z.String().Required(), "aB": z.String().Min(2)})
	}
	if foreign == "aB" {
		foreign = "ab" // "aB" is a key; its all-lower-case spelling is not
	}
	derive := func(names []string) *z.StructSchema {
		b := base()
		var args []any
		if form == 0 {
			for _, n := range names {
				args = append(args, n)
			}
		} else {
			m := map[string]bool{}
			for _, n := range names {
				m[n] = true
			}
			args = append(args, m)
		}
		if op == 0 {
			return b.Pick(args...)
		}
		return b.Omit(args...)
	}
	inputs := []map[string]any{
		{"a": "abcd", "b": 9, "name": "n", "aB": "xy"},
		{"a": "ab", "b": 1, "aB": "x"},
		{},
	}
	behave := func(s *z.StructSchema) (out []string) {
		defer func() {
			if r := recover(); r != nil {
				out = append(out, "PANIC "+firstLine(fmt.Sprint(r)))
			}
		}()
		for _, in := range inputs {
			var d dest
			m := s.Parse(in, &d)
			out = append(out, fmt.Sprintf("%+v %v", d, obsFromMap(m).IssueStrings()))
		}
		return out
	}
	var with, without []string
	if withKey {
		with, without = []string{foreign, "b"}, []string{"b"}
	} else {
		with, without = []string{foreign}, nil
	}
	got, want := behave(derive(with)), behave(derive(without))
	zh.Reset()
	name := []string{"Pick", "Omit"}[op]
	out := &mc.Outcome{Traces: 2, Nontrivial: true, Sig: fmt.Sprintf("foreign|%d|%d|%q|%v", op, form, foreign, withKey)}
	out.Sample = map[string]any{"operation": name, "form": form, "foreign_name": foreign, "with_key_b": withKey, "behaviour": want}
	if !eqStrings(got, want) {
		x.Note("base Struct{a, b, name, aB}; %s(%q%s) given as %s", name, foreign, map[bool]string{true: `, "b"`, false: ""}[withKey], []string{"names", "map[string]bool"}[form])
		out.Viol = append(out.Viol, &mc.Violation{Key: "C16:foreign-name:" + name, What: "a name that is not a key of the base changed what " + name + " selects", Expected: fmt.Sprint(want), Observed: fmt.Sprint(got)})
	}
	return out
}
