package scen

// C17 (continued): one z.Ptr(...) schema object used at several placements whose destination pointers have
// different Go pointee types (a plain and a named list type, two record types with the same fields): every
// placement behaves as if it had a schema of its own, whatever was parsed or validated through the object before.

import (
	"fmt"

	z "github.com/Oudwins/zog"
	"zogverif/mc"
	"zogverif/zh"
)

type c17PA struct {
	S string
	N int
}
type c17PB struct {
	N int
	S string
	X string
}
type c17PTags []string

func c17SharedPtrScenario(x *mc.X) *mc.Outcome {
	zh.Reset()
	zh.Install(x, zh.PoolLIFO, zh.OrderSorted)
	kind := x.Choose(2, "pointee") // 0 record, 1 list
	n := 2 + x.Choose(2, "uses")
	seq := make([]int, n)
	for i := range seq {
		seq[i] = x.Choose(4, "use") // destination type (0/1) × input {present, absent}
	}
	mk := func() z.ZogSchema {
		if kind == 0 {
			return z.Ptr(z.Struct(z.Schema{"s": z.String().Min(2), "n": z.Int().GT(1)}))
		}
		return z.Ptr(z.Slice(z.String().Min(2)).Min(1))
	}
	use := func(s z.ZogSchema, u int) (out string) {
		defer func() {
			if r := recover(); r != nil {
				out = "PANIC " + firstLine(fmt.Sprint(r))
			}
		}()
		typ, absent := u%2, u/2 == 1
		var in any
		if !absent {
			if kind == 0 {
				in = map[string]any{"s": "a", "n": 5}
			} else {
				in = []any{"ab", "c"}
			}
		}
		p := s.(*z.PointerSchema)
		switch {
		case kind == 0 && typ == 0:
			var d *c17PA
			l := p.Parse(in, &d)
			return fmt.Sprintf("%v %v", obsFromMap(l).IssueStrings(), c17Show(d))
		case kind == 0:
			var d *c17PB
			l := p.Parse(in, &d)
			return fmt.Sprintf("%v %v", obsFromMap(l).IssueStrings(), c17Show(d))
		case typ == 0:
			var d *[]string
			l := p.Parse(in, &d)
			return fmt.Sprintf("%v %v", obsFromMap(l).IssueStrings(), c17Show(d))
		default:
			var d *c17PTags
			l := p.Parse(in, &d)
			return fmt.Sprintf("%v %v", obsFromMap(l).IssueStrings(), c17Show(d))
		}
	}
	shared := mk()
	var got, want []string
	for _, u := range seq {
		got = append(got, use(shared, u))
		want = append(want, use(mk(), u))
	}
	zh.Reset()
	out := &mc.Outcome{Traces: 2 * n, Nontrivial: true, Sig: fmt.Sprintf("sharedptr|%d|%v", kind, seq)}
	out.Sample = map[string]any{"pointee": []string{"record", "list"}[kind], "uses": seq, "results": want}
	if !eqStrings(got, want) {
		x.Note("one Ptr(%s) schema object; uses (destination type 0/1 + 2 if the input is absent): %v", []string{"Struct{s, n}", "Slice(String)"}[kind], seq)
		out.Viol = append(out.Viol, &mc.Violation{Key: "C17:shared-ptr-object:" + []string{"record", "list"}[kind], What: "a pointer schema object used for destinations of different Go types does not behave like an independent schema at each use", Expected: fmt.Sprint(want), Observed: fmt.Sprint(got)})
	}
	return out
}

func c17Show(p any) string {
	switch v := p.(type) {
	case *c17PA:
		if v == nil {
			return "<nil>"
		}
		return fmt.Sprintf("%+v", *v)
	case *c17PB:
		if v == nil {
			return "<nil>"
		}
		return fmt.Sprintf("%+v", *v)
	case *[]string:
		if v == nil {
			return "<nil>"
		}
		return fmt.Sprintf("%q", *v)
	case *c17PTags:
		if v == nil {
			return "<nil>"
		}
		return fmt.Sprintf("%q", []string(*v))
	}
	return "?"
}

