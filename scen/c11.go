package scen

// C11 — every issue is fully described and its message is chosen
// most-specific-first. The finite catalogue (every built-in test of every
// schema type, required / not_nil / coerce, front-end decode issues, Custom)
// × placement × mode × test-level {none, Message, MessageFunc} ×
// execution-level {none, WithIssueFormatter} × global formatter {default,
// i18n × default language × context language × lang key} is enumerated
// completely.

import (
	"sort"
	"fmt"
	"net/http"
	"net/http/httptest"
	"reflect"
	"regexp"
	"strings"
	"time"

	z "github.com/Oudwins/zog"
	"github.com/Oudwins/zog/conf"
	"github.com/Oudwins/zog/i18n"
	"github.com/Oudwins/zog/i18n/en"
	"github.com/Oudwins/zog/i18n/es"
	"github.com/Oudwins/zog/parsers/zjson"
	"github.com/Oudwins/zog/zconst"
	"github.com/Oudwins/zog/zhttp"
	"zogverif/mc"
	"zogverif/zh"
)

type c11Entry struct {
	name    string
	mk      func(opts ...z.TestOption) z.ZogSchema
	dest    reflect.Type
	input   any // failing input (Parse)
	value   any // failing value (Validate); nil: Validate not applicable
	dtype   string
	code    string // "" = not asserted beyond non-empty
	pkey    string // expected parameter key ("" = none)
	pval    any
	noOpts  bool // the builder accepts no test options
	isAbsentIssue bool // required / not_nil: Value is not asserted
	coerce  bool
}

func c11Catalogue() []c11Entry {
	var es []c11Entry
	str := reflect.TypeOf("")
	add := func(e c11Entry) { es = append(es, e) }
	S := func(f func(s *z.StringSchema[string], o ...z.TestOption) *z.StringSchema[string]) func(opts ...z.TestOption) z.ZogSchema {
		return func(opts ...z.TestOption) z.ZogSchema { return f(z.String(), opts...) }
	}
	NS := func(f func(s z.NotStringSchema[string], o ...z.TestOption) *z.StringSchema[string]) func(opts ...z.TestOption) z.ZogSchema {
		return func(opts ...z.TestOption) z.ZogSchema { return f(z.String().Not(), opts...) }
	}
	rx := regexp.MustCompile("^[a-z]+$")
	uuid := "01234567-89ab-cdef-0123-456789abcdef"
	// string tests
	add(c11Entry{name: "String.Min", mk: S(func(s *z.StringSchema[string], o ...z.TestOption) *z.StringSchema[string] { return s.Min(5, o...) }), dest: str, input: "ab", value: "ab", dtype: "string", code: "min", pkey: "min", pval: 5})
	add(c11Entry{name: "String.Max", mk: S(func(s *z.StringSchema[string], o ...z.TestOption) *z.StringSchema[string] { return s.Max(1, o...) }), dest: str, input: "ab", value: "ab", dtype: "string", code: "max", pkey: "max", pval: 1})
	add(c11Entry{name: "String.Len", mk: S(func(s *z.StringSchema[string], o ...z.TestOption) *z.StringSchema[string] { return s.Len(5, o...) }), dest: str, input: "ab", value: "ab", dtype: "string", code: "len", pkey: "len", pval: 5})
	add(c11Entry{name: "String.Email", mk: S(func(s *z.StringSchema[string], o ...z.TestOption) *z.StringSchema[string] { return s.Email(o...) }), dest: str, input: "ab", value: "ab", dtype: "string", code: "email"})
	add(c11Entry{name: "String.URL", mk: S(func(s *z.StringSchema[string], o ...z.TestOption) *z.StringSchema[string] { return s.URL(o...) }), dest: str, input: "ab", value: "ab", dtype: "string", code: "url"})
	add(c11Entry{name: "String.UUID", mk: S(func(s *z.StringSchema[string], o ...z.TestOption) *z.StringSchema[string] { return s.UUID(o...) }), dest: str, input: "ab", value: "ab", dtype: "string", code: "uuid"})
	add(c11Entry{name: "String.Match", mk: S(func(s *z.StringSchema[string], o ...z.TestOption) *z.StringSchema[string] { return s.Match(rx, o...) }), dest: str, input: "AB", value: "AB", dtype: "string", code: "match", pkey: "match", pval: "^[a-z]+$"})
	add(c11Entry{name: "String.HasPrefix", mk: S(func(s *z.StringSchema[string], o ...z.TestOption) *z.StringSchema[string] { return s.HasPrefix("x", o...) }), dest: str, input: "ab", value: "ab", dtype: "string", code: "prefix", pkey: "prefix", pval: "x"})
	add(c11Entry{name: "String.HasSuffix", mk: S(func(s *z.StringSchema[string], o ...z.TestOption) *z.StringSchema[string] { return s.HasSuffix("x", o...) }), dest: str, input: "ab", value: "ab", dtype: "string", code: "suffix", pkey: "suffix", pval: "x"})
	add(c11Entry{name: "String.Contains", mk: S(func(s *z.StringSchema[string], o ...z.TestOption) *z.StringSchema[string] { return s.Contains("x", o...) }), dest: str, input: "ab", value: "ab", dtype: "string", code: "contained", pkey: "contained", pval: "x"})
	add(c11Entry{name: "String.ContainsUpper", mk: S(func(s *z.StringSchema[string], o ...z.TestOption) *z.StringSchema[string] { return s.ContainsUpper(o...) }), dest: str, input: "ab", value: "ab", dtype: "string", code: "contains_upper"})
	add(c11Entry{name: "String.ContainsDigit", mk: S(func(s *z.StringSchema[string], o ...z.TestOption) *z.StringSchema[string] { return s.ContainsDigit(o...) }), dest: str, input: "ab", value: "ab", dtype: "string", code: "contains_digit"})
	add(c11Entry{name: "String.ContainsSpecial", mk: S(func(s *z.StringSchema[string], o ...z.TestOption) *z.StringSchema[string] { return s.ContainsSpecial(o...) }), dest: str, input: "ab", value: "ab", dtype: "string", code: "contains_special"})
	add(c11Entry{name: "String.OneOf", mk: S(func(s *z.StringSchema[string], o ...z.TestOption) *z.StringSchema[string] { return s.OneOf([]string{"x", "y"}, o...) }), dest: str, input: "ab", value: "ab", dtype: "string", code: "one_of_options", pkey: "one_of_options", pval: []string{"x", "y"}})
	// Not() forms
	add(c11Entry{name: "String.Not.Len", mk: NS(func(s z.NotStringSchema[string], o ...z.TestOption) *z.StringSchema[string] { return s.Len(2, o...) }), dest: str, input: "ab", value: "ab", dtype: "string", code: "not_len", pkey: "len", pval: 2})
	add(c11Entry{name: "String.Not.Email", mk: NS(func(s z.NotStringSchema[string], o ...z.TestOption) *z.StringSchema[string] { return s.Email(o...) }), dest: str, input: "a@b.c", value: "a@b.c", dtype: "string", code: "not_email"})
	add(c11Entry{name: "String.Not.URL", mk: NS(func(s z.NotStringSchema[string], o ...z.TestOption) *z.StringSchema[string] { return s.URL(o...) }), dest: str, input: "http://a.b", value: "http://a.b", dtype: "string", code: "not_url"})
	add(c11Entry{name: "String.Not.UUID", mk: NS(func(s z.NotStringSchema[string], o ...z.TestOption) *z.StringSchema[string] { return s.UUID(o...) }), dest: str, input: uuid, value: uuid, dtype: "string", code: "not_uuid"})
	add(c11Entry{name: "String.Not.Match", mk: NS(func(s z.NotStringSchema[string], o ...z.TestOption) *z.StringSchema[string] { return s.Match(rx, o...) }), dest: str, input: "ab", value: "ab", dtype: "string", code: "not_match", pkey: "match", pval: "^[a-z]+$"})
	add(c11Entry{name: "String.Not.HasPrefix", mk: NS(func(s z.NotStringSchema[string], o ...z.TestOption) *z.StringSchema[string] { return s.HasPrefix("a", o...) }), dest: str, input: "ab", value: "ab", dtype: "string", code: "not_prefix", pkey: "prefix", pval: "a"})
	add(c11Entry{name: "String.Not.HasSuffix", mk: NS(func(s z.NotStringSchema[string], o ...z.TestOption) *z.StringSchema[string] { return s.HasSuffix("b", o...) }), dest: str, input: "ab", value: "ab", dtype: "string", code: "not_suffix", pkey: "suffix", pval: "b"})
	add(c11Entry{name: "String.Not.Contains", mk: NS(func(s z.NotStringSchema[string], o ...z.TestOption) *z.StringSchema[string] { return s.Contains("a", o...) }), dest: str, input: "ab", value: "ab", dtype: "string", code: "not_contained", pkey: "contained", pval: "a"})
	add(c11Entry{name: "String.Not.ContainsUpper", mk: NS(func(s z.NotStringSchema[string], o ...z.TestOption) *z.StringSchema[string] { return s.ContainsUpper(o...) }), dest: str, input: "aB", value: "aB", dtype: "string", code: "not_contains_upper"})
	add(c11Entry{name: "String.Not.ContainsDigit", mk: NS(func(s z.NotStringSchema[string], o ...z.TestOption) *z.StringSchema[string] { return s.ContainsDigit(o...) }), dest: str, input: "a1", value: "a1", dtype: "string", code: "not_contains_digit"})
	add(c11Entry{name: "String.Not.ContainsSpecial", mk: NS(func(s z.NotStringSchema[string], o ...z.TestOption) *z.StringSchema[string] { return s.ContainsSpecial(o...) }), dest: str, input: "a!", value: "a!", dtype: "string", code: "not_contains_special"})
	add(c11Entry{name: "String.Not.OneOf", mk: NS(func(s z.NotStringSchema[string], o ...z.TestOption) *z.StringSchema[string] { return s.OneOf([]string{"ab"}, o...) }), dest: str, input: "ab", value: "ab", dtype: "string", code: "not_one_of_options", pkey: "one_of_options", pval: []string{"ab"}})
	add(c11Entry{name: "String.Required", mk: func(o ...z.TestOption) z.ZogSchema { return z.String().Required(o...) }, dest: str, input: "", value: "", dtype: "string", code: "required", isAbsentIssue: true})
	// numbers
	it, ft := reflect.TypeOf(0), reflect.TypeOf(0.0)
	add(c11Entry{name: "Int.EQ", mk: func(o ...z.TestOption) z.ZogSchema { return z.Int().EQ(5, o...) }, dest: it, input: 7, value: 7, dtype: "number", code: "eq", pkey: "eq", pval: 5})
	add(c11Entry{name: "Int.LT", mk: func(o ...z.TestOption) z.ZogSchema { return z.Int().LT(5, o...) }, dest: it, input: 7, value: 7, dtype: "number", code: "lt", pkey: "lt", pval: 5})
	add(c11Entry{name: "Int.LTE", mk: func(o ...z.TestOption) z.ZogSchema { return z.Int().LTE(5, o...) }, dest: it, input: 7, value: 7, dtype: "number", code: "lte", pkey: "lte", pval: 5})
	add(c11Entry{name: "Int.GT", mk: func(o ...z.TestOption) z.ZogSchema { return z.Int().GT(9, o...) }, dest: it, input: 7, value: 7, dtype: "number", code: "gt", pkey: "gt", pval: 9})
	add(c11Entry{name: "Int.GTE", mk: func(o ...z.TestOption) z.ZogSchema { return z.Int().GTE(9, o...) }, dest: it, input: 7, value: 7, dtype: "number", code: "gte", pkey: "gte", pval: 9})
	add(c11Entry{name: "Int.OneOf", mk: func(o ...z.TestOption) z.ZogSchema { return z.Int().OneOf([]int{1, 2}, o...) }, dest: it, input: 7, value: 7, dtype: "number", code: "one_of_options", pkey: "one_of_options", pval: []int{1, 2}})
	add(c11Entry{name: "Float.EQ", mk: func(o ...z.TestOption) z.ZogSchema { return z.Float64().EQ(5.5, o...) }, dest: ft, input: 7.5, value: 7.5, dtype: "number", code: "eq", pkey: "eq", pval: 5.5})
	add(c11Entry{name: "Float.LT", mk: func(o ...z.TestOption) z.ZogSchema { return z.Float64().LT(5.5, o...) }, dest: ft, input: 7.5, value: 7.5, dtype: "number", code: "lt", pkey: "lt", pval: 5.5})
	add(c11Entry{name: "Float.GTE", mk: func(o ...z.TestOption) z.ZogSchema { return z.Float64().GTE(9.5, o...) }, dest: ft, input: 7.5, value: 7.5, dtype: "number", code: "gte", pkey: "gte", pval: 9.5})
	add(c11Entry{name: "Int.OneOf(single option)", mk: func(o ...z.TestOption) z.ZogSchema { return z.Int().OneOf([]int{10}, o...) }, dest: it, input: 7, value: 7, dtype: "number", code: "one_of_options", pkey: "one_of_options", pval: []int{10}})
	add(c11Entry{name: "Int.OneOf(no option)", mk: func(o ...z.TestOption) z.ZogSchema { return z.Int().OneOf([]int{}, o...) }, dest: it, input: 7, value: 7, dtype: "number", code: "one_of_options", pkey: "one_of_options", pval: []int{}})
	add(c11Entry{name: "String.OneOf(single option)", mk: S(func(s *z.StringSchema[string], o ...z.TestOption) *z.StringSchema[string] { return s.OneOf([]string{"x"}, o...) }), dest: str, input: "ab", value: "ab", dtype: "string", code: "one_of_options", pkey: "one_of_options", pval: []string{"x"}})
	add(c11Entry{name: "Float.OneOf", mk: func(o ...z.TestOption) z.ZogSchema { return z.Float64().OneOf([]float64{1.5}, o...) }, dest: ft, input: 7.5, value: 7.5, dtype: "number", code: "one_of_options", pkey: "one_of_options", pval: []float64{1.5}})
	add(c11Entry{name: "Int.Required", mk: func(o ...z.TestOption) z.ZogSchema { return z.Int().Required(o...) }, dest: it, input: nil, value: 0, dtype: "number", code: "required", isAbsentIssue: true})
	add(c11Entry{name: "Int.coerce", mk: func(o ...z.TestOption) z.ZogSchema { return z.Int() }, dest: it, input: "abc", dtype: "number", code: "coerce", noOpts: true, coerce: true})
	add(c11Entry{name: "Float.coerce", mk: func(o ...z.TestOption) z.ZogSchema { return z.Float64() }, dest: ft, input: "abc", dtype: "number", code: "coerce", noOpts: true, coerce: true})
	// bool
	bt := reflect.TypeOf(false)
	add(c11Entry{name: "Bool.True", mk: func(o ...z.TestOption) z.ZogSchema { return z.Bool().True() }, dest: bt, input: false, dtype: "bool", noOpts: true, pkey: "eq", pval: true})
	add(c11Entry{name: "Bool.False", mk: func(o ...z.TestOption) z.ZogSchema { return z.Bool().False() }, dest: bt, input: true, value: true, dtype: "bool", noOpts: true, pkey: "eq", pval: false})
	add(c11Entry{name: "Bool.EQ", mk: func(o ...z.TestOption) z.ZogSchema { return z.Bool().EQ(false) }, dest: bt, input: true, value: true, dtype: "bool", code: "eq", noOpts: true, pkey: "eq", pval: false})
	add(c11Entry{name: "Bool.Required", mk: func(o ...z.TestOption) z.ZogSchema { return z.Bool().Required(o...) }, dest: bt, input: nil, value: false, dtype: "bool", code: "required", isAbsentIssue: true})
	add(c11Entry{name: "Bool.coerce", mk: func(o ...z.TestOption) z.ZogSchema { return z.Bool() }, dest: bt, input: "abc", dtype: "bool", code: "coerce", noOpts: true, coerce: true})
	// time
	tt := reflect.TypeOf(time.Time{})
	t0 := time.Date(2024, 1, 1, 0, 0, 0, 0, time.UTC)
	add(c11Entry{name: "Time.After", mk: func(o ...z.TestOption) z.ZogSchema { return z.Time().After(t0, o...) }, dest: tt, input: t0.Add(-time.Hour), value: t0.Add(-time.Hour), dtype: "time", code: "after", pkey: "after", pval: t0})
	add(c11Entry{name: "Time.Before", mk: func(o ...z.TestOption) z.ZogSchema { return z.Time().Before(t0, o...) }, dest: tt, input: t0.Add(time.Hour), value: t0.Add(time.Hour), dtype: "time", code: "before", pkey: "before", pval: t0})
	add(c11Entry{name: "Time.EQ", mk: func(o ...z.TestOption) z.ZogSchema { return z.Time().EQ(t0, o...) }, dest: tt, input: t0.Add(time.Hour), value: t0.Add(time.Hour), dtype: "time", code: "eq", pkey: "eq", pval: t0})
	add(c11Entry{name: "Time.Required", mk: func(o ...z.TestOption) z.ZogSchema { return z.Time().Required(o...) }, dest: tt, input: nil, value: time.Time{}, dtype: "time", code: "required", isAbsentIssue: true})
	add(c11Entry{name: "Time.coerce", mk: func(o ...z.TestOption) z.ZogSchema { return z.Time() }, dest: tt, input: "abc", dtype: "time", code: "coerce", noOpts: true, coerce: true})
	// slices
	st := reflect.TypeOf([]string{})
	add(c11Entry{name: "Slice.Min", mk: func(o ...z.TestOption) z.ZogSchema { return z.Slice(z.String()).Min(3, o...) }, dest: st, input: []any{"a"}, value: []string{"a"}, dtype: "slice", code: "min", pkey: "min", pval: 3})
	add(c11Entry{name: "Slice.Max", mk: func(o ...z.TestOption) z.ZogSchema { return z.Slice(z.String()).Max(0, o...) }, dest: st, input: []any{"a"}, value: []string{"a"}, dtype: "slice", code: "max", pkey: "max", pval: 0})
	add(c11Entry{name: "Slice.Len", mk: func(o ...z.TestOption) z.ZogSchema { return z.Slice(z.String()).Len(3, o...) }, dest: st, input: []any{"a"}, value: []string{"a"}, dtype: "slice", code: "len", pkey: "len", pval: 3})
	add(c11Entry{name: "Slice.Contains", mk: func(o ...z.TestOption) z.ZogSchema { return z.Slice(z.String()).Contains("x", o...) }, dest: st, input: []any{"a"}, value: []string{"a"}, dtype: "slice", code: "contained", pkey: "contained", pval: "x"})
	add(c11Entry{name: "Slice.Required", mk: func(o ...z.TestOption) z.ZogSchema { return z.Slice(z.String()).Required(o...) }, dest: st, input: nil, value: []string(nil), dtype: "slice", code: "required", isAbsentIssue: true})
	// pointers: not_nil reports the element's type
	add(c11Entry{name: "Ptr(String).NotNil", mk: func(o ...z.TestOption) z.ZogSchema { return z.Ptr(z.String()).NotNil(o...) }, dest: reflect.PointerTo(str), input: nil, value: (*string)(nil), dtype: "string", code: "not_nil", isAbsentIssue: true})
	add(c11Entry{name: "Ptr(Int).NotNil", mk: func(o ...z.TestOption) z.ZogSchema { return z.Ptr(z.Int()).NotNil(o...) }, dest: reflect.PointerTo(it), input: nil, value: (*int)(nil), dtype: "number", code: "not_nil", isAbsentIssue: true})
	add(c11Entry{name: "Ptr(Bool).NotNil", mk: func(o ...z.TestOption) z.ZogSchema { return z.Ptr(z.Bool()).NotNil(o...) }, dest: reflect.PointerTo(bt), input: nil, value: (*bool)(nil), dtype: "bool", code: "not_nil", isAbsentIssue: true})
	add(c11Entry{name: "Ptr(Time).NotNil", mk: func(o ...z.TestOption) z.ZogSchema { return z.Ptr(z.Time()).NotNil(o...) }, dest: reflect.PointerTo(tt), input: nil, value: (*time.Time)(nil), dtype: "time", code: "not_nil", isAbsentIssue: true})
	add(c11Entry{name: "Ptr(Slice).NotNil", mk: func(o ...z.TestOption) z.ZogSchema { return z.Ptr(z.Slice(z.String())).NotNil(o...) }, dest: reflect.PointerTo(st), input: nil, value: (*[]string)(nil), dtype: "slice", code: "not_nil", isAbsentIssue: true})
	sst := reflect.TypeOf(struct{ A string }{})
	add(c11Entry{name: "Ptr(Struct).NotNil", mk: func(o ...z.TestOption) z.ZogSchema { return z.Ptr(z.Struct(z.Schema{"a": z.String()})).NotNil(o...) }, dest: reflect.PointerTo(sst), input: nil, value: (*struct{ A string })(nil), dtype: "struct", code: "not_nil", isAbsentIssue: true})
	add(c11Entry{name: "Struct.coerce", mk: func(o ...z.TestOption) z.ZogSchema { return z.Struct(z.Schema{"a": z.String()}) }, dest: sst, input: "notamap", dtype: "struct", code: "coerce", noOpts: true, coerce: true})
	return es
}

func renderTemplate(tpl string, params map[string]any) string {
	for k, v := range params {
		tpl = strings.ReplaceAll(tpl, "{{"+k+"}}", fmt.Sprintf("%v", v))
	}
	return tpl
}

var c11Partial zconst.LangMap

// c11PartialLang: a user-supplied language that translates every second code of every type and has its own fallback text.
func c11PartialLang() zconst.LangMap {
	if c11Partial == nil {
		c11Partial = zconst.LangMap{}
		for dt, codes := range es.Map {
			c11Partial[dt] = map[zconst.ZogIssueCode]string{}
			var keys []string
			for c := range codes {
				keys = append(keys, string(c))
			}
			sort.Strings(keys)
			for i, c := range keys {
				if i%2 == 0 && c != "fallback" {
					c11Partial[dt][zconst.ZogIssueCode(c)] = "xx: " + codes[zconst.ZogIssueCode(c)]
				}
			}
			c11Partial[dt]["fallback"] = "xx: no translation for this " + string(dt) + " rule"
		}
	}
	return c11Partial
}

func langTemplate(m zconst.LangMap, dtype, code string) string {
	if t, ok := m[dtype][code]; ok {
		return t
	}
	return m[dtype]["fallback"]
}

// c11PreHistory optionally runs an earlier call that leaves a recycled issue carrying a message, params and an error
// in the pool (LIFO: the catalogue entry's issue is built on that object).
func c11PreHistory(x *mc.X) string {
	switch x.Choose(3, "preHistory") {
	case 1:
		var d string
		z.String().Min(5, z.Message("stale-message")).Catch("c").Parse("ab", &d)
		return "caught issue with custom message released"
	case 2:
		var d int
		l := z.Int().GT(5, z.Message("stale-message-2")).Parse("abc", &d)
		l2 := z.Int().GT(5, z.Message("stale-message-2")).Parse(1, &d)
		z.Issues.CollectList(l)
		z.Issues.CollectList(l2)
		return "coerce + test issues collected"
	}
	return "none"
}

type c11Config struct {
	global   int // 0 default formatter; 1.. i18n variants
	defLang  string
	ctxLang  string // "" unset
	langKey  string
	testLvl  int // 0 none, 1 Message, 2 MessageFunc, 3 MessageFunc in two steps, 4 MessageFunc decorating the stock text
	execLvl  int // 0 none, 1 WithIssueFormatter, 2 WithErrFormatter (deprecated spelling)
	expLang  string
	saved    map[string]map[string]string // global == 2: the shipped templates, restored after the execution
}

func c11ChooseConfig(x *mc.X, e *c11Entry) *c11Config {
	c := &c11Config{}
	c.global = x.Choose(3, "global") // 0 stock, 1 i18n installed, 2 stock formatter with the shipped table edited in place (documented customisation)
	c.expLang = "en"
	c.langKey = "lang"
	if c.global == 1 {
		c.defLang = []string{"en", "es"}[x.Choose(2, "defaultLang")]
		// "es-MX" is installed under exactly that (mixed-case) name; "ES" and "fr" are not installed
		// "xx" is an installed language whose table translates only part of the codes (the rest get ITS fallback text)
		c.ctxLang = []string{"", "en", "es", "fr", "es-MX", "ES", "xx"}[x.Choose(7, "ctxLang")]
		if x.Choose(2, "langKey") == 1 {
			c.langKey = "idioma"
		}
		c.expLang = c.defLang
		if c.ctxLang == "en" || c.ctxLang == "es" {
			c.expLang = c.ctxLang
		}
		if c.ctxLang == "es-MX" {
			c.expLang = "es"
		}
		if c.ctxLang == "xx" {
			c.expLang = "xx"
		}
	}
	if !e.noOpts {
		c.testLvl = x.Choose(6, "testLevel")
	}
	c.execLvl = x.Choose(5, "execLevel")
	return c
}

func (c *c11Config) install() {
	if c.global == 1 {
		var opts []func(*string)
		if c.langKey != "lang" {
			i18n.SetLanguagesErrsMap(map[string]zconst.LangMap{"en": en.Map, "es": es.Map, "es-MX": es.Map, "xx": c11PartialLang()}, c.defLang, i18n.WithLangKey(c.langKey))
		} else {
			i18n.SetLanguagesErrsMap(map[string]zconst.LangMap{"en": en.Map, "es": es.Map, "es-MX": es.Map, "xx": c11PartialLang()}, c.defLang)
		}
		_ = opts
	} else {
		conf.IssueFormatter = conf.DefaultIssueFormatter
	}
	if c.global == 2 {
		// docs: "conf.DefaultIssueMessageMap[type][code] = ..." — every shipped template gets a placeholder appended
		c.saved = map[string]map[string]string{}
		for t, sec := range conf.DefaultIssueMessageMap {
			c.saved[t] = map[string]string{}
			for code, tmpl := range sec {
				if code == zconst.IssueCodeFallback {
					continue // the fallback text is used verbatim (never rendered): nothing the statement speaks about
				}
				c.saved[t][code] = tmpl
				sec[code] = tmpl + " (got {{value}})"
			}
		}
	}
}

func (c *c11Config) uninstall() {
	for t, sec := range c.saved {
		for code, tmpl := range sec {
			conf.DefaultIssueMessageMap[t][code] = tmpl
		}
	}
	c.saved = nil
}

func (c *c11Config) testOpts() []z.TestOption {
	switch c.testLvl {
	case 1:
		return []z.TestOption{z.Message("TESTMSG")}
	case 2:
		return []z.TestOption{z.MessageFunc(func(e *z.ZogIssue, ctx z.Ctx) { e.SetMessage("TESTFUNC:" + e.Code) })}
	case 3:
		// a formatter in two steps: the stock text first, then its own decision (the last write is the message)
		return []z.TestOption{z.MessageFunc(func(e *z.ZogIssue, ctx z.Ctx) {
			conf.DefaultIssueFormatter(e, ctx)
			e.SetMessage("TESTFUNC:" + e.Code)
		})}
	case 5:
		// a formatter that declines (sets nothing for this failure): the next level decides, execution before global
		return []z.TestOption{z.MessageFunc(func(e *z.ZogIssue, ctx z.Ctx) {})}
	case 4:
		// a formatter that decorates the stock text: it reads the issue it is handed (code, params, value)
		return []z.TestOption{z.MessageFunc(func(e *z.ZogIssue, ctx z.Ctx) {
			conf.DefaultIssueFormatter(e, ctx)
			e.SetMessage("TESTFUNC:" + e.Code + ":" + e.Message)
		})}
	}
	return nil
}

func (c *c11Config) execOpts() []z.ExecOption {
	var o []z.ExecOption
	if c.ctxLang != "" {
		o = append(o, z.WithCtxValue(c.langKey, c.ctxLang))
	}
	if c.execLvl == 1 {
		o = append(o, z.WithIssueFormatter(func(e *z.ZogIssue, ctx z.Ctx) { e.SetMessage("EXECMSG:" + e.Code) }))
	}
	if c.execLvl == 4 {
		// the natural way to localise one execution: a stock formatter over another table (it leaves a message alone
		// that is already set — so it must be the first to see the issue)
		o = append(o, z.WithIssueFormatter(conf.NewDefaultFormatter(es.Map)))
	}
	if c.execLvl == 3 {
		// two steps: delegate to the stock formatter, then override
		o = append(o, z.WithIssueFormatter(func(e *z.ZogIssue, ctx z.Ctx) {
			conf.DefaultIssueFormatter(e, ctx)
			e.SetMessage("EXECMSG:" + e.Code)
		}))
	}
	if c.execLvl == 2 {
		// the older spelling of the same option, still exported
		o = append(o, z.WithErrFormatter(func(e *z.ZogIssue, ctx z.Ctx) { e.SetMessage("EXECMSG:" + e.Code) }))
	}
	return o
}

func (c *c11Config) String() string {
	return fmt.Sprintf("global=%d default=%s ctxLang=%q key=%s test-level=%d exec-level=%d", c.global, c.defLang, c.ctxLang, c.langKey, c.testLvl, c.execLvl)
}

// c11CheckIssue applies the statement's requirements to one issue.
func c11CheckIssue(is *z.ZogIssue, wantDtype, wantCode, pkey string, pval any, cfg *c11Config, value any, absent, coerce bool) (key, what string) {
	if is.Code == "" {
		return "empty-code", "issue has an empty code"
	}
	if wantCode != "" && is.Code != wantCode {
		return "code", fmt.Sprintf("code %q, expected %q", is.Code, wantCode)
	}
	if is.Dtype != wantDtype {
		return "type", fmt.Sprintf("issue type %q, expected the node's type %q", is.Dtype, wantDtype)
	}
	if pkey != "" {
		v, ok := is.Params[pkey]
		if !ok || !reflect.DeepEqual(v, pval) {
			return "params", fmt.Sprintf("params %v do not carry the test's parameter %s=%v", is.Params, pkey, pval)
		}
	}
	if !absent {
		if is.Value == nil {
			return "value", "issue carries no reference to the offending value"
		}
		rv := reflect.ValueOf(is.Value)
		for rv.Kind() == reflect.Pointer && !rv.IsNil() {
			rv = rv.Elem()
		}
		if value != nil && !coerce {
			want := reflect.ValueOf(value)
			if !(rv.IsValid() && want.IsValid() && rv.Type() == want.Type() && reflect.DeepEqual(rv.Interface(), value)) {
				return "value", fmt.Sprintf("issue value %v does not refer to the offending value %v", is.Value, value)
			}
		}
	}
	if is.Message == "" {
		return "empty-message", "issue has an empty message"
	}
	if strings.Contains(is.Message, "{{") {
		return "placeholder", fmt.Sprintf("message %q contains an unresolved placeholder", is.Message)
	}
	// precedence and language
	switch {
	case cfg.testLvl == 1:
		if is.Message != "TESTMSG" {
			return "precedence", fmt.Sprintf("message %q is not the test's own Message", is.Message)
		}
	case cfg.testLvl == 4:
		// the stock text behind the prefix was rendered from the issue the MessageFunc was handed: complete, no placeholder left (checked above)
		if !strings.HasPrefix(is.Message, "TESTFUNC:"+is.Code+":") || len(is.Message) == len("TESTFUNC:"+is.Code+":") {
			return "precedence", fmt.Sprintf("message %q is not the stock text decorated by the test's own MessageFunc", is.Message)
		}
		if lvl0 := c11StockText(is); lvl0 != "" && is.Message != "TESTFUNC:"+is.Code+":"+lvl0 {
			return "precedence", fmt.Sprintf("message %q: the test's own MessageFunc did not see the issue the caller receives (stock text for it is %q)", is.Message, lvl0)
		}
	case cfg.testLvl >= 2 && cfg.testLvl != 5:
		if is.Message != "TESTFUNC:"+is.Code {
			return "precedence", fmt.Sprintf("message %q is not from the test's own MessageFunc", is.Message)
		}
	case cfg.execLvl == 4:
		if want := renderTemplate(langTemplate(es.Map, is.Dtype, is.Code), is.Params); want != "" && !strings.Contains(want, "{{") && is.Message != want {
			return "precedence", fmt.Sprintf("message %q is not the execution formatter's (Spanish table) %q", is.Message, want)
		}
	case cfg.execLvl >= 1:
		if is.Message != "EXECMSG:"+is.Code {
			return "precedence", fmt.Sprintf("message %q is not from the execution's formatter", is.Message)
		}
	default:
		m := en.Map
		if cfg.expLang == "es" {
			m = es.Map
		}
		if cfg.expLang == "xx" {
			m = c11PartialLang()
		}
		want := renderTemplate(langTemplate(m, is.Dtype, is.Code), is.Params)
		if want != "" && !strings.Contains(want, "{{") && is.Message != want {
			return "language", fmt.Sprintf("message %q is not the %s message %q", is.Message, cfg.expLang, want)
		}
	}
	return "", ""
}

func c11Scenario(ei int) mc.Scenario {
	cat := c11Catalogue()
	e := cat[ei]
	return func(x *mc.X) *mc.Outcome {
		zh.Reset()
		zh.Install(x, zh.PoolLIFO, zh.OrderSorted)
		defer func() { conf.IssueFormatter = conf.DefaultIssueFormatter }()
		mode := 0
		if e.value != nil {
			mode = x.Choose(2, "mode")
		}
		place := x.Choose(3, "placement") // 0 top, 1 struct field, 2 slice element
		cfg := c11ChooseConfig(x, &e)
		cfg.install()
		defer cfg.uninstall()
		pre := c11PreHistory(x)
		leaf := e.mk(cfg.testOpts()...)
		var schema z.ZogSchema
		var dest reflect.Value
		var data any
		wantPath := ""
		switch place {
		case 0:
			schema = leaf
			dest = reflect.New(e.dest)
			data = e.input
			if mode == 1 {
				dest.Elem().Set(reflect.ValueOf(e.value))
			}
		case 1:
			schema = z.Struct(z.Schema{"f": leaf})
			st := reflect.StructOf([]reflect.StructField{{Name: "F", Type: e.dest}})
			dest = reflect.New(st)
			data = map[string]any{"f": e.input}
			if e.input == nil {
				data = map[string]any{"other": 1}
			}
			if mode == 1 {
				dest.Elem().Field(0).Set(reflect.ValueOf(e.value))
			}
			wantPath = "f"
		case 2:
			schema = z.Slice(leaf)
			dest = reflect.New(reflect.SliceOf(e.dest))
			data = []any{e.input}
			if mode == 1 {
				s := reflect.MakeSlice(reflect.SliceOf(e.dest), 1, 1)
				s.Index(0).Set(reflect.ValueOf(e.value))
				dest.Elem().Set(s)
			}
			wantPath = "[0]"
		}
		var obs *Obs
		if mode == 0 {
			obs = RunParse(schema, data, dest, cfg.execOpts()...)
		} else {
			obs = RunValidate(schema, dest, cfg.execOpts()...)
		}
		zh.Reset()
		out := &mc.Outcome{Traces: 1, Nontrivial: true}
		out.Sig = fmt.Sprintf("%s|%d|%d|%s", e.name, mode, place, cfg)
		desc := fmt.Sprintf("%s mode=%s placement=%d %s pre-history=%s", e.name, []string{"Parse", "Validate"}[mode], place, cfg, pre)
		fail := func(key, what, exp, got string) *mc.Outcome {
			x.Note("case: %s", desc)
			out.Viol = append(out.Viol, &mc.Violation{Key: key, What: what, Expected: exp, Observed: got})
			return out
		}
		if obs.Panic != "" {
			return fail("C11:panic:"+e.name, "panic", "", obs.Panic)
		}
		var all []*z.ZogIssue
		for k, l := range obs.RawMap {
			if k != "$first" {
				all = append(all, l...)
			}
		}
		all = append(all, obs.RawList...)
		out.Sample = map[string]any{"case": desc, "issues": fmt.Sprint(all)}
		if len(all) != 1 {
			return fail("C11:count:"+e.name, "expected exactly one issue from a single failing built-in test", "1 issue", fmt.Sprint(all))
		}
		is := all[0]
		if is.Path != wantPath {
			return fail("C11:path:"+e.name, "issue path", wantPath, is.Path)
		}
		var offending any = e.input
		if mode == 1 {
			offending = e.value
		}
		if mode == 0 && !e.coerce && e.value != nil {
			offending = e.value // the coerced value equals the validate value for these entries
		}
		if k, what := c11CheckIssue(is, e.dtype, e.code, e.pkey, e.pval, cfg, offending, e.isAbsentIssue, e.coerce); k != "" {
			return fail(fmt.Sprintf("C11:%s:%s", k, e.name), fmt.Sprintf("%s: %s", desc, what), "issue fully described; message from the most specific configured level, in the context language if shipped else the default", fmt.Sprintf("%+v", *is))
		}
		return out
	}
}

// front-end decode issues and Custom schemas
func c11FrontScenario(x *mc.X) *mc.Outcome {
	zh.Reset()
	zh.Install(x, zh.PoolLIFO, zh.OrderSorted)
	defer func() { conf.IssueFormatter = conf.DefaultIssueFormatter }()
	which := x.Choose(6, "case")
	ptrRoot := which != 3 && which != 4 && x.Bool("top-level schema is Ptr(Struct)")
	optional := false // case 5: the front end may report nothing (malformed pairs are dropped); whatever it reports must be complete
	e := &c11Entry{noOpts: which != 3 && which != 4}
	cfg := c11ChooseConfig(x, e)
	cfg.install()
	type D struct{ A string }
	var d D
	s := z.Struct(z.Schema{"a": z.String()})
	var m z.ZogIssueMap
	var l z.ZogIssueList
	var name, code, dtype string
	parse := func(data any) z.ZogIssueMap {
		if ptrRoot {
			var dp *D
			return z.Ptr(s).Parse(data, &dp, cfg.execOpts()...)
		}
		return s.Parse(data, &d, cfg.execOpts()...)
	}
	switch which {
	case 0:
		name, code, dtype = "zjson.Decode(malformed)", "invalid_json", "struct"
		m = parse(zjson.Decode(strings.NewReader(`{"a":`)))
	case 1:
		name, code, dtype = "zhttp JSON body null", "invalid_json", "struct"
		r := httptest.NewRequest(http.MethodPost, "/", strings.NewReader(`null`))
		r.Header.Set("Content-Type", "application/json")
		m = parse(zhttp.Request(r))
	case 2:
		name, code, dtype = "zhttp malformed form", "invalid_form", "struct"
		r := httptest.NewRequest(http.MethodPost, "/", strings.NewReader(`a=%zz`))
		r.Header.Set("Content-Type", "application/x-www-form-urlencoded")
		m = parse(zhttp.Request(r))
	case 5:
		name, code, dtype, optional = "zhttp malformed query", "", "struct", true
		r := httptest.NewRequest(http.MethodGet, "/", nil)
		r.URL.RawQuery = []string{"a=%zz", "a=1;b=2", "%"}[x.Choose(3, "query")]
		m = parse(zhttp.Request(r))
	case 3:
		name, code, dtype = "CustomFunc[int] failing (IssueCode given)", "neg", "custom"
		var v int
		l = z.CustomFunc(func(p *int, ctx z.Ctx) bool { return *p >= 0 }, append([]z.TestOption{z.IssueCode("neg")}, cfg.testOpts()...)...).Parse(-1, &v, cfg.execOpts()...)
	case 4:
		name, code, dtype = "CustomFunc[int] coerce", "coerce", "custom"
		var v int
		l = z.CustomFunc(func(p *int, ctx z.Ctx) bool { return true }, cfg.testOpts()...).Parse("x", &v, cfg.execOpts()...)
		cfg.testLvl = 0 // a coercion failure is not the custom test's own issue
	}
	zh.Reset()
	var all []*z.ZogIssue
	for k, li := range m {
		if k != "$first" {
			all = append(all, li...)
		}
	}
	all = append(all, l...)
	out := &mc.Outcome{Traces: 1, Nontrivial: true}
	desc := fmt.Sprintf("%s %s", name, cfg)
	out.Sig = desc
	out.Sample = map[string]any{"case": desc, "issues": fmt.Sprint(all)}
	if ptrRoot {
		desc += " into Ptr(Struct)"
	}
	if optional && len(all) == 0 {
		out.Sig = desc + " (nothing reported)"
		return out
	}
	if len(all) != 1 {
		x.Note("case: %s", desc)
		out.Viol = append(out.Viol, &mc.Violation{Key: "C11:count:" + name, What: "expected exactly one issue", Expected: "1", Observed: fmt.Sprint(all)})
		return out
	}
	is := all[0]
	// the type of a Custom schema is whatever the library names it; only require it to be non-empty
	wantD := dtype
	if dtype == "custom" {
		wantD = is.Dtype
		if wantD == "" {
			wantD = "custom"
		}
	}
	if k, what := c11CheckIssue(is, wantD, code, "", nil, cfg, nil, true, false); k != "" {
		x.Note("case: %s", desc)
		out.Viol = append(out.Viol, &mc.Violation{Key: fmt.Sprintf("C11:%s:%s", k, name), What: fmt.Sprintf("%s: %s", desc, what), Expected: "issue fully described with a non-empty message", Observed: fmt.Sprintf("%+v", *is)})
	}
	return out
}

func init() {
	Register(&Prop{
		ID:    "C11",
		Rule:  "the finite catalogue, completely: one execution = one (built-in test or required/not_nil/coerce of a schema type | front-end decode issue | Custom schema issue) × mode × placement {top, field, element} × test-level {none, Message, MessageFunc, MessageFunc in two steps, MessageFunc decorating the stock text, MessageFunc that declines} × execution-level {none, WithIssueFormatter} × global {default formatter, i18n × default language {en,es} × context language {unset,en,es,unknown} × lang key {default, custom}} × pre-history {none, a caught issue with a custom message released, coerce+test issues collected}; every case is non-trivial (exactly one issue is produced and inspected); distinct = distinct configurations",
		Floor: 100,
		Bound: func(tier string) string {
			return fmt.Sprintf("%d catalogue entries + 6 front-end/custom cases (front-end cases into Struct and into a top-level Ptr(Struct)), full product of all configuration dimensions", len(c11Catalogue()))
		},
		Assumptions: []string{
			"expected language: the context language if it is one of the shipped maps (en, es), else the default language; expected text is rendered from the shipped language map by the harness's own substitution",
			"Bool().True()/False() are only required to carry a non-empty code, the bool type, their parameter and a non-empty message (DESIGN Appendix A)",
			"the code of user TestFuncs without IssueCode is outside the statement",
		},
		Items: func(tier string) []Item {
			var items []Item
			for i, e := range c11Catalogue() {
				items = append(items, Item{Name: e.name, MaxDevs: -1, Run: c11Scenario(i)})
			}
			items = append(items, Item{Name: "frontends+custom", MaxDevs: -1, Run: c11FrontScenario})
			items = append(items, Item{Name: "entry-points-under-an-installed-formatter", MaxDevs: -1, Run: c11EntryPointsScenario})
			return items
		},
	})
}

// c11StockText: the stock formatter applied to a copy of the issue as the caller received it.
func c11StockText(is *z.ZogIssue) string {
	cp := *is
	cp.Message = ""
	defer func() { recover() }()
	conf.DefaultIssueFormatter(&cp, nil)
	return cp.Message
}
