package scen

// C15 — zhttp picks the documented source and reports undecodable requests as
// one issue. Full product method × Content-Type × body × query string, with
// per-source sentinel keys and values; oracle: dispatch table from the
// statement, form contents as net/http's own ParseForm defines them, decode
// contract, list/scalar/absent rule.

import (
	"encoding/json"
	"fmt"
	"io"
	"net/http"
	"net/http/httptest"
	"net/url"
	"reflect"
	"strings"

	z "github.com/Oudwins/zog"
	p "github.com/Oudwins/zog/internals"
	"github.com/Oudwins/zog/zhttp"
	"zogverif/mc"
	"zogverif/zh"
)

// method tokens are case-sensitive (RFC 9110): "get" and "Head" are extension methods, not GET / HEAD
var c15Methods = []string{"GET", "HEAD", "POST", "PUT", "PATCH", "DELETE", "OPTIONS", "get", "Head", "PROPFIND"}

type c15CT struct {
	value    string
	set      bool
	asserted bool
	media    string // media type as the statement reads it
}

var c15CTs = []c15CT{
	{"", false, true, ""},
	{"", true, true, ""},
	{"application/json", true, true, "application/json"},
	{"application/json; charset=utf-8", true, true, "application/json"},
	{"application/json;charset=utf-8", true, true, "application/json"},
	{"application/x-www-form-urlencoded", true, true, "application/x-www-form-urlencoded"},
	{"application/x-www-form-urlencoded; charset=UTF-8", true, true, "application/x-www-form-urlencoded"},
	// parameters are ignored whatever they say: the body is read as it is
	{"application/json; charset=iso-8859-1", true, true, "application/json"},
	{"application/json; charset=latin1; profile=\"x\"", true, true, "application/json"},
	{"application/x-www-form-urlencoded; charset=iso-8859-1", true, true, "application/x-www-form-urlencoded"},
	{"multipart/form-data; boundary=xyz", true, true, "multipart/form-data"},
	{"text/plain", true, true, "text/plain"},
	{"application/unknown+json", true, true, "application/unknown+json"},
	{"application/json-patch+json", true, true, "application/json-patch+json"},
	{"application/jsonx; charset=utf-8", true, true, "application/jsonx"},
	{"application/x-www-form-urlencoded-v2", true, true, "application/x-www-form-urlencoded-v2"},
	// spellings the statement does not cover: run for panic-freedom only
	{"APPLICATION/JSON", true, false, ""},
	{" application/json", true, false, ""},
	{"application/json ; charset=utf-8", true, false, ""},
}

var c15Bodies = []struct{ name, text string }{
	{"json object", `{"j":"json-j","x":"json-x","l":["jl1","jl2"],"m":["jm1"]}`},
	{"json {}", `{}`},
	{"json object with non-ASCII values", `{"j":"jé","x":"東京"}`},
	{"json object holding a number beyond float64", `{"j":"json-j","x":"json-x","n":1e999}`},
	{"form with non-ASCII values", "f=%C3%A9&x=é"},
	{"json object followed by a newline", "{\"j\":\"json-j\",\"x\":\"json-x\"}\n"},
	{"json object between blanks and CRLF", " \r\n\t{\"j\":\"json-j\",\"x\":\"json-x\"} \r\n"},
	{"json {} followed by a newline", "{}\n"},
	{"two json documents", `{"j":"json-j"}{"x":"json-x"}`},
	{"json truncated", `{"j":"json-j","x":`},
	{"json array", `[1]`},
	{"json null", `null`},
	{"json number", `1`},
	{"json string", `"s"`},
	{"empty", ``},
	{"form", `f=form-f&x=form-x&l=fl1&l=fl2&m%5B%5D=fm1`},
	{"form malformed escape", `f=%zz`},
	{"form semicolon", `f=1;x=2`},
	{"form single list", `l=only&x=form-x`},
	{"json long, syntax error early", `{"j":"json-j" "x":"` + strings.Repeat("y", 700) + `"}`},
	{"multipart", "--xyz\r\nContent-Disposition: form-data; name=\"f\"\r\n\r\nmp-f\r\n--xyz\r\nContent-Disposition: form-data; name=\"q\"\r\n\r\nmp-q\r\n--xyz\r\nContent-Disposition: form-data; name=\"l\"\r\n\r\nmp-l\r\n--xyz--\r\n"},
	{"json long valid object", `{"j":"json-j","x":"` + strings.Repeat("y", 700) + `","pad":"` + strings.Repeat("p", 900) + `"}`},
	// insignificant white space in front of the document, around the sizes at which readers buffer (pretty-printers and proxies pad)
	{"json object behind 511 blanks", strings.Repeat(" ", 511) + `{"j":"json-j","x":"json-x"}`},
	{"json object behind 512 bytes of CRLF", strings.Repeat("\r\n", 256) + `{"j":"json-j","x":"json-x"}`},
	{"json object behind 4096 blanks and tabs", strings.Repeat(" \t", 2048) + `{"j":"json-j","x":"json-x"}`},
	{"json array behind 600 blanks", strings.Repeat(" ", 600) + `[1]`},
	{"600 blanks only", strings.Repeat(" ", 600)},
}

var c15Queries = []struct{ name, raw string }{
	{"none", ""},
	{"single", "q=query-q&x=query-x&l=ql1"},
	{"repeated", "q=query-q&l=ql1&l=ql2&x=query-x&x=query-x2"},
	{"m[] once", "q=query-q&m%5B%5D=qm1"},
	{"m[] twice", "m%5B%5D=qm1&m%5B%5D=qm2"},
	{"malformed", "q=%zz&x=query-x"},
	{"semicolon separator", "q=query-q;x=query-x&l=ql1"},
}

func c15Skel(req bool) *Skel {
	s := ss("j", sp(KStr), "f", sp(KStr), "q", sp(KStr), "x", sp(KStr), "l", sl(sp(KStr)), "m", sl(sp(KStr)))
	for i := range s.Fields {
		if s.Fields[i].Key == "m" {
			s.Fields[i].Tag = `json:"m" form:"m[]" query:"m[]"`
		}
	}
	s.label("")
	return s
}

var c15Skels = map[bool]*Skel{}

func c15Scenario(x *mc.X) *mc.Outcome {
	zh.Reset()
	zh.Install(x, zh.PoolLIFO, zh.OrderRev)
	method := c15Methods[x.Choose(len(c15Methods), "method")]
	ct := c15CTs[x.Choose(len(c15CTs), "content-type")]
	body := c15Bodies[x.Choose(len(c15Bodies), "body")]
	query := c15Queries[x.Choose(len(c15Queries), "query")]
	reqX := x.Bool("x required")
	ptrRoot := x.Bool("schema is Ptr(Struct)")
	stream := x.Bool("body of unknown length")
	// what happened to the request before zog saw it: nothing, or a middleware that looked at the form
	// (net/http then caches the parsed values on the request: r.Form, r.PostForm, r.MultipartForm)
	middleware := x.Choose(3, "middleware")
	// zhttp.Config.Parsers is the documented place to replace a parser: with pass-through wrappers installed, the
	// wrapper of the documented source — and only that one — is what Request must go through
	wrapped := middleware == 0 && !stream && x.Bool("Config.Parsers wrapped")
	var called []string
	if wrapped {
		saved := zhttp.Config.Parsers
		zhttp.Config.Parsers.JSON = func(r *http.Request) p.DpFactory { called = append(called, "json"); return saved.JSON(r) }
		zhttp.Config.Parsers.Form = func(r *http.Request) p.DpFactory { called = append(called, "form"); return saved.Form(r) }
		zhttp.Config.Parsers.Query = func(r *http.Request) p.DpFactory { called = append(called, "query"); return saved.Query(r) }
		defer func() { zhttp.Config.Parsers = saved }()
	}
	// what the process did before: nothing, or an execution in which a catching field swallowed a failure of a test
	// that carries its own message (the library recycles the objects of finished executions)
	undecodable := map[string]bool{"json truncated": true, "json array": true, "json null": true, "json number": true, "json string": true, "two json documents": true, "form malformed escape": true, "json long, syntax error early": true, "empty": true, "json object holding a number beyond float64": true, "json array behind 600 blanks": true, "600 blanks only": true}
	if undecodable[body.name] && middleware == 0 && x.Bool("an earlier execution swallowed a nested failure") {
		var prev struct{ Nick string }
		z.Struct(z.Schema{"nick": z.String().Min(5, z.Message("nick too short")).Catch("anon")}).Parse(map[string]any{"nick": "ab"}, &prev)
	}
	if _, ok := c15Skels[reqX]; !ok {
		c15Skels[reqX] = c15Skel(reqX)
	}
	skel := c15Skels[reqX]
	// abstract schema: all optional strings / lists with one recording test each
	a := &Alpha{Tier: "quick", Mode: 0}
	root := (&caseBuilder{x: mc.NewReplayX(nil), a: a, focus: map[string]bool{}, elems: 2, c: &Case{Alpha: a, Absent: map[string]bool{}, Touched: map[string]bool{}}}).buildNode(skel)
	if reqX {
		for _, f := range root.Fields {
			if f.Key == "x" {
				f.N.Req = true
			}
		}
	}
	if ptrRoot {
		root = &Node{Kind: KPtr, Elem: root, Pos: "ptr"}
	}
	mkReq := func() *http.Request {
		target := "/"
		var rd io.Reader = strings.NewReader(body.text)
		if stream {
			rd = io.NopCloser(rd) // net/http cannot know the length: ContentLength == -1 (chunked upload)
		}
		r := httptest.NewRequest(method, target, rd)
		r.URL.RawQuery = query.raw
		if ct.set {
			r.Header.Set("Content-Type", ct.value)
		}
		return r
	}
	mkSeen := func() *http.Request {
		r := mkReq()
		switch middleware {
		case 1:
			r.ParseForm()
		case 2:
			r.FormValue("csrf") // parses urlencoded and multipart bodies
		}
		return r
	}
	// real run
	rec := &Recorder{Light: true}
	schema := BuildZog(root, rec)
	dest := reflect.New(root.GoType())
	fillSentinel(dest.Elem(), root)
	var orders [][]int
	installOrderRecorder(x, zh.OrderRev, &orders)
	provider := zhttp.Request(mkSeen())
	real := RunParse(schema, provider, dest)
	zh.Reset()
	desc := fmt.Sprintf("%s Content-Type=%q body[%s]=%q query[%s]=%q x.required=%v schema-is-pointer=%v unknown-length=%v middleware(0 none,1 ParseForm,2 FormValue)=%d config-parsers-wrapped=%v", method, ct.value, body.name, clip(body.text), query.name, query.raw, reqX, ptrRoot, stream, middleware, wrapped)
	out := &mc.Outcome{Traces: 1, Nontrivial: true}
	out.Sample = map[string]any{"request": desc, "issues": real.IssueStrings(), "dest": canonNoTypes(dest.Elem())}
	fail := func(key, what, exp, got string) *mc.Outcome {
		x.Note("request: %s", desc)
		out.Viol = append(out.Viol, &mc.Violation{Key: key, What: what, Expected: exp, Observed: got})
		return out
	}
	if real.Panic != "" {
		out.Sig = "panic"
		return fail("C15:panic:"+firstLine(real.Panic), "zhttp request made Parse panic", "", real.Panic)
	}
	if !ct.asserted {
		out.Sig = "unasserted-spelling"
		return out
	}
	// expected source by the statement's dispatch table
	source := "query"
	if method != "GET" && method != "HEAD" {
		switch ct.media {
		case "application/json":
			source = "json"
		case "application/x-www-form-urlencoded":
			source = "form"
		}
	}
	if wrapped && (len(called) != 1 || called[0] != source) {
		return fail("C15:config-parsers:"+source, "with pass-through parsers installed in zhttp.Config.Parsers, Request did not go through the parser of the documented source exactly once", "["+source+"]", fmt.Sprint(called))
	}
	var src any
	decodeIssue := ""
	switch source {
	case "json":
		var m map[string]any
		err := json.NewDecoder(strings.NewReader(body.text)).Decode(&m)
		if err != nil || m == nil {
			decodeIssue = "invalid_json"
		} else {
			src = &specSrc{tag: "json", m: m}
		}
	case "form":
		// net/http reports a malformed form once, to whoever parses first; a request a middleware has already
		// parsed is, for every later reader, the form net/http cached on it
		clone := mkSeen()
		if err := clone.ParseForm(); err != nil {
			decodeIssue = "invalid_form"
		} else {
			src = &specSrc{flat: true, tag: "form", get: flatGet(clone.Form)}
		}
	default:
		vals, _ := url.ParseQuery(query.raw) // malformed pairs are dropped, the rest is kept (net/url)
		src = &specSrc{flat: true, tag: "query", get: flatGet(vals)}
	}
	out.Sig = fmt.Sprintf("%s|%s|decode=%s|%v", source, ct.media, decodeIssue, real.IssueStrings())
	if decodeIssue != "" {
		// exactly one top-level issue, schema did not run, destination untouched
		pre := reflect.New(root.GoType())
		fillSentinel(pre.Elem(), root)
		ok := len(real.Issues) == 1 && real.Issues[0].Key == "$root" && real.Issues[0].Code == decodeIssue && real.First != nil && real.First.Code == decodeIssue && real.FirstSame
		if !ok {
			return fail("C15:decode-contract:"+decodeIssue, "an undecodable "+source+" request must yield exactly one top-level issue "+decodeIssue+" at $root and $first", "[$root||"+decodeIssue+"]", fmt.Sprint(real.IssueStrings()))
		}
		if len(rec.Count) != 0 {
			return fail("C15:decode-schema-ran", "the schema ran although the request could not be decoded", "no test invoked", fmt.Sprint(rec.Count))
		}
		if canonValue(pre.Elem()) != canonValue(dest.Elem()) {
			return fail("C15:decode-dest-written", "destination written although the request could not be decoded", canonValue(pre.Elem()), canonValue(dest.Elem()))
		}
		if real.RawMap["$root"][0].Message == "" {
			return fail("C15:decode-message", "decode issue without a message", "non-empty", "")
		}
		// the same request value handed to Parse a second time (a handler that reads two schemas from one
		// request): its body is as undecodable as before. (Not for forms: net/http reports a malformed form once
		// and hands every later reader the pairs it could parse.)
		if source != "json" {
			return out
		}
		var orders2 [][]int
		installOrderRecorder(x, zh.OrderRev, &orders2)
		dest2 := reflect.New(root.GoType())
		fillSentinel(dest2.Elem(), root)
		again := RunParse(schema, provider, dest2)
		zh.Reset()
		out.Traces++
		ok2 := again.Panic == "" && len(again.Issues) == 1 && again.Issues[0].Key == "$root" && again.Issues[0].Code == decodeIssue && again.First != nil && again.First.Code == decodeIssue
		if !ok2 {
			return fail("C15:decode-contract-second-parse:"+decodeIssue, "the request value of an undecodable "+source+" request, parsed a second time, must again yield exactly one top-level issue "+decodeIssue, "[$root||"+decodeIssue+"]", fmt.Sprint(again.IssueStrings())+again.Panic)
		}
		if len(rec.Count) != 0 {
			return fail("C15:decode-schema-ran", "the schema ran on the second Parse of a request that could not be decoded", "no test invoked", fmt.Sprint(rec.Count))
		}
		if canonValue(pre.Elem()) != canonValue(dest2.Elem()) {
			return fail("C15:decode-dest-written", "destination written by the second Parse of a request that could not be decoded", canonValue(pre.Elem()), canonValue(dest2.Elem()))
		}
		return out
	}
	// decodable: the values must come from the documented source
	st := &specState{orders: orders, quirks: map[string]bool{"empty-doc-tag": true}}
	md := reflect.New(root.GoType())
	fillSentinel(md.Elem(), root)
	st.specParse(root, src, md.Elem(), "")
	want, got := st.sorted(), real.IssueStrings()
	if !eqStrings(want, got) {
		return fail("C15:dispatch-issues:"+source, "issues differ from what the documented source ("+source+") contains", fmt.Sprint(want), fmt.Sprint(got))
	}
	if canonValue(md.Elem()) != canonValue(dest.Elem()) {
		return fail("C15:dispatch-values:"+source, "destination does not hold the values of the documented source ("+source+"): wrong source, or list/scalar/absent rule broken", canonNoTypes(md.Elem()), canonNoTypes(dest.Elem()))
	}
	return out
}

// c15ParamGrammar: every sequence of ≤3 parameters over {x, l, m[]} × {"", "v1", "v2"} sent as a GET query, as a
// POST form body, and split between a POST form body and the query (net/http merges them).
func c15ParamGrammar(x *mc.X) *mc.Outcome {
	zh.Reset()
	zh.Install(x, zh.PoolLIFO, zh.OrderRev)
	keys := []string{"x", "l", "m[]"}
	vals := []string{"", "v1", "v2"}
	seq := func(label string, max int) []string {
		var out []string
		n := x.Choose(max+1, label+".len")
		for i := 0; i < n; i++ {
			k := keys[x.Choose(len(keys), label+".key")]
			v := vals[x.Choose(len(vals), label+".val")]
			out = append(out, url.QueryEscape(k)+"="+url.QueryEscape(v))
		}
		return out
	}
	mode := x.Choose(3, "source") // 0 GET query, 1 POST form body, 2 POST form body + query
	var bodyParams, queryParams []string
	switch mode {
	case 0:
		queryParams = seq("query", 3)
	case 1:
		bodyParams = seq("body", 3)
	default:
		bodyParams = seq("body", 2)
		queryParams = seq("query", 2)
	}
	if _, ok := c15Skels[false]; !ok {
		c15Skels[false] = c15Skel(false)
	}
	a := &Alpha{Tier: "quick", Mode: 0}
	root := (&caseBuilder{x: mc.NewReplayX(nil), a: a, focus: map[string]bool{}, elems: 2, c: &Case{Alpha: a, Absent: map[string]bool{}, Touched: map[string]bool{}}}).buildNode(c15Skels[false])
	mkReq := func() *http.Request {
		method := "GET"
		if mode > 0 {
			method = "POST"
		}
		r := httptest.NewRequest(method, "/", strings.NewReader(strings.Join(bodyParams, "&")))
		r.URL.RawQuery = strings.Join(queryParams, "&")
		if mode > 0 {
			r.Header.Set("Content-Type", "application/x-www-form-urlencoded")
		}
		return r
	}
	rec := &Recorder{Light: true}
	schema := BuildZog(root, rec)
	dest := reflect.New(root.GoType())
	fillSentinel(dest.Elem(), root)
	var orders [][]int
	installOrderRecorder(x, zh.OrderRev, &orders)
	real := RunParse(schema, zhttp.Request(mkReq()), dest)
	zh.Reset()
	var src *specSrc
	if mode == 0 {
		v, _ := url.ParseQuery(strings.Join(queryParams, "&"))
		src = &specSrc{flat: true, tag: "query", get: flatGet(v)}
	} else {
		clone := mkReq()
		clone.ParseForm()
		src = &specSrc{flat: true, tag: "form", get: flatGet(clone.Form)}
	}
	st := &specState{orders: orders}
	md := reflect.New(root.GoType())
	fillSentinel(md.Elem(), root)
	st.specParse(root, src, md.Elem(), "")
	desc := fmt.Sprintf("source=%d body=%q query=%q", mode, strings.Join(bodyParams, "&"), strings.Join(queryParams, "&"))
	out := &mc.Outcome{Traces: 1, Nontrivial: len(bodyParams)+len(queryParams) > 0, Sig: fmt.Sprintf("grammar|%d|%v|%s", mode, st.sorted(), canonNoTypes(md.Elem()))}
	out.Sample = map[string]any{"request": desc, "issues": real.IssueStrings(), "dest": canonNoTypes(dest.Elem())}
	if real.Panic != "" || !eqStrings(st.sorted(), real.IssueStrings()) || canonValue(md.Elem()) != canonValue(dest.Elem()) {
		x.Note("request: %s (source 0 = GET query, 1 = POST form body, 2 = POST form body + query)", desc)
		out.Viol = append(out.Viol, &mc.Violation{Key: fmt.Sprintf("C15:param-rule:%d", mode), What: "parameters are not presented as documented (repeated or []-suffixed → list, single → string, missing → absent; form = body plus query as net/http defines it)", Expected: fmt.Sprintf("%v %s", st.sorted(), canonNoTypes(md.Elem())), Observed: fmt.Sprintf("%s %v %s", real.Panic, real.IssueStrings(), canonNoTypes(dest.Elem()))})
	}
	return out
}

func init() {
	Register(&Prop{
		ID:    "C15",
		Rule:  "full product: one execution = one real http.Request: method {GET, HEAD, POST, PUT, PATCH, DELETE, OPTIONS, get, Head, PROPFIND} (tokens are case-sensitive) × request history {untouched, a middleware called ParseForm, called FormValue} × Content-Type {absent, empty, json, json with charset (two spellings), form, form with charset, multipart, text/plain, unknown; + 3 spellings outside the statement run for panic-freedom only} × body {JSON object, {}, truncated, array, null, number, string, empty, form, malformed escape, semicolon form, single-valued list} × query {none, single, repeated, m[] once, m[] twice, malformed} × {x optional, x required} × {Struct schema, Ptr(Struct) schema} × {body with known length, body of unknown length}, each source carrying its own sentinel keys and values; plus the parameter grammar: every sequence of ≤3 parameters over keys {x, l, m[]} × values {empty, v1, v2} as GET query / POST form body / split between body and query; every case is non-trivial; distinct = distinct (expected source, media type, decode issue, issues)",
		Floor: 30,
		Bound: func(tier string) string { return "full product (both tiers), identity and reversed field visit orders" },
		Assumptions: []string{
			"expected form contents come from net/http's own ParseForm on an identical request; expected JSON from encoding/json; malformed query pairs are dropped by net/url and no invalid_query issue is demanded",
			"only Content-Type spellings the statement covers (exact lower-case media type, optional parameters) are asserted",
			"JSON {} keys: known finding D24 does not apply (no json tags differ from keys here)",
		},
		Items: func(tier string) []Item {
			return []Item{{Name: "requests", MaxDevs: -1, Run: c15Scenario}, {Name: "parameter-grammar", MaxDevs: -1, Run: c15ParamGrammar}}
		},
	})
}
