package scen

// C20 — built-in tests decide exactly their documented predicate.
// Every built-in test × parameter × subject over boundary alphabets, both
// modes, every Not() form; oracle: issue present ⇔ ¬predicate, predicates
// re-implemented here without zog.

import (
	"fmt"
	"math"
	"net/url"
	"reflect"
	"regexp"
	"strings"
	"time"

	z "github.com/Oudwins/zog"
	"zogverif/mc"
	"zogverif/zh"
)

var c20Alphabet = []string{"/", "0", "9", ":", "@", "A", "Z", "[", "`", "a", "z", "{", "~", "\x7f", " ", "!", "é", "Ä", "１", ".", "-", "€", "«", "—", "ſ", "\u212a", "İ", "\xc3", "\x80"} // the last two: a lone lead byte and a lone continuation byte (malformed UTF-8)

// chooseString enumerates every string over alpha with at most maxLen symbols.
func chooseString(x *mc.X, alpha []string, maxLen int, label string) string {
	var sb strings.Builder
	for i := 0; i < maxLen; i++ {
		c := x.Choose(len(alpha)+1, label)
		if c == 0 {
			break
		}
		sb.WriteString(alpha[c-1])
	}
	return sb.String()
}

type strTest struct {
	name  string
	code  string
	build func(s *z.StringSchema[string], not bool) *z.StringSchema[string]
	pred  func(v string) bool
	noNot bool
}

func c20StringTests() []strTest {
	var ts []strTest
	for _, n := range []int{0, 1, 2, 3, -1, math.MaxInt, math.MinInt, math.MaxInt - 1} {
		n := n
		ts = append(ts, strTest{fmt.Sprintf("Min(%d)", n), "min", func(s *z.StringSchema[string], not bool) *z.StringSchema[string] { return s.Min(n) }, func(v string) bool { return len(v) >= n }, true})
		ts = append(ts, strTest{fmt.Sprintf("Max(%d)", n), "max", func(s *z.StringSchema[string], not bool) *z.StringSchema[string] { return s.Max(n) }, func(v string) bool { return len(v) <= n }, true})
		ts = append(ts, strTest{fmt.Sprintf("Len(%d)", n), "len", func(s *z.StringSchema[string], not bool) *z.StringSchema[string] {
			if not {
				return s.Not().Len(n)
			}
			return s.Len(n)
		}, func(v string) bool { return len(v) == n }, false})
	}
	for _, p := range []string{"a", "A9", "é", "", "\xc3"} {
		p := p
		ts = append(ts, strTest{fmt.Sprintf("HasPrefix(%q)", p), "prefix", func(s *z.StringSchema[string], not bool) *z.StringSchema[string] {
			if not {
				return s.Not().HasPrefix(p)
			}
			return s.HasPrefix(p)
		}, func(v string) bool { return len(v) >= len(p) && v[:len(p)] == p }, false})
		ts = append(ts, strTest{fmt.Sprintf("HasSuffix(%q)", p), "suffix", func(s *z.StringSchema[string], not bool) *z.StringSchema[string] {
			if not {
				return s.Not().HasSuffix(p)
			}
			return s.HasSuffix(p)
		}, func(v string) bool { return len(v) >= len(p) && v[len(v)-len(p):] == p }, false})
		ts = append(ts, strTest{fmt.Sprintf("Contains(%q)", p), "contained", func(s *z.StringSchema[string], not bool) *z.StringSchema[string] {
			if not {
				return s.Not().Contains(p)
			}
			return s.Contains(p)
		}, func(v string) bool {
			for i := 0; i+len(p) <= len(v); i++ {
				if v[i:i+len(p)] == p {
					return true
				}
			}
			return false
		}, false})
	}
	anyRune := func(f func(r rune) bool) func(string) bool {
		return func(v string) bool {
			for _, r := range v {
				if f(r) {
					return true
				}
			}
			return false
		}
	}
	ts = append(ts, strTest{"ContainsUpper", "contains_upper", func(s *z.StringSchema[string], not bool) *z.StringSchema[string] {
		if not {
			return s.Not().ContainsUpper()
		}
		return s.ContainsUpper()
	}, anyRune(func(r rune) bool { return strings.ContainsRune("ABCDEFGHIJKLMNOPQRSTUVWXYZ", r) }), false})
	ts = append(ts, strTest{"ContainsDigit", "contains_digit", func(s *z.StringSchema[string], not bool) *z.StringSchema[string] {
		if not {
			return s.Not().ContainsDigit()
		}
		return s.ContainsDigit()
	}, anyRune(func(r rune) bool { return strings.ContainsRune("0123456789", r) }), false})
	ts = append(ts, strTest{"ContainsSpecial", "contains_special", func(s *z.StringSchema[string], not bool) *z.StringSchema[string] {
		if not {
			return s.Not().ContainsSpecial()
		}
		return s.ContainsSpecial()
	}, anyRune(func(r rune) bool { return strings.ContainsRune("!\"#$%&'()*+,-./:;<=>?@[\\]^_`{|}~", r) }), false})
	for _, list := range [][]string{{"a", "Z"}, {"a "}, {}} {
		list := list
		ts = append(ts, strTest{fmt.Sprintf("OneOf(%q)", list), "one_of_options", func(s *z.StringSchema[string], not bool) *z.StringSchema[string] {
			if not {
				return s.Not().OneOf(list)
			}
			return s.OneOf(list)
		}, func(v string) bool {
			for _, e := range list {
				if e == v {
					return true
				}
			}
			return false
		}, false})
	}
	for _, re := range []string{"^[a-z]+$", "9", "^.$"} {
		re := re
		rx := regexp.MustCompile(re)
		var pred func(string) bool
		switch re {
		case "^[a-z]+$":
			pred = func(v string) bool {
				if v == "" {
					return false
				}
				for i := 0; i < len(v); i++ {
					if v[i] < 'a' || v[i] > 'z' {
						return false
					}
				}
				return true
			}
		case "9":
			pred = func(v string) bool { return strings.IndexByte(v, '9') >= 0 }
		default:
			pred = func(v string) bool { // exactly one rune (valid UTF-8 or one invalid byte), not newline
				n := 0
				for range v {
					n++
				}
				return n == 1 && v != "\n"
			}
		}
		ts = append(ts, strTest{fmt.Sprintf("Match(%s)", re), "match", func(s *z.StringSchema[string], not bool) *z.StringSchema[string] {
			if not {
				return s.Not().Match(rx)
			}
			return s.Match(rx)
		}, pred, false})
	}
	// patterns that are a literal between anchors (or a literal with one anchor): equality / prefix / suffix, never "contains"
	for _, lp := range []struct {
		re   string
		pred func(v string) bool
	}{
		{"^a9$", func(v string) bool { return v == "a9" }},
		{`\Aaz\z`, func(v string) bool { return v == "az" }},
		{`^a\.z$`, func(v string) bool { return v == "a.z" }},
		{"^(?:9)$", func(v string) bool { return v == "9" }},
		{"(?s)^a$", func(v string) bool { return v == "a" }},
		{"^$", func(v string) bool { return v == "" }},
		{"^a", func(v string) bool { return strings.HasPrefix(v, "a") }},
		{"z$", func(v string) bool { return strings.HasSuffix(v, "z") }},
		{"a9", func(v string) bool { return strings.Contains(v, "a9") }},
	} {
		lp := lp
		rx := regexp.MustCompile(lp.re)
		ts = append(ts, strTest{fmt.Sprintf("Match(%s)", lp.re), "match", func(s *z.StringSchema[string], not bool) *z.StringSchema[string] {
			if not {
				return s.Not().Match(rx)
			}
			return s.Match(rx)
		}, lp.pred, false})
	}
	return ts
}

// reference grammar matchers --------------------------------------------------

func isAlnum(b byte) bool {
	return (b >= '0' && b <= '9') || (b >= 'a' && b <= 'z') || (b >= 'A' && b <= 'Z')
}

// refEmail: local-part of 1+ permitted characters, '@', one or more dot-separated
// labels, each 1..63 alphanumerics/hyphens that neither starts nor ends with '-'.
func refEmail(s string) bool {
	at := strings.IndexByte(s, '@')
	if at <= 0 {
		return false
	}
	local, dom := s[:at], s[at+1:]
	for i := 0; i < len(local); i++ {
		if !isAlnum(local[i]) && !strings.ContainsRune(".!#$%&'*+/=?^_`{|}~-", rune(local[i])) {
			return false
		}
	}
	if dom == "" {
		return false
	}
	for _, lab := range strings.Split(dom, ".") {
		if len(lab) < 1 || len(lab) > 63 {
			return false
		}
		if !isAlnum(lab[0]) || !isAlnum(lab[len(lab)-1]) {
			return false
		}
		for i := 0; i < len(lab); i++ {
			if !isAlnum(lab[i]) && lab[i] != '-' {
				return false
			}
		}
	}
	return true
}

func refUUID(s string) bool {
	if len(s) != 36 {
		return false
	}
	for i := 0; i < 36; i++ {
		c := s[i]
		if i == 8 || i == 13 || i == 18 || i == 23 {
			if c != '-' {
				return false
			}
			continue
		}
		if !((c >= '0' && c <= '9') || (c >= 'a' && c <= 'f') || (c >= 'A' && c <= 'F')) {
			return false
		}
	}
	return true
}

// refURL: "a URL with a scheme and a host" as net/url parses it.
func refURL(s string) bool {
	u, err := url.Parse(s)
	return err == nil && u.Scheme != "" && u.Host != ""
}

// ----------------------------------------------------------------------------

func c20Base(name string) string {
	pre := ""
	if strings.HasPrefix(name, "Not().") {
		pre, name = "Not.", strings.TrimPrefix(name, "Not().")
	}
	return pre + strings.SplitN(name, "(", 2)[0]
}

func c20Check(name string, mode string, subj string, skipped bool, want bool, code string, issues z.ZogIssueList, dest any) *mc.Outcome {
	out := &mc.Outcome{Traces: 1}
	got := len(issues) == 0
	out.Sig = fmt.Sprintf("%s|%s|skip=%v|pass=%v", name, mode, skipped, got)
	out.Nontrivial = !skipped
	out.Sample = map[string]any{"test": name, "mode": mode, "subject": subj, "predicate_holds": want, "issues": len(issues)}
	if skipped {
		want = true
	}
	if got != want {
		out.Viol = append(out.Viol, &mc.Violation{
			Key:      fmt.Sprintf("C20:%s:%s:want_pass=%v", c20Base(name), mode, want),
			What:     fmt.Sprintf("%s on %s in %s: documented predicate=%v but zog pass=%v", name, subj, mode, want, got),
			Expected: fmt.Sprintf("issue present=%v", !want),
			Observed: fmt.Sprintf("issues=%s", issueCodes(issues)),
		})
		return out
	}
	if !want {
		if len(issues) != 1 || issues[0].Code != code {
			out.Viol = append(out.Viol, &mc.Violation{
				Key:      fmt.Sprintf("C20:%s:%s:code", c20Base(name), mode),
				What:     fmt.Sprintf("%s on %s in %s: expected exactly one issue with code %q", name, subj, mode, code),
				Expected: code,
				Observed: issueCodes(issues),
			})
		}
	}
	return out
}

func issueCodes(l z.ZogIssueList) string {
	var s []string
	for _, i := range l {
		s = append(s, fmt.Sprintf("%s@%q", i.Code, i.Path))
	}
	return "[" + strings.Join(s, " ") + "]"
}

func parseAbsent(v any) bool {
	if v == nil {
		return true
	}
	if s, ok := v.(string); ok {
		return strings.TrimSpace(s) == ""
	}
	return false
}

func c20StringItem(t strTest, not bool, alpha []string, maxLen int) mc.Scenario {
	return func(x *mc.X) *mc.Outcome {
		zh.Reset()
		zh.Install(x, zh.PoolLIFO, zh.OrderSorted)
		mode := x.Choose(2, "mode")
		subj := chooseString(x, alpha, maxLen, "sym")
		s := t.build(z.String(), not)
		want := t.pred(subj)
		name, code := t.name, t.code
		if not {
			want, name, code = !want, "Not()."+name, "not_"+code
		}
		var issues z.ZogIssueList
		var skipped bool
		var dest string
		if mode == 0 {
			skipped = parseAbsent(subj)
			issues = s.Parse(subj, &dest)
			if !skipped && dest != subj {
				return &mc.Outcome{Sig: "destmismatch", Viol: []*mc.Violation{{Key: "C20:string-parse-dest", What: "string parse changed the value", Expected: fmt.Sprintf("%q", subj), Observed: fmt.Sprintf("%q", dest)}}}
			}
		} else {
			dest = subj
			skipped = subj == ""
			issues = s.Validate(&dest)
		}
		return c20Check(name, []string{"Parse", "Validate"}[mode], fmt.Sprintf("%q", subj), skipped, want, code, issues, dest)
	}
}

// The same test on sibling values: two elements of a slice, two fields of a struct (both visit
// orders). Each value must be classified on its own, whatever its sibling was.
type c20Two struct {
	A string
	B string
}

func c20SiblingItem(t strTest, not bool, alpha []string) mc.Scenario {
	return func(x *mc.X) *mc.Outcome {
		zh.Reset()
		zh.Install(x, zh.PoolLIFO, zh.OrderFree)
		mode := x.Choose(2, "mode")
		container := x.Choose(2, "container")
		subj := []string{chooseString(x, alpha, 1, "sym1"), chooseString(x, alpha, 1, "sym2")}
		name, code := t.name, t.code
		if not {
			name, code = "Not()."+name, "not_"+code
		}
		var issues z.ZogIssueMap
		keys := []string{"[0]", "[1]"}
		if container == 0 {
			s := z.Slice(t.build(z.String(), not))
			if mode == 0 {
				var d []string
				issues = s.Parse([]any{subj[0], subj[1]}, &d)
			} else {
				d := []string{subj[0], subj[1]}
				issues = s.Validate(&d)
			}
		} else {
			keys = []string{"a", "b"}
			s := z.Struct(z.Schema{"a": t.build(z.String(), not), "b": t.build(z.String(), not)})
			if mode == 0 {
				var d c20Two
				issues = s.Parse(map[string]any{"a": subj[0], "b": subj[1]}, &d)
			} else {
				d := c20Two{subj[0], subj[1]}
				issues = s.Validate(&d)
			}
		}
		zh.Reset()
		out := &mc.Outcome{Traces: 1, Nontrivial: true}
		var got, want []string
		for i, k := range keys {
			absent := parseAbsent(subj[i])
			if mode == 1 {
				absent = subj[i] == ""
			}
			holds := t.pred(subj[i])
			if not {
				holds = !holds
			}
			if !absent && !holds {
				want = append(want, k+":"+code)
			}
			for _, is := range issues[k] {
				got = append(got, k+":"+is.Code)
			}
		}
		out.Sig = fmt.Sprintf("%s|%d|%d|%v", name, mode, container, want)
		out.Sample = map[string]any{"test": name, "mode": []string{"Parse", "Validate"}[mode], "container": []string{"slice", "struct"}[container], "values": subj, "issues": got}
		if !eqStrings(want, got) {
			x.Note("%s on siblings %q in %s of a %s", name, subj, []string{"Parse", "Validate"}[mode], []string{"slice", "struct"}[container])
			out.Viol = append(out.Viol, &mc.Violation{Key: fmt.Sprintf("C20:%s:siblings:%s", c20Base(name), []string{"Parse", "Validate"}[mode]), What: "a value is classified differently next to a sibling than on its own", Expected: fmt.Sprint(want), Observed: fmt.Sprint(got)})
		}
		return out
	}
}

// numeric ---------------------------------------------------------------------

func c20NumItem[T int | int32 | int64 | float32 | float64](mk func() *z.NumberSchema[T], vals []T, tname string) mc.Scenario {
	type nt struct {
		name  string
		code  string
		build func(s *z.NumberSchema[T], n T) *z.NumberSchema[T]
		pred  func(v, n T) bool
	}
	tests := []nt{
		{"GT", "gt", func(s *z.NumberSchema[T], n T) *z.NumberSchema[T] { return s.GT(n) }, func(v, n T) bool { return v > n }},
		{"GTE", "gte", func(s *z.NumberSchema[T], n T) *z.NumberSchema[T] { return s.GTE(n) }, func(v, n T) bool { return v >= n }},
		{"LT", "lt", func(s *z.NumberSchema[T], n T) *z.NumberSchema[T] { return s.LT(n) }, func(v, n T) bool { return v < n }},
		{"LTE", "lte", func(s *z.NumberSchema[T], n T) *z.NumberSchema[T] { return s.LTE(n) }, func(v, n T) bool { return v <= n }},
		{"EQ", "eq", func(s *z.NumberSchema[T], n T) *z.NumberSchema[T] { return s.EQ(n) }, func(v, n T) bool { return v == n }},
	}
	return func(x *mc.X) *mc.Outcome {
		zh.Reset()
		zh.Install(x, zh.PoolLIFO, zh.OrderSorted)
		mode := x.Choose(2, "mode")
		ti := x.Choose(len(tests)+1, "test")
		vi := x.Choose(len(vals), "subject")
		v := vals[vi]
		var s *z.NumberSchema[T]
		var want bool
		var name, code string
		if ti < len(tests) {
			ni := x.Choose(len(vals), "param")
			n := vals[ni]
			s = tests[ti].build(mk(), n)
			want = tests[ti].pred(v, n)
			name, code = fmt.Sprintf("%s.%s(%v)", tname, tests[ti].name, n), tests[ti].code
		} else {
			li := x.Choose(3, "list")
			var list []T
			switch li {
			case 0:
				list = []T{vals[0], vals[len(vals)/2]}
			case 1:
				list = []T{}
			case 2:
				list = append([]T{}, vals...)
			}
			s = mk().OneOf(list)
			// membership by deep equality == Go == for numbers except NaN, where DeepEqual(NaN,NaN) is false
			for _, e := range list {
				if e == v {
					want = true
				}
			}
			name, code = fmt.Sprintf("%s.OneOf(#%d)", tname, li), "one_of_options"
		}
		var issues z.ZogIssueList
		var skipped bool
		var dest T
		if mode == 0 {
			issues = s.Parse(v, &dest)
			if len(issues) == 0 && !(dest == v || (v != v && dest != dest)) {
				return &mc.Outcome{Sig: "destmismatch", Viol: []*mc.Violation{{Key: "C20:num-parse-dest:" + tname, What: "numeric parse of a native value changed it", Expected: fmt.Sprint(v), Observed: fmt.Sprint(dest)}}}
			}
		} else {
			dest = v
			skipped = reflect.ValueOf(v).IsZero()
			issues = s.Validate(&dest)
		}
		return c20Check(name, []string{"Parse", "Validate"}[mode], fmt.Sprint(v), skipped, want, code, issues, dest)
	}
}

// bool, time, slices ----------------------------------------------------------

func c20Bool(x *mc.X) *mc.Outcome {
	zh.Reset()
	zh.Install(x, zh.PoolLIFO, zh.OrderSorted)
	mode := x.Choose(2, "mode")
	ti := x.Choose(4, "test")
	v := x.Bool("subject")
	var s *z.BoolSchema[bool]
	var want bool
	var name string
	switch ti {
	case 0:
		s, want, name = z.Bool().True(), v == true, "True()"
	case 1:
		s, want, name = z.Bool().False(), v == false, "False()"
	case 2:
		s, want, name = z.Bool().EQ(true), v == true, "EQ(true)"
	case 3:
		s, want, name = z.Bool().EQ(false), v == false, "EQ(false)"
	}
	var issues z.ZogIssueList
	var dest bool
	skipped := false
	if mode == 0 {
		issues = s.Parse(v, &dest)
	} else {
		dest = v
		skipped = !v
		issues = s.Validate(&dest)
	}
	out := &mc.Outcome{Traces: 1, Nontrivial: !skipped}
	got := len(issues) == 0
	out.Sig = fmt.Sprintf("bool|%s|%d|%v|%v", name, mode, v, got)
	out.Sample = map[string]any{"test": "Bool." + name, "subject": v, "mode": mode}
	if skipped {
		want = true
	}
	if got != want {
		out.Viol = append(out.Viol, &mc.Violation{Key: "C20:Bool." + name, What: fmt.Sprintf("Bool().%s on %v mode %d: predicate=%v zog pass=%v", name, v, mode, want, got), Expected: fmt.Sprint(want), Observed: issueCodes(issues)})
	}
	if !want && len(issues) == 1 && issues[0].Code == "" {
		out.Viol = append(out.Viol, &mc.Violation{Key: "C20:Bool.code", What: "bool test issue has empty code"})
	}
	return out
}

var c20Now = time.Now()

func c20Time(x *mc.X) *mc.Outcome {
	zh.Reset()
	zh.Install(x, zh.PoolLIFO, zh.OrderSorted)
	plus2 := time.FixedZone("+02:00", 2*3600)
	t0 := time.Date(2024, 3, 10, 12, 0, 0, 500, time.UTC)
	mode := x.Choose(2, "mode")
	ti := x.Choose(3, "test")
	pz := x.Choose(4, "paramzone")
	d := x.Choose(5, "delta")
	sz := x.Choose(4, "subjzone")
	// zone 2: values derived from time.Now() carry a monotonic clock reading and the Local location;
	// the other side of the comparison is the same instant without it
	if pz >= 2 || sz >= 2 {
		t0 = c20Now
	}
	param := t0
	switch pz {
	case 1:
		param = t0.In(plus2)
	case 2:
		param = c20Now
	case 3:
		param = c20Now.Round(0) // same Location, monotonic reading stripped
	default:
		param = t0.Round(0).UTC()
	}
	subj := t0.Add(time.Duration([]int64{-1, 0, 1, -int64(time.Hour * 2), int64(time.Hour * 2)}[d]))
	switch sz {
	case 1:
		subj = subj.In(plus2)
	case 2:
		// keeps the monotonic reading
	case 3:
		subj = subj.Round(0) // same Location, monotonic reading stripped
	default:
		subj = subj.Round(0).UTC()
	}
	var s *z.TimeSchema
	var want bool
	var name, code string
	// reference: compare instants as (unix seconds, nanoseconds)
	cmp := func(a, b time.Time) int {
		as, bs := a.Unix(), b.Unix()
		if as != bs {
			if as < bs {
				return -1
			}
			return 1
		}
		an, bn := a.Nanosecond(), b.Nanosecond()
		if an < bn {
			return -1
		}
		if an > bn {
			return 1
		}
		return 0
	}
	switch ti {
	case 0:
		s, want, name, code = z.Time().After(param), cmp(subj, param) > 0, "After", "after"
	case 1:
		s, want, name, code = z.Time().Before(param), cmp(subj, param) < 0, "Before", "before"
	case 2:
		s, want, name, code = z.Time().EQ(param), cmp(subj, param) == 0, "EQ", "eq"
	}
	var issues z.ZogIssueList
	var dest time.Time
	if mode == 0 {
		issues = s.Parse(subj, &dest)
	} else {
		dest = subj
		issues = s.Validate(&dest)
	}
	return c20Check("Time."+name, []string{"Parse", "Validate"}[mode], fmt.Sprintf("delta#%d subject zone#%d (param zone#%d; zone 2 = time.Now() with monotonic reading)", d, sz, pz), false, want, code, issues, dest)
}

// Instants far from the present: every pair over the edges of the range int64 nanoseconds can count (1677 / 2262),
// year 1, year 9999, the Unix epoch and the present. Zero-valued subjects are absent and are left out.
func c20TimeFar(x *mc.X) *mc.Outcome {
	zh.Reset()
	zh.Install(x, zh.PoolLIFO, zh.OrderSorted)
	edgeHi := time.Unix(0, math.MaxInt64).UTC() // 2262-04-11T23:47:16.854775807Z
	edgeLo := time.Unix(0, math.MinInt64).UTC() // 1677-09-21T00:12:43.145224192Z
	instants := []time.Time{
		time.Date(1, 1, 1, 0, 0, 0, 1, time.UTC), time.Date(1000, 6, 1, 0, 0, 0, 0, time.UTC),
		edgeLo.Add(-time.Nanosecond), edgeLo, edgeLo.Add(time.Nanosecond),
		time.Unix(0, 0).UTC(), time.Date(2024, 2, 29, 12, 0, 0, 0, time.UTC),
		edgeHi.Add(-time.Nanosecond), edgeHi, edgeHi.Add(time.Nanosecond),
		time.Date(9999, 12, 31, 23, 59, 59, 999999999, time.UTC),
	}
	mode := x.Choose(2, "mode")
	ti := x.Choose(3, "test")
	pi := x.Choose(len(instants), "param")
	si := x.Choose(len(instants), "subject")
	param, subj := instants[pi], instants[si]
	cmp := func(a, b time.Time) int {
		if a.Unix() != b.Unix() {
			if a.Unix() < b.Unix() {
				return -1
			}
			return 1
		}
		return a.Nanosecond() - b.Nanosecond()
	}
	var s *z.TimeSchema
	var want bool
	var name, code string
	switch ti {
	case 0:
		s, want, name, code = z.Time().After(param), cmp(subj, param) > 0, "After", "after"
	case 1:
		s, want, name, code = z.Time().Before(param), cmp(subj, param) < 0, "Before", "before"
	case 2:
		s, want, name, code = z.Time().EQ(param), cmp(subj, param) == 0, "EQ", "eq"
	}
	var issues z.ZogIssueList
	var dest time.Time
	if mode == 0 {
		issues = s.Parse(subj, &dest)
	} else {
		dest = subj
		issues = s.Validate(&dest)
	}
	return c20Check("Time."+name, []string{"Parse", "Validate"}[mode], fmt.Sprintf("far instants: subject %s, parameter %s", subj.Format(time.RFC3339Nano), param.Format(time.RFC3339Nano)), false, want, code, issues, dest)
}

func c20Slice(x *mc.X) *mc.Outcome {
	zh.Reset()
	zh.Install(x, zh.PoolLIFO, zh.OrderSorted)
	mode := x.Choose(2, "mode")
	ti := x.Choose(4, "test")
	n := x.Choose(4, "n")
	l := x.Choose(4, "len")
	elems := []string{"a", "b", "a"}[:l]
	subj := append([]string{}, elems...)
	// how the list arrives (Parse): a typed slice, a []any, or a []any that the schema's own coercer shortens
	// (duplicates dropped) — the size tests speak about the list the schema placed, not about the raw input
	rep := 0
	if mode == 0 {
		rep = x.Choose(3, "input representation")
	}
	var input any = subj
	s := z.Slice(z.String())
	if rep >= 1 {
		raw := make([]any, len(subj))
		for i, e := range subj {
			raw[i] = e
		}
		input = raw
	}
	if rep == 2 {
		s = z.Slice(z.String(), z.WithCoercer(func(d any) (any, error) {
			seen := map[any]bool{}
			var out []any
			for _, e := range d.([]any) {
				if !seen[e] {
					seen[e] = true
					out = append(out, e)
				}
			}
			return out, nil
		}))
		var dd []string
		seen := map[string]bool{}
		for _, e := range subj {
			if !seen[e] {
				seen[e] = true
				dd = append(dd, e)
			}
		}
		subj = dd
	}
	var want bool
	var name, code string
	switch ti {
	case 0:
		s, want, name, code = s.Min(n), len(subj) >= n, fmt.Sprintf("Slice.Min(%d)", n), "min"
	case 1:
		s, want, name, code = s.Max(n), len(subj) <= n, fmt.Sprintf("Slice.Max(%d)", n), "max"
	case 2:
		s, want, name, code = s.Len(n), len(subj) == n, fmt.Sprintf("Slice.Len(%d)", n), "len"
	case 3:
		needle := []string{"a", "b", "c", ""}[n]
		for _, e := range subj {
			if e == needle {
				want = true
			}
		}
		s, name, code = s.Contains(needle), fmt.Sprintf("Slice.Contains(%q)", needle), "contained"
	}
	var issues z.ZogIssueMap
	var dest []string
	skipped := false
	if mode == 0 {
		issues = s.Parse(input, &dest)
	} else {
		dest = subj
		skipped = len(subj) == 0
		issues = s.Validate(&dest)
	}
	var flat z.ZogIssueList
	for k, l := range issues {
		if k != "$first" {
			flat = append(flat, l...)
		}
	}
	return c20Check(name, []string{"Parse", "Validate"}[mode], fmt.Sprintf("%q (input representation %d: 0 typed slice, 1 []any, 2 []any shortened by the schema's coercer to this)", subj, rep), skipped, want, code, flat, dest)
}

func c20SliceInt(x *mc.X) *mc.Outcome {
	zh.Reset()
	zh.Install(x, zh.PoolLIFO, zh.OrderSorted)
	mode := x.Choose(2, "mode")
	needle := x.Choose(3, "needle")
	l := x.Choose(4, "len")
	subj := append([]int{}, []int{0, 1, 2}[:l]...)
	want := false
	for _, e := range subj {
		if e == needle {
			want = true
		}
	}
	s := z.Slice(z.Int()).Contains(needle)
	var issues z.ZogIssueMap
	var dest []int
	skipped := false
	if mode == 0 {
		issues = s.Parse(subj, &dest)
	} else {
		dest = subj
		skipped = len(subj) == 0
		issues = s.Validate(&dest)
	}
	var flat z.ZogIssueList
	for k, l := range issues {
		if k != "$first" {
			flat = append(flat, l...)
		}
	}
	return c20Check(fmt.Sprintf("Slice(Int).Contains(%d)", needle), []string{"Parse", "Validate"}[mode], fmt.Sprint(subj), skipped, want, "contained", flat, dest)
}

// Contains with a needle whose Go type is not the item type: membership is deep equality, and values of
// different types are never deeply equal — int(1) is not an item of []int64{1}, 1.5 not of []int{1}, a number
// beyond the item type's range not the item it would wrap to.
func c20SliceNeedleTypes(x *mc.X) *mc.Outcome {
	zh.Reset()
	zh.Install(x, zh.PoolLIFO, zh.OrderSorted)
	mode := x.Choose(2, "mode")
	item := x.Choose(4, "item type") // int, int64, int32, float64
	needles := []any{1, int64(1), int32(1), 1.0, 1.5, float32(1), int64(1<<32 + 1), uint(1), "1", true}
	needle := needles[x.Choose(len(needles), "needle")]
	l := x.Choose(3, "len")
	var issues z.ZogIssueMap
	var dest, subj any
	want := false
	run := func() {
		switch item {
		case 0:
			v := append([]int{}, []int{1, 2}[:l]...)
			for _, e := range v {
				want = want || reflect.DeepEqual(any(e), needle)
			}
			s := z.Slice(z.Int()).Contains(needle)
			var d []int
			if mode == 0 {
				issues = s.Parse(v, &d)
			} else {
				d = v
				issues = s.Validate(&d)
			}
			dest, subj = d, v
		case 1:
			v := append([]int64{}, []int64{1, 2}[:l]...)
			for _, e := range v {
				want = want || reflect.DeepEqual(any(e), needle)
			}
			s := z.Slice(z.Int64()).Contains(needle)
			var d []int64
			if mode == 0 {
				issues = s.Parse(v, &d)
			} else {
				d = v
				issues = s.Validate(&d)
			}
			dest, subj = d, v
		case 2:
			v := append([]int32{}, []int32{1, 2}[:l]...)
			for _, e := range v {
				want = want || reflect.DeepEqual(any(e), needle)
			}
			s := z.Slice(z.Int32()).Contains(needle)
			var d []int32
			if mode == 0 {
				issues = s.Parse(v, &d)
			} else {
				d = v
				issues = s.Validate(&d)
			}
			dest, subj = d, v
		default:
			v := append([]float64{}, []float64{1, 2}[:l]...)
			for _, e := range v {
				want = want || reflect.DeepEqual(any(e), needle)
			}
			s := z.Slice(z.Float64()).Contains(needle)
			var d []float64
			if mode == 0 {
				issues = s.Parse(v, &d)
			} else {
				d = v
				issues = s.Validate(&d)
			}
			dest, subj = d, v
		}
	}
	run()
	var flat z.ZogIssueList
	for k, li := range issues {
		if k != "$first" {
			flat = append(flat, li...)
		}
	}
	return c20Check(fmt.Sprintf("Slice(%s).Contains(%T)", []string{"Int", "Int64", "Int32", "Float64"}[item], needle), []string{"Parse", "Validate"}[mode], fmt.Sprintf("%v needle %T(%v)", subj, needle, needle), mode == 1 && l == 0, want, "contained", flat, dest)
}

// Contains on element types for which deep equality and == differ (pointers, values holding
// pointers, slices, structs): membership must be reflect.DeepEqual, element by element.
type c20Pair struct {
	A string
	B int
}
type c20Holder struct{ P *int }

func c20SliceDeep(x *mc.X) *mc.Outcome {
	zh.Reset()
	zh.Install(x, zh.PoolLIFO, zh.OrderSorted)
	mode := x.Choose(2, "mode")
	kind := x.Choose(7, "elemKind")
	ip := func(v int) *int { return &v }
	zone := func(h int) *time.Location { return time.FixedZone("X", h*3600) } // a fresh, deeply equal Location each time
	base := time.Date(2024, 5, 6, 7, 8, 9, 0, time.UTC)
	// mk(i) builds a fresh value of domain element i (two calls never share memory)
	var mk func(i int) any
	var dom int
	var schema *z.SliceSchema
	var name string
	var mkSlice func(vals []any) any // typed slice for Validate / typed input for Parse
	switch kind {
	case 0:
		name, dom = "Slice(Ptr(Int)).Contains(*int)", 3
		mk = func(i int) any { return ip(i) }
		mkSlice = func(vals []any) any {
			out := []*int{}
			for _, v := range vals {
				out = append(out, v.(*int))
			}
			return out
		}
	case 1:
		name, dom = "Slice(Time).Contains(time in a fresh equal Location)", 3
		mk = func(i int) any {
			switch i {
			case 0:
				return base.In(zone(1))
			case 1:
				return base.Add(time.Hour).In(zone(1))
			}
			return base.In(zone(2)) // same instant as 0, another zone: not deeply equal
		}
		mkSlice = func(vals []any) any {
			out := []time.Time{}
			for _, v := range vals {
				out = append(out, v.(time.Time))
			}
			return out
		}
	case 2:
		name, dom = "Slice(Slice(Int)).Contains([]int)", 3
		mk = func(i int) any { return [][]int{{1}, {1, 2}, {}}[i] }
		mkSlice = func(vals []any) any {
			out := [][]int{}
			for _, v := range vals {
				out = append(out, v.([]int))
			}
			return out
		}
	case 3:
		name, dom = "Slice(Struct{a,b}).Contains(struct)", 3
		mk = func(i int) any { return []c20Pair{{"x", 1}, {"x", 2}, {"y", 1}}[i] }
		mkSlice = func(vals []any) any {
			out := []c20Pair{}
			for _, v := range vals {
				out = append(out, v.(c20Pair))
			}
			return out
		}
	case 4:
		name, dom = "Slice(Float64).Contains(float incl. NaN)", 3
		mk = func(i int) any { return []float64{1.5, math.NaN(), 0}[i] }
		mkSlice = func(vals []any) any {
			out := []float64{}
			for _, v := range vals {
				out = append(out, v.(float64))
			}
			return out
		}
	case 5:
		name, dom = "Slice(Ptr(String)).Contains(*string)", 2
		mk = func(i int) any { s := []string{"p", "q"}[i]; return &s }
		mkSlice = func(vals []any) any {
			out := []*string{}
			for _, v := range vals {
				out = append(out, v.(*string))
			}
			return out
		}
	case 6:
		name, dom = "Slice(Custom[holder]).Contains(struct holding a pointer)", 2
		mk = func(i int) any { return c20Holder{P: ip(i)} }
		mkSlice = func(vals []any) any {
			out := []c20Holder{}
			for _, v := range vals {
				out = append(out, v.(c20Holder))
			}
			return out
		}
	}
	needleIdx := x.Choose(dom, "needle")
	l := x.Choose(3, "len")
	var idx []int
	for i := 0; i < l; i++ {
		idx = append(idx, x.Choose(dom, fmt.Sprintf("el%d", i)))
	}
	var vals []any
	for _, i := range idx {
		vals = append(vals, mk(i))
	}
	needle := mk(needleIdx)
	want := false
	for _, v := range vals {
		if reflect.DeepEqual(v, needle) {
			want = true
		}
	}
	switch kind {
	case 0:
		schema = z.Slice(z.Ptr(z.Int())).Contains(needle)
	case 1:
		schema = z.Slice(z.Time()).Contains(needle)
	case 2:
		schema = z.Slice(z.Slice(z.Int())).Contains(needle)
	case 3:
		schema = z.Slice(z.Struct(z.Schema{"a": z.String(), "b": z.Int()})).Contains(needle)
	case 4:
		schema = z.Slice(z.Float64()).Contains(needle)
	case 5:
		schema = z.Slice(z.Ptr(z.String())).Contains(needle)
	case 6:
		schema = z.Slice(z.CustomFunc(func(p *c20Holder, ctx z.Ctx) bool { return true })).Contains(needle)
	}
	typed := mkSlice(vals)
	destPtr := reflect.New(reflect.TypeOf(typed))
	var issues z.ZogIssueMap
	skipped := false
	if mode == 0 {
		// Parse from untyped values: pointers are allocated afresh, so equality can only be deep
		var in []any
		for _, v := range vals {
			rv := reflect.ValueOf(v)
			if rv.Kind() == reflect.Pointer {
				in = append(in, rv.Elem().Interface())
			} else if p, ok := v.(c20Pair); ok {
				in = append(in, map[string]any{"a": p.A, "b": p.B})
			} else {
				in = append(in, v)
			}
		}
		if in == nil {
			in = []any{}
		}
		issues = schema.Parse(in, destPtr.Interface())
		// a zero-valued leaf (0, 0.0) is absent in Parse and is not written: the subject is what was parsed
		want = false
		d := destPtr.Elem()
		for i := 0; i < d.Len(); i++ {
			if reflect.DeepEqual(d.Index(i).Interface(), needle) {
				want = true
			}
		}
	} else {
		destPtr.Elem().Set(reflect.ValueOf(typed))
		skipped = len(vals) == 0
		issues = schema.Validate(destPtr.Interface())
	}
	var flat z.ZogIssueList
	for k, l := range issues {
		if k != "$first" {
			flat = append(flat, l...)
		}
	}
	return c20Check(name, []string{"Parse", "Validate"}[mode], fmt.Sprintf("elements %v needle %d", idx, needleIdx), skipped, want, "contained", flat, nil)
}

// grammar items ---------------------------------------------------------------

func c20Grammar(name, code string, build func(s *z.StringSchema[string], not bool) *z.StringSchema[string], pred func(string) bool, gen func(x *mc.X) string) mc.Scenario {
	return func(x *mc.X) *mc.Outcome {
		zh.Reset()
		zh.Install(x, zh.PoolLIFO, zh.OrderSorted)
		mode := x.Choose(2, "mode")
		not := x.Bool("not")
		subj := gen(x)
		s := build(z.String(), not)
		want := pred(subj)
		nm, cd := name, code
		if not {
			want, nm, cd = !want, "Not()."+name, "not_"+code
		}
		var issues z.ZogIssueList
		var skipped bool
		var dest string
		if mode == 0 {
			skipped = parseAbsent(subj)
			issues = s.Parse(subj, &dest)
		} else {
			dest = subj
			skipped = subj == ""
			issues = s.Validate(&dest)
		}
		return c20Check(nm, []string{"Parse", "Validate"}[mode], fmt.Sprintf("%q", subj), skipped, want, cd, issues, dest)
	}
}

// URLs assembled from parts: scheme × separator × userinfo × host × port × path × query × fragment, every
// combination (also the ones in which a part follows the host directly: "h.co#f", "h.co?q=1", "h.co:80#/f").
var c20URLParts = c20Grammar("URL", "url", func(s *z.StringSchema[string], not bool) *z.StringSchema[string] {
	if not {
		return s.Not().URL()
	}
	return s.URL()
}, refURL, func(x *mc.X) string {
	pick := func(label string, opts ...string) string { return opts[x.Choose(len(opts), label)] }
	return pick("scheme", "http", "h", "", "1h") + pick("sep", "://", ":", ":/", "") + pick("userinfo", "", "u@", "u:p@") +
		pick("host", "h.co", "", "[::1]", "h h") + pick("port", "", ":80", ":x") + pick("path", "", "/", "/p") +
		pick("query", "", "?", "?q=1") + pick("fragment", "", "#", "#f", "#/f")
})

// Match(rx) decides what rx decides: for regexps built by every constructor and with every flag that changes
// what the SAME pattern text means (POSIX syntax, leftmost-longest, multi-line, case folding, ungreedy), the
// schema's verdict is rx.MatchString(subject), on subjects that contain line breaks.
func c20RegexpFlavours(x *mc.X) *mc.Outcome {
	zh.Reset()
	zh.Install(x, zh.PoolLIFO, zh.OrderSorted)
	longest := regexp.MustCompile("^(a|ab)(c|bcd)?$")
	longest.Longest()
	rxs := []struct {
		name string
		rx   *regexp.Regexp
	}{
		{"MustCompilePOSIX(^[a-z]+$)", regexp.MustCompilePOSIX("^[a-z]+$")},
		{"MustCompilePOSIX(^a[^b]c$)", regexp.MustCompilePOSIX("^a[^b]c$")},
		{"MustCompilePOSIX(^(a|ab)(c|bcd)?$)", regexp.MustCompilePOSIX("^(a|ab)(c|bcd)?$")},
		{"MustCompile(^[a-z]+$)", regexp.MustCompile("^[a-z]+$")},
		{"MustCompile((?m)^a$)", regexp.MustCompile("(?m)^a$")},
		{"MustCompile((?s)^a.c$)", regexp.MustCompile("(?s)^a.c$")},
		{"MustCompile((?i)^AZ$)", regexp.MustCompile("(?i)^AZ$")},
		{"MustCompile(^(a|ab)(c|bcd)?$).Longest()", longest},
	}
	r := rxs[x.Choose(len(rxs), "regexp")]
	not := x.Bool("not")
	mode := x.Choose(2, "mode")
	subj := chooseString(x, []string{"a", "b", "c", "d", "z", "A", "\n"}, 4, "sym")
	s := z.String().Match(r.rx)
	name, code, want := "Match("+r.name+")", "match", r.rx.MatchString(subj)
	if not {
		s = z.String().Not().Match(r.rx)
		name, code, want = "Not()."+name, "not_match", !want
	}
	var issues z.ZogIssueList
	var skipped bool
	var dest string
	if mode == 0 {
		skipped = parseAbsent(subj)
		issues = s.Parse(subj, &dest)
	} else {
		dest = subj
		skipped = subj == ""
		issues = s.Validate(&dest)
	}
	return c20Check(name, []string{"Parse", "Validate"}[mode], fmt.Sprintf("%q", subj), skipped, want, code, issues, dest)
}

// reKey runs a scenario of another property's family and files its violations under prop.
func reKey(prop, from string, run mc.Scenario) mc.Scenario {
	return func(x *mc.X) *mc.Outcome {
		out := run(x)
		for _, v := range out.Viol {
			v.Key = prop + ":builtin:" + strings.TrimPrefix(v.Key, from+":")
		}
		return out
	}
}

const c20BaseUUID = "01234567-89ab-cdef-ABCD-EF0123456789"

func c20UUIDGen(pairs bool) func(x *mc.X) string {
	muts := []string{"g", "G", "-", "0", "f", "F", "/", ":", "@", "`", "{", " ", "é", "ſ", "\u212a"}
	return func(x *mc.X) string {
		b := c20BaseUUID
		op := x.Choose(5, "op") // 0 none, 1 substitute, 2 insert, 3 delete, 4 substitute two
		switch op {
		case 1:
			p := x.Choose(36, "pos")
			m := x.Choose(len(muts), "mut")
			b = b[:p] + muts[m] + b[p+1:]
		case 2:
			p := x.Choose(37, "pos")
			m := x.Choose(len(muts), "mut")
			b = b[:p] + muts[m] + b[p:]
		case 3:
			p := x.Choose(36, "pos")
			b = b[:p] + b[p+1:]
		case 4:
			if !pairs {
				// quick tier: the same one-byte substitution at any two positions (defects that cancel out in a count or a checksum)
				p := x.Choose(36, "pos")
				q := x.Choose(36, "pos2")
				m := x.Choose(len(muts), "mut")
				if len(muts[m]) != 1 {
					return b + b
				}
				bb := []byte(b)
				bb[p], bb[q] = muts[m][0], muts[m][0]
				return string(bb)
			}
			p := x.Choose(36, "pos")
			q := x.Choose(36, "pos2")
			m := x.Choose(len(muts), "mut")
			m2 := x.Choose(len(muts), "mut2")
			bb := []byte(b)
			if len(muts[m]) == 1 && len(muts[m2]) == 1 {
				bb[p] = muts[m][0]
				bb[q] = muts[m2][0]
			}
			b = string(bb)
		}
		return b
	}
}

func init() {
	Register(&Prop{
		ID:    "C20",
		Rule:  "one execution = one (built-in test, parameter, subject value, mode, Not-form) case enumerated exhaustively from the boundary alphabets; a case is non-trivial when the node is present (its test actually runs); distinct = distinct (test, parameter, mode, verdict) signatures",
		Floor: 100,
		Bound: func(tier string) string {
			if tier == "thorough" {
				return "general strings ≤4 symbols over 27-symbol boundary alphabet (ASCII class edges, multi-byte letters/digits, non-ASCII punctuation and symbols, runes that fold to ASCII letters under Unicode case folding); email/url grammar strings ≤7 symbols; uuid: all single and double substitutions, insertions, deletions; numeric n×v over boundary sets of all 5 types; time ±1ns in 2 zones and against values carrying a monotonic clock reading, and all pairs over 11 far instants (year 1, year 9999, both edges of the int64-nanosecond range ±1ns, the epoch, the present); slices len 0..3"
			}
			return "general strings ≤3 symbols over 27-symbol boundary alphabet (ASCII class edges, multi-byte letters/digits, non-ASCII punctuation and symbols, runes that fold to ASCII letters under Unicode case folding); email/url grammar strings ≤5 symbols; uuid: all single substitutions, insertions, deletions; numeric n×v over boundary sets of all 5 types; time ±1ns in 2 zones and against values carrying a monotonic clock reading, and all pairs over 11 far instants (year 1, year 9999, both edges of the int64-nanosecond range ±1ns, the epoch, the present); slices len 0..3"
		},
		Assumptions: []string{
			"reference predicates are the documented ones (len() in bytes, Go comparisons, strings.*, ASCII classes, stated grammars); URL reference uses net/url itself (scheme and host non-empty)",
			"values outside the enumerated alphabets are not examined (no sampling in this family)",
		},
		Items: func(tier string) []Item {
			maxLen, gLen := 3, 5
			if tier == "thorough" {
				maxLen, gLen = 4, 7
			}
			var items []Item
			for _, t := range c20StringTests() {
				items = append(items, Item{Name: "str/" + t.name, Run: c20StringItem(t, false, c20Alphabet, maxLen), MaxDevs: -1})
				if !t.noNot {
					items = append(items, Item{Name: "str/Not." + t.name, Run: c20StringItem(t, true, c20Alphabet, maxLen), MaxDevs: -1})
				}
			}
			items = append(items, Item{Name: "named-types", MaxDevs: -1, Run: c20NamedScenario})
			for _, t := range c20StringTests() {
				items = append(items, Item{Name: "siblings/" + t.name, Run: c20SiblingItem(t, false, c20Alphabet), MaxDevs: -1})
				if !t.noNot {
					items = append(items, Item{Name: "siblings/Not." + t.name, Run: c20SiblingItem(t, true, c20Alphabet), MaxDevs: -1})
				}
			}
			// "ſ" (U+017F) and "K" (U+212A, Kelvin) fold to s and k under Unicode case folding: they are not ASCII letters
			emailAlpha := []string{"a", "1", "@", ".", "-", "+", "_", "ſ", "\u212a"}
			items = append(items, Item{Name: "grammar/Email", MaxDevs: -1, Run: c20Grammar("Email", "email", func(s *z.StringSchema[string], not bool) *z.StringSchema[string] {
				if not {
					return s.Not().Email()
				}
				return s.Email()
			}, refEmail, func(x *mc.X) string { return chooseString(x, emailAlpha, gLen, "sym") })})
			// long addresses: total lengths around every power of two and the mail-transport limits (64, 254, 255, 256, 320, 1024, 70000)
			items = append(items, Item{Name: "grammar/EmailTotalLen", MaxDevs: -1, Run: c20Grammar("Email", "email", func(s *z.StringSchema[string], not bool) *z.StringSchema[string] {
				if not {
					return s.Not().Email()
				}
				return s.Email()
			}, refEmail, func(x *mc.X) string {
				total := []int{63, 64, 65, 127, 128, 129, 253, 254, 255, 256, 257, 319, 320, 321, 1023, 1024, 1025, 70000}[x.Choose(18, "totalLen")]
				dom := "@" + strings.Repeat("d", 20) + "." + strings.Repeat("e", 20) + ".com"
				if total <= len(dom)+1 {
					dom = "@d.co"
				}
				bad := []string{"", " ", "@"}[x.Choose(3, "defect")] // well-formed, or one defect in the local part
				local := strings.Repeat("a", total-len(dom)-len(bad)) + bad
				return local + dom
			})})
			// long labels (63/64 boundary)
			items = append(items, Item{Name: "grammar/EmailLabelLen", MaxDevs: -1, Run: c20Grammar("Email", "email", func(s *z.StringSchema[string], not bool) *z.StringSchema[string] {
				if not {
					return s.Not().Email()
				}
				return s.Email()
			}, refEmail, func(x *mc.X) string {
				n := 61 + x.Choose(5, "labellen")
				tail := []string{"", ".b", "-", ".-b"}[x.Choose(4, "tail")]
				return "a@" + strings.Repeat("x", n) + tail
			})})
			urlAlpha := []string{"h", ":", "/", ".", " ", "%", "?", "#", "@"}
			if tier != "thorough" {
				urlAlpha = urlAlpha[:7]
			}
			items = append(items, Item{Name: "grammar/URL", MaxDevs: -1, Run: c20Grammar("URL", "url", func(s *z.StringSchema[string], not bool) *z.StringSchema[string] {
				if not {
					return s.Not().URL()
				}
				return s.URL()
			}, refURL, func(x *mc.X) string { return chooseString(x, urlAlpha, gLen, "sym") })})
			items = append(items, Item{Name: "grammar/URLParts", MaxDevs: -1, Run: c20URLParts})
			items = append(items, Item{Name: "match/regexp-flavours", MaxDevs: -1, Run: c20RegexpFlavours})
			items = append(items, Item{Name: "grammar/UUID", MaxDevs: -1, Run: c20Grammar("UUID", "uuid", func(s *z.StringSchema[string], not bool) *z.StringSchema[string] {
				if not {
					return s.Not().UUID()
				}
				return s.UUID()
			}, refUUID, c20UUIDGen(tier == "thorough"))})
			items = append(items, Item{Name: "num/int", MaxDevs: -1, Run: c20NumItem(func() *z.NumberSchema[int] { return z.Int() }, []int{math.MinInt64, math.MinInt64 + 1, -2, -1, 0, 1, 2, math.MaxInt64 - 1, math.MaxInt64}, "Int")})
			items = append(items, Item{Name: "num/int32", MaxDevs: -1, Run: c20NumItem(func() *z.NumberSchema[int32] { return z.Int32() }, []int32{math.MinInt32, math.MinInt32 + 1, -2, -1, 0, 1, 2, math.MaxInt32 - 1, math.MaxInt32}, "Int32")})
			items = append(items, Item{Name: "num/int64", MaxDevs: -1, Run: c20NumItem(func() *z.NumberSchema[int64] { return z.Int64() }, []int64{math.MinInt64, math.MinInt64 + 1, -2, -1, 0, 1, 2, math.MaxInt64 - 1, math.MaxInt64}, "Int64")})
			items = append(items, Item{Name: "num/float64", MaxDevs: -1, Run: c20NumItem(func() *z.NumberSchema[float64] { return z.Float64() }, []float64{math.Inf(-1), -math.MaxFloat64, -1.5, -1, math.Copysign(0, -1), 0, math.SmallestNonzeroFloat64, 1, math.Nextafter(1, 2), 1.5, math.MaxFloat64, math.Inf(1), math.NaN()}, "Float64")})
			items = append(items, Item{Name: "num/float32", MaxDevs: -1, Run: c20NumItem(func() *z.NumberSchema[float32] { return z.Float32() }, []float32{float32(math.Inf(-1)), -math.MaxFloat32, -1.5, -1, float32(math.Copysign(0, -1)), 0, math.SmallestNonzeroFloat32, 1, math.Nextafter32(1, 2), 1.5, math.MaxFloat32, float32(math.Inf(1)), float32(math.NaN())}, "Float32")})
			items = append(items, Item{Name: "bool", MaxDevs: -1, Run: c20Bool})
			items = append(items, Item{Name: "time", MaxDevs: -1, Run: c20Time})
			items = append(items, Item{Name: "time/far-instants", MaxDevs: -1, Run: c20TimeFar})
			items = append(items, Item{Name: "slice/string", MaxDevs: -1, Run: c20Slice})
			items = append(items, Item{Name: "slice/int", MaxDevs: -1, Run: c20SliceInt})
			items = append(items, Item{Name: "slice/needle-types", MaxDevs: -1, Run: c20SliceNeedleTypes})
			items = append(items, Item{Name: "slice/contains-deep-equality", MaxDevs: -1, Run: c20SliceDeep})
			return items
		},
	})
}
