package scen

// C19 — executions never modify the schema or the input.
// Sequences of executions on one schema object with destination-mutating
// PostTransforms; deep snapshots of every value handed to a builder and of
// every input are compared after every call; destinations must not share
// backing memory with schema-owned values; a repeated call must observe what
// the first identical call observed.

import (
	"fmt"
	"net/http"
	"net/http/httptest"
	"reflect"
	"strings"
	"time"

	z "github.com/Oudwins/zog"
	"github.com/Oudwins/zog/conf"
	"github.com/Oudwins/zog/zhttp"
	"github.com/Oudwins/zog/i18n/en"
	"github.com/Oudwins/zog/zconst"
	"zogverif/mc"
	"zogverif/zh"
)

type c19Owned struct {
	name string
	val  any // value handed to a builder (kept by reference)
	snap string
}

type c19Event struct {
	name string
	// run executes one call; returns canonical observation, the input value (for snapshotting) and the destination
	run func() (obs string, dest any)
}

type c19Schema struct {
	name   string
	owned  []*c19Owned
	events []c19Event
	inputs []*c19Owned // inputs handed to Parse (kept across events, must never change)
	objects []*c19Owned // the schema objects themselves (every field, exported or not, at any depth)
}

func c19MutStrings(ptr any, ctx z.Ctx) error {
	s := ptr.(*[]string)
	if len(*s) > 0 {
		(*s)[0] = "MUTATED"
	}
	*s = append(*s, "APPENDED")
	return nil
}

func c19MutInts(ptr any, ctx z.Ctx) error {
	s := ptr.(*[]int)
	for i := range *s {
		(*s)[i] = -1000 - i
	}
	*s = append(*s, 777)
	return nil
}

func own(list *[]*c19Owned, name string, v any) {
	*list = append(*list, &c19Owned{name: name, val: v, snap: zh.CanonStringHidden(v)})
}

func c19Obs(parts ...any) string {
	var sb strings.Builder
	for _, p := range parts {
		sb.WriteString(zh.CanonString(p))
		sb.WriteString(" ;; ")
	}
	return sb.String()
}

func c19Schemas() []func() *c19Schema {
	return []func() *c19Schema{
		func() *c19Schema {
			s := &c19Schema{name: "Slice(String).Default([d1 d2]).PostTransform(mutate)"}
			def := []string{"d1", "d2"}
			own(&s.owned, "slice default", def)
			sc := z.Slice(z.String()).Default(def).PostTransform(c19MutStrings)
			in := []any{"p", "q"}
			inTyped := []string{"p", "q", "r"}
			own(&s.inputs, "input []any", in)
			own(&s.inputs, "input []string", inTyped)
			own(&s.objects, "schema object", sc)
			s.events = []c19Event{
				{"Parse(nil) default taken", func() (string, any) { var d []string; m := sc.Parse(nil, &d); return c19Obs(m, d), d }},
				{"Parse([]any{p,q})", func() (string, any) { var d []string; m := sc.Parse(in, &d); return c19Obs(m, d), d }},
				{"Parse([]string{p,q,r})", func() (string, any) { var d []string; m := sc.Parse(inTyped, &d); return c19Obs(m, d), d }},
				{"Validate(nil slice) default taken", func() (string, any) { var d []string; m := sc.Validate(&d); return c19Obs(m, d), d }},
				{"Validate([v])", func() (string, any) { d := []string{"v"}; m := sc.Validate(&d); return c19Obs(m, d), d }},
			}
			return s
		},
		func() *c19Schema {
			s := &c19Schema{name: "Struct{l: Slice(Int).Default([1 2 3]).Post(mutate), s: String.Default(x).Catch(c).OneOf(list), t: Time.Default}"}
			def := []int{1, 2, 3}
			list := []string{"x", "y"}
			tdef := time.Date(2024, 1, 2, 3, 4, 5, 0, time.UTC)
			own(&s.owned, "slice default", def)
			own(&s.owned, "OneOf list", list)
			sc := z.Struct(z.Schema{
				"l": z.Slice(z.Int()).Default(def).PostTransform(c19MutInts),
				"s": z.String().Default("x").Catch("c").OneOf(list).PostTransform(func(p any, ctx z.Ctx) error { *(p.(*string)) = "MUT"; return nil }),
				"t": z.Time().Default(tdef).PostTransform(func(p any, ctx z.Ctx) error { *(p.(*time.Time)) = time.Time{}; return nil }),
			}).PostTransform(func(p any, ctx z.Ctx) error {
				d := p.(*c19D2)
				d.L = append(d.L, 888)
				return nil
			})
			in := map[string]any{"l": []any{7, 8}, "s": "y", "t": tdef.Add(time.Hour)}
			inEmpty := map[string]any{}
			own(&s.inputs, "input map", in)
			own(&s.inputs, "input empty map", inEmpty)
			own(&s.objects, "schema object", sc)
			s.events = []c19Event{
				{"Parse({}) defaults taken", func() (string, any) { var d c19D2; m := sc.Parse(inEmpty, &d); return c19Obs(m, d), d.L }},
				{"Parse(full map)", func() (string, any) { var d c19D2; m := sc.Parse(in, &d); return c19Obs(m, d), d.L }},
				{"Validate(zero struct) defaults taken", func() (string, any) { var d c19D2; m := sc.Validate(&d); return c19Obs(m, d), d.L }},
				{"Validate(populated)", func() (string, any) {
					d := c19D2{L: []int{5}, S: "y", T: tdef}
					m := sc.Validate(&d)
					return c19Obs(m, d), d.L
				}},
			}
			return s
		},
		func() *c19Schema {
			s := &c19Schema{name: "defaults without elements but with spare capacity (arr[:0], make([]T, 0, n)); PostTransforms append"}
			backing := []string{"B0", "B1", "B2"}
			def := backing[:0]
			own(&s.owned, "array the default was sliced from", backing)
			own(&s.owned, "slice default (len 0, cap 3)", def)
			sc := z.Slice(z.String()).Default(def).PostTransform(c19MutStrings)
			inner := make([]int, 0, 4)
			ndef := [][]int{inner, {1}}
			own(&s.owned, "nested default with an empty inner list of capacity 4", ndef)
			nsc := z.Slice(z.Slice(z.Int())).Default(ndef).PostTransform(func(p any, ctx z.Ctx) error {
				d := p.(*[][]int)
				for i := range *d {
					(*d)[i] = append((*d)[i], 99)
				}
				return nil
			})
			own(&s.objects, "schema object", sc)
			own(&s.objects, "nested schema object", nsc)
			s.events = []c19Event{
				{"Parse(nil) default taken", func() (string, any) { var d []string; m := sc.Parse(nil, &d); return c19Obs(m, d), d }},
				{"Validate(nil slice) default taken", func() (string, any) { var d []string; m := sc.Validate(&d); return c19Obs(m, d), d }},
				{"Validate(empty slice) default taken", func() (string, any) { d := []string{}; m := sc.Validate(&d); return c19Obs(m, d), d }},
				{"nested Parse(nil) default taken", func() (string, any) { var d [][]int; m := nsc.Parse(nil, &d); return c19Obs(m, d), d }},
				{"nested Validate(nil) default taken", func() (string, any) { var d [][]int; m := nsc.Validate(&d); return c19Obs(m, d), d }},
			}
			return s
		},
		func() *c19Schema {
			s := &c19Schema{name: "Go pointers as input to Ptr schemas whose pointee is caught / transformed; pointer elements of inputs and defaults"}
			age, name, e1, e2, d1, d2 := -5, "ann", "p", "q", "a", "b"
			pAge, pName := &age, &name
			elems := []*string{&e1, &e2}
			def := []*string{&d1, &d2}
			rec := map[string]any{"age": pAge, "name": pName}
			own(&s.inputs, "input *int", pAge)
			own(&s.inputs, "input *string", pName)
			own(&s.inputs, "input []*string", elems)
			own(&s.inputs, "input map holding pointers", rec)
			own(&s.owned, "slice default of pointers", def)
			up := func(p any, ctx z.Ctx) error { q := p.(*string); *q = strings.ToUpper(*q) + "!"; return nil }
			sAge := z.Ptr(z.Int().GT(0).Catch(18))
			sName := z.Ptr(z.String().PostTransform(up))
			sRec := z.Struct(z.Schema{"age": z.Ptr(z.Int().GT(0).Catch(18)), "name": z.Ptr(z.String().PostTransform(up))})
			sList := z.Slice(z.Ptr(z.String().PostTransform(up))).Default(def)
			type R struct {
				Age  *int
				Name *string
			}
			show := func(ps []*string) []string {
				var o []string
				for _, p := range ps {
					if p == nil {
						o = append(o, "<nil>")
					} else {
						o = append(o, *p)
					}
				}
				return o
			}
			own(&s.objects, "Ptr(Int) schema", sAge)
			own(&s.objects, "list schema", sList)
			s.events = []c19Event{
				{"Ptr(Int.Catch).Parse(*int failing)", func() (string, any) { var d *int; m := sAge.Parse(pAge, &d); return c19Obs(m, *d), nil }},
				{"Ptr(String.Post).Parse(*string)", func() (string, any) { var d *string; m := sName.Parse(pName, &d); return c19Obs(m, *d), nil }},
				{"Struct{age,name}.Parse(map holding pointers)", func() (string, any) {
					var d R
					m := sRec.Parse(rec, &d)
					return c19Obs(m, *d.Age, *d.Name), nil
				}},
				{"Slice(Ptr(String.Post)).Parse([]*string)", func() (string, any) { var d []*string; m := sList.Parse(elems, &d); return c19Obs(m, show(d)), nil }},
				{"Slice(Ptr(String.Post)).Parse(nil) default taken", func() (string, any) { var d []*string; m := sList.Parse(nil, &d); return c19Obs(m, show(d)), nil }},
			}
			return s
		},
		func() *c19Schema {
			s := &c19Schema{name: "defaults taken after an earlier node of the same execution has failed (earlier list item, sibling field)"}
			def := []string{"d1", "d2"}
			def2 := []string{"e1"}
			own(&s.owned, "tags default of the list items", def)
			own(&s.owned, "list default of the record", def2)
			type It struct {
				Name string
				Tags []string
			}
			type Rec struct {
				A string
				L []string
			}
			items := z.Slice(z.Struct(z.Schema{"name": z.String().Min(3), "tags": z.Slice(z.String()).Default(def)}))
			rec := z.Struct(z.Schema{"a": z.String().Min(3), "l": z.Slice(z.String()).Default(def2)})
			own(&s.objects, "list schema", items)
			own(&s.objects, "record schema", rec)
			last := func(d []It) any {
				if len(d) == 0 {
					return nil
				}
				return d[len(d)-1].Tags
			}
			s.events = []c19Event{
				{"Validate([failing item, item taking the default])", func() (string, any) {
					d := []It{{Name: "x"}, {Name: "okay"}}
					m := items.Validate(&d)
					return c19Obs(m, d), last(d)
				}},
				{"Validate([item taking the default])", func() (string, any) { d := []It{{Name: "okay"}}; m := items.Validate(&d); return c19Obs(m, d), last(d) }},
				{"Parse([failing item, item taking the default])", func() (string, any) {
					var d []It
					m := items.Parse([]any{map[string]any{"name": "x"}, map[string]any{"name": "okay"}}, &d)
					return c19Obs(m, d), last(d)
				}},
				{"Validate(record: failing sibling, list taking the default)", func() (string, any) { d := Rec{A: "x"}; m := rec.Validate(&d); return c19Obs(m, d), d.L }},
				{"Parse(record: failing sibling, list taking the default)", func() (string, any) {
					var d Rec
					m := rec.Parse(map[string]any{"a": "x"}, &d)
					return c19Obs(m, d), d.L
				}},
			}
			return s
		},
		func() *c19Schema {
			s := &c19Schema{name: "Slice(Slice(Int)).Default([[1] [2 3]]).PostTransform(mutate inner)"}
			def := [][]int{{1}, {2, 3}}
			own(&s.owned, "nested slice default", def)
			mut := func(p any, ctx z.Ctx) error {
				d := p.(*[][]int)
				for i := range *d {
					for j := range (*d)[i] {
						(*d)[i][j] = -5
					}
					(*d)[i] = append((*d)[i], 99)
				}
				*d = append(*d, []int{42})
				return nil
			}
			sc := z.Slice(z.Slice(z.Int())).Default(def).PostTransform(mut)
			in := []any{[]any{1, 2}, []int{3}}
			own(&s.inputs, "input nested", in)
			own(&s.objects, "schema object", sc)
			s.events = []c19Event{
				{"Parse(nil) default taken", func() (string, any) { var d [][]int; m := sc.Parse(nil, &d); return c19Obs(m, d), d }},
				{"Parse(nested input)", func() (string, any) { var d [][]int; m := sc.Parse(in, &d); return c19Obs(m, d), d }},
				{"Validate(nil) default taken", func() (string, any) { var d [][]int; m := sc.Validate(&d); return c19Obs(m, d), d }},
			}
			return s
		},
		func() *c19Schema {
			s := &c19Schema{name: "zhttp form / query requests parsed more than once (the request is the input)"}
			type D struct {
				Name string   `form:"name" query:"name"`
				Tags []string `form:"tags[]" query:"tags[]"`
				Ids  []int    `form:"ids" query:"ids"`
			}
			sc := z.Struct(z.Schema{
				"name": z.String().Default("anon").PostTransform(func(p any, ctx z.Ctx) error { *(p.(*string)) += "!"; return nil }),
				"tags": z.Slice(z.String().Default("none").Catch("bad").Min(1)).PostTransform(c19MutStrings),
				"ids":  z.Slice(z.Int().GT(0).Catch(-1)).PostTransform(c19MutInts),
			})
			own(&s.objects, "schema object", sc)
			mkForm := func(body string) *http.Request {
				r := httptest.NewRequest(http.MethodPost, "/?ids=5&tags%5B%5D=q", strings.NewReader(body))
				r.Header.Set("Content-Type", "application/x-www-form-urlencoded")
				r.ParseForm() // as a middleware would; the parsed values are cached on the request
				return r
			}
			r1 := mkForm("name=&tags%5B%5D=&tags%5B%5D=a&tags%5B%5D=b&ids=0&ids=7")
			r2 := mkForm("tags%5B%5D=a&tags%5B%5D=&tags%5B%5D=&ids=1")
			rq := httptest.NewRequest(http.MethodGet, "/?name=x&tags%5B%5D=&tags%5B%5D=a&ids=0&ids=3", nil)
			own(&s.inputs, "request 1 form values", r1.Form)
			own(&s.inputs, "request 1 body values", r1.PostForm)
			own(&s.inputs, "request 2 form values", r2.Form)
			own(&s.inputs, "query request URL", rq.URL.RawQuery)
			s.events = []c19Event{
				{"Parse(form request 1: blank entry before others)", func() (string, any) { var d D; m := sc.Parse(zhttp.Request(r1), &d); return c19Obs(m, d), d.Tags }},
				{"Parse(form request 2: blank entries after others)", func() (string, any) { var d D; m := sc.Parse(zhttp.Request(r2), &d); return c19Obs(m, d), d.Tags }},
				{"Parse(query request)", func() (string, any) { var d D; m := sc.Parse(zhttp.Request(rq), &d); return c19Obs(m, d), d.Tags }},
			}
			return s
		},
		func() *c19Schema {
			s := &c19Schema{name: "Slice(Slice(Slice(Float64))).Default(three levels).PostTransform(mutate the innermost rows)"}
			def := [][][]float64{{{1, 2}, {3, 4}}, {{5, 6}}}
			own(&s.owned, "three-level slice default", def)
			mut := func(p any, ctx z.Ctx) error {
				d := p.(*[][][]float64)
				for i := range *d {
					for j := range (*d)[i] {
						for k := range (*d)[i][j] {
							(*d)[i][j][k] = 100
						}
						(*d)[i][j] = append((*d)[i][j], 7)
					}
				}
				return nil
			}
			sc := z.Slice(z.Slice(z.Slice(z.Float64()))).Default(def).PostTransform(mut)
			own(&s.objects, "schema object", sc)
			s.events = []c19Event{
				{"Validate(nil) default taken", func() (string, any) { var d [][][]float64; m := sc.Validate(&d); return c19Obs(m, d), d }},
				{"Validate(empty) default taken", func() (string, any) { d := [][][]float64{}; m := sc.Validate(&d); return c19Obs(m, d), d }},
				{"Parse(nil) default taken", func() (string, any) { var d [][][]float64; m := sc.Parse(nil, &d); return c19Obs(m, d), d }},
			}
			return s
		},
		func() *c19Schema {
			s := &c19Schema{name: "Ptr(Slice(String).Default).NotNil + Slice.Contains(param) + Int.OneOf"}
			def := []string{"a", "b"}
			nums := []int{9, 3, 7, 1, 8, 2, 6, 4, 5, 0, 11, 10} // twelve entries, not in sorted order
			own(&s.owned, "slice default behind pointer", def)
			own(&s.owned, "Int OneOf list", nums)
			sc := z.Struct(z.Schema{
				"p": z.Ptr(z.Slice(z.String()).Default(def).Contains("a").PostTransform(c19MutStrings)),
				"n": z.Int().OneOf(nums).Default(2).PostTransform(func(p any, ctx z.Ctx) error { *(p.(*int)) = 12345; return nil }),
			})
			in := map[string]any{"p": []string{"a", "z"}, "n": 3}
			inDef := map[string]any{"p": "", "n": nil}
			own(&s.inputs, "input map with typed slice", in)
			own(&s.inputs, "input map absent values", inDef)
			own(&s.objects, "schema object", sc)
			s.events = []c19Event{
				{"Parse(present)", func() (string, any) {
					var d c19D4
					m := sc.Parse(in, &d)
					var inner any
					if d.P != nil {
						inner = *d.P
					}
					return c19Obs(m, d), inner
				}},
				{"Parse(absent: pointer stays nil)", func() (string, any) { var d c19D4; m := sc.Parse(inDef, &d); return c19Obs(m, d), nil }},
				{"Validate(pointer to empty slice: default taken)", func() (string, any) {
					e := []string{}
					d := c19D4{P: &e}
					m := sc.Validate(&d)
					return c19Obs(m, d), *d.P
				}},
			}
			return s
		},
		func() *c19Schema {
			s := &c19Schema{name: "Slice(String.PostTransform(mutate element)).Default([a b]) — no PostTransform on the slice itself"}
			def := []string{"a", "b"}
			own(&s.owned, "slice default", def)
			sc := z.Slice(z.String().PostTransform(func(p any, ctx z.Ctx) error { *(p.(*string)) += "!"; return nil })).Default(def)
			own(&s.objects, "schema object", sc)
			s.events = []c19Event{
				{"Validate(nil) default taken", func() (string, any) { var d []string; m := sc.Validate(&d); return c19Obs(m, d), d }},
				{"Validate(empty) default taken", func() (string, any) { d := []string{}; m := sc.Validate(&d); return c19Obs(m, d), d }},
				{"Parse(nil) default taken", func() (string, any) { var d []string; m := sc.Parse(nil, &d); return c19Obs(m, d), d }},
			}
			return s
		},
		func() *c19Schema {
			s := &c19Schema{name: "Struct{l: Slice(Int).Default([1 2 3])}.PostTransform(mutate l) and plain Slice(Int).Default with caller-side mutation"}
			def := []int{1, 2, 3}
			def2 := []int{7, 8}
			own(&s.owned, "slice default in struct", def)
			own(&s.owned, "plain slice default", def2)
			type D struct{ L []int }
			sc := z.Struct(z.Schema{"l": z.Slice(z.Int()).Default(def)}).PostTransform(func(p any, ctx z.Ctx) error {
				d := p.(*D)
				for i := range d.L {
					d.L[i] = -1
				}
				return nil
			})
			plain := z.Slice(z.Int()).Default(def2)
			own(&s.objects, "second schema object", plain)
			own(&s.objects, "schema object", sc)
			s.events = []c19Event{
				{"Struct.Validate(zero) default taken, struct PostTransform mutates l", func() (string, any) { var d D; m := sc.Validate(&d); return c19Obs(m, d), d.L }},
				{"Struct.Parse({}) default taken", func() (string, any) { var d D; m := sc.Parse(map[string]any{}, &d); return c19Obs(m, d), d.L }},
				{"plain Slice.Validate(nil) default taken, caller then writes into the result", func() (string, any) {
					var d []int
					m := plain.Validate(&d)
					o := c19Obs(m, d)
					cp := append([]int(nil), d...)
					for i := range d {
						d[i] = 99 // the caller owns the validated value
					}
					return o, cp
				}},
				{"plain Slice.Validate(nil): aliasing only", func() (string, any) { var d []int; m := plain.Validate(&d); return c19Obs(m, d), d }},
			}
			return s
		},
		func() *c19Schema {
			s := &c19Schema{name: "String.Min(5).OneOf(list) and String.Min(5).Catch: failing runs whose issues are collected / swallowed"}
			list := []string{"zeta-eta", "alpha-beta", "omega-psi", "gamma-delta", "kappa-iota", "beta-alpha", "theta-rho", "delta-gamma", "sigma-tau", "lambda-mu", "brown-fox", "upsilon-chi", "aleph-null"} // thirteen entries, not in sorted order (long enough for anything that abbreviates, sorts or indexes long lists)
			prm := map[string]any{"custom": "param"}
			own(&s.owned, "OneOf list", list)
			own(&s.owned, "Params option map", prm)
			sc := z.String().Min(5).OneOf(list).TestFunc(func(v any, ctx z.Ctx) bool { return false }, z.Params(prm), z.IssueCode("custom"))
			caught := z.String().Min(5).OneOf(list).Catch("alpha-beta")
			own(&s.objects, "second schema object", caught)
			own(&s.objects, "schema object", sc)
			s.events = []c19Event{
				{"Parse(ab) fails three tests", func() (string, any) { var d string; l := sc.Parse("ab", &d); return c19Obs(l, d), nil }},
				{"Parse(ab) fails, issues collected", func() (string, any) {
					var d string
					l := sc.Parse("ab", &d)
					o := c19Obs(l, d)
					z.Issues.CollectList(l)
					return o, nil
				}},
				{"Validate(ab) fails, issues sanitized and collected", func() (string, any) {
					d := "ab"
					l := sc.Validate(&d)
					o := c19Obs(l, d)
					z.Issues.SanitizeListAndCollect(l)
					return o, nil
				}},
				{"catching twin swallows the same failures", func() (string, any) { var d string; l := caught.Parse("ab", &d); return c19Obs(l, d), nil }},
			}
			return s
		},
		func() *c19Schema {
			s := &c19Schema{name: "Custom[[]int] whose function mutates its argument"}
			sc := z.CustomFunc(func(p *[]int, ctx z.Ctx) bool {
				for i := range *p {
					(*p)[i] = -9
				}
				return true
			})
			in := []int{1, 2, 3}
			own(&s.inputs, "input []int", in)
			own(&s.objects, "schema object", sc)
			s.events = []c19Event{
				{"Parse([]int{1,2,3})", func() (string, any) { var d []int; m := sc.Parse(in, &d); return c19Obs(m, d), nil }},
			}
			return s
		},
		func() *c19Schema {
			s := &c19Schema{name: "Struct input given as Go struct / pointer / map[string]string"}
			sc := z.Struct(z.Schema{"A": z.String().PostTransform(func(p any, ctx z.Ctx) error { *(p.(*string)) = "MUT"; return nil }), "L": z.Slice(z.String()).PostTransform(c19MutStrings)})
			type inS struct {
				A string
				L []string
			}
			in := inS{A: "x", L: []string{"l1", "l2"}}
			inP := &inS{A: "y", L: []string{"m1"}}
			inM := map[string]string{"A": "z", "L": "single"}
			own(&s.inputs, "input struct", &in)
			own(&s.inputs, "input *struct", inP)
			own(&s.inputs, "input map[string]string", inM)
			own(&s.objects, "schema object", sc)
			s.events = []c19Event{
				{"Parse(struct value)", func() (string, any) { var d c19D6; m := sc.Parse(in, &d); return c19Obs(m, d), d.L }},
				{"Parse(*struct)", func() (string, any) { var d c19D6; m := sc.Parse(inP, &d); return c19Obs(m, d), d.L }},
				{"Parse(map[string]string)", func() (string, any) { var d c19D6; m := sc.Parse(inM, &d); return c19Obs(m, d), d.L }},
			}
			return s
		},
		func() *c19Schema {
			s := &c19Schema{name: "map[string]any input whose nested records are typed maps, named maps, Go structs and pointers to structs"}
			type owner struct {
				Name string
				Age  int
			}
			type named map[string]any
			rec := func() z.ZogSchema { return z.Struct(z.Schema{"Name": z.String().Min(2), "Age": z.Int().GT(0)}) }
			sc := z.Struct(z.Schema{
				"labels": z.Struct(z.Schema{"Name": z.String().Min(2)}),
				"owner":  rec(),
				"backup": z.Ptr(rec()),
			})
			sc2 := z.Struct(z.Schema{
				"extra": rec(),
				"list":  z.Slice(rec()),
			})
			type D struct {
				Labels struct{ Name string }
				Owner  owner
				Backup *owner
			}
			type D2 struct {
				Extra owner
				List  []owner
			}
			in := map[string]any{
				"labels": map[string]string{"Name": "team-a"},
				"owner":  owner{"ann", 30},
				"backup": &owner{"bob", 40},
				"extra":  named{"Name": "cy", "Age": 5},
				"list":   []any{owner{"ed", 7}, map[string]string{"Name": "fy"}},
			}
			own(&s.inputs, "input map holding typed nested records", in)
			own(&s.objects, "schema object", sc)
			own(&s.objects, "second schema object", sc2)
			s.events = []c19Event{
				{"Parse(map holding typed nested records)", func() (string, any) { var d D; m := sc.Parse(in, &d); return c19Obs(m, d), nil }},
				{"Parse(the same map: named-map record and a list of typed records)", func() (string, any) { var d D2; m := sc2.Parse(in, &d); return c19Obs(m, d), nil }},
				{"Parse(the labels of the same input as a typed map)", func() (string, any) {
					var d map[string]string
					m := z.CustomFunc(func(p *map[string]string, c z.Ctx) bool { return len(*p) == 1 }).Parse(in["labels"], &d)
					return c19Obs(m, d), nil
				}},
			}
			return s
		},
		func() *c19Schema {
			s := &c19Schema{name: "slice defaults whose Go type differs from the destination's by name only (Default([]string) into a named list type and the reverse); PostTransforms and the caller mutate what they are given"}
			def := []string{"a", "b"}
			ndef := c19Tags{"x", "y"}
			own(&s.owned, "plain slice default for a named destination", def)
			own(&s.owned, "named slice default for a plain destination", ndef)
			mutNamed := func(p any, ctx z.Ctx) error {
				t := p.(*c19Tags)
				if len(*t) > 0 {
					(*t)[0] += "!"
				}
				return nil
			}
			rec := z.Struct(z.Schema{"tags": z.Slice(z.String()).Default(def).PostTransform(mutNamed)})
			top := z.Slice(z.String()).Default(ndef).PostTransform(c19MutStrings)
			topNamed := z.Slice(z.String()).Default(def)
			own(&s.objects, "record schema", rec)
			own(&s.objects, "top-level schema", top)
			own(&s.objects, "top-level schema with a named destination", topNamed)
			inEmpty := map[string]any{}
			own(&s.inputs, "input empty map", inEmpty)
			s.events = []c19Event{
				{"record Validate(zero) default taken, caller edits the result", func() (string, any) {
					var d c19TagDoc
					m := rec.Validate(&d)
					o := c19Obs(m, d)
					if len(d.Tags) > 1 {
						d.Tags[1] = "changed by caller"
					}
					return o, []string(d.Tags)
				}},
				{"record Parse({}) default taken, caller edits the result", func() (string, any) {
					var d c19TagDoc
					m := rec.Parse(inEmpty, &d)
					o := c19Obs(m, d)
					if len(d.Tags) > 1 {
						d.Tags[1] = "changed by caller"
					}
					return o, []string(d.Tags)
				}},
				{"top Validate(nil slice) named default taken", func() (string, any) { var d []string; m := top.Validate(&d); return c19Obs(m, d), d }},
				{"top Validate(empty slice) named default taken", func() (string, any) { d := []string{}; m := top.Validate(&d); return c19Obs(m, d), d }},
				{"top Parse(nil) named default taken", func() (string, any) { var d []string; m := top.Parse(nil, &d); return c19Obs(m, d), d }},
				{"top Validate(nil named slice) plain default taken, caller edits the result", func() (string, any) {
					var d c19Tags
					m := topNamed.Validate(&d)
					o := c19Obs(m, d)
					if len(d) > 0 {
						d[0] = "changed by caller"
					}
					return o, []string(d)
				}},
			}
			return s
		},
	}
}

type c19Tags []string
type c19TagDoc struct{ Tags c19Tags }

type c19D2 struct {
	L []int
	S string
	T time.Time
}
type c19D4 struct {
	P *[]string
	N int
}
type c19D6 struct {
	A string
	L []string
}

func sharesMemory(a, b any) bool {
	va, vb := reflect.ValueOf(a), reflect.ValueOf(b)
	if !va.IsValid() || !vb.IsValid() || va.Kind() != reflect.Slice || vb.Kind() != reflect.Slice {
		return false
	}
	if va.Cap() == 0 || vb.Cap() == 0 {
		return false
	}
	if va.Pointer() == vb.Pointer() {
		return true
	}
	// nested slices
	if va.Type().Elem().Kind() == reflect.Slice && vb.Type().Elem().Kind() == reflect.Slice {
		for i := 0; i < va.Len(); i++ {
			for j := 0; j < vb.Len(); j++ {
				if sharesMemory(va.Index(i).Interface(), vb.Index(j).Interface()) {
					return true
				}
			}
		}
	}
	return false
}

func c19Scenario(si int, depth int) mc.Scenario {
	mk := c19Schemas()[si]
	return func(x *mc.X) *mc.Outcome {
		zh.Reset()
		zh.Install(x, zh.PoolLIFO, zh.OrderFree)
		s := mk()
		out := &mc.Outcome{Nontrivial: true}
		var hist []string
		// the formatter in force: the stock one, or the stock formatter over a message table whose every
		// template mentions every placeholder ({{value}} and the test's parameters)
		fm := x.Choose(2, "formatter")
		if fm == 1 {
			saved := conf.IssueFormatter
			conf.IssueFormatter = conf.NewDefaultFormatter(c19ValueLangMap())
			defer func() { conf.IssueFormatter = saved }()
			hist = append(hist, "global formatter: stock formatter over templates containing {{value}}")
		}
		firstObs := map[int]string{}
		for step := 0; step < depth; step++ {
			if step > 0 && x.Choose(2, "more") == 0 {
				break
			}
			ei := x.Choose(len(s.events), "event")
			hist = append(hist, s.events[ei].name)
			var obs string
			var dest any
			func() {
				defer func() {
					if r := recover(); r != nil {
						if he, ok := r.(mc.HarnessError); ok {
							panic(he)
						}
						obs = fmt.Sprintf("PANIC %v", r)
					}
				}()
				obs, dest = s.events[ei].run()
			}()
			if fm == 1 {
				// {{value}} renders the issue's Value, a pointer to the destination: its address differs from call to call
				obs = c06HexRe.ReplaceAllString(obs, "0xADDR")
			}
			out.Traces++
			fail := func(key, what, exp, got string) {
				x.Note("schema: %s", s.name)
				x.Note("executions: %s", strings.Join(hist, " ; "))
				out.Viol = append(out.Viol, &mc.Violation{Key: key, What: what, Expected: exp, Observed: got})
			}
			for _, o := range s.owned {
				if now := zh.CanonStringHidden(o.val); now != o.snap {
					fail("C19:schema-value-modified:"+o.name, fmt.Sprintf("a value owned by the schema (%s) was modified by execution %q", o.name, s.events[ei].name), o.snap, now)
					return out
				}
				if sharesMemory(dest, o.val) {
					fail("C19:dest-aliases-schema:"+o.name, fmt.Sprintf("the destination shares backing memory with the schema's %s after %q", o.name, s.events[ei].name), "independent memory", "same backing array")
					return out
				}
			}
			for _, o := range s.objects {
				if now := zh.CanonStringHidden(o.val); now != o.snap {
					fail("C19:schema-object-modified", fmt.Sprintf("the schema object itself (%s) reads differently after execution %q", o.name, s.events[ei].name), o.snap, now)
					return out
				}
			}
			for _, o := range s.inputs {
				if now := zh.CanonStringHidden(o.val); now != o.snap {
					fail("C19:input-modified:"+o.name, fmt.Sprintf("input data (%s) was modified by execution %q", o.name, s.events[ei].name), o.snap, now)
					return out
				}
			}
			if prev, ok := firstObs[ei]; ok {
				if prev != obs {
					fail("C19:repeat-differs", fmt.Sprintf("execution %q behaves differently on a later use of the same schema", s.events[ei].name), prev, obs)
					return out
				}
			} else {
				firstObs[ei] = obs
			}
		}
		zh.Reset()
		out.Sig = s.name + "|" + strings.Join(hist, ";")
		out.LazySample = func() any { return map[string]any{"schema": s.name, "executions": hist} }
		return out
	}
}

var c19LangMap zconst.LangMap

func c19ValueLangMap() zconst.LangMap {
	if c19LangMap == nil {
		c19LangMap = zconst.LangMap{}
		for dt, codes := range en.Map {
			c19LangMap[dt] = map[zconst.ZogIssueCode]string{}
			for code, msg := range codes {
				c19LangMap[dt][code] = "got {{value}}: " + msg
			}
		}
	}
	return c19LangMap
}

func c19Depth(tier string) int {
	if tier == "thorough" {
		return 4
	}
	return 3
}

func init() {
	Register(&Prop{
		ID:    "C19",
		Rule:  "one execution = one sequence of ≤depth calls (Parse/Validate, absent/present inputs given as maps, []any, typed slices, structs, pointers) under {stock formatter, stock formatter over templates that mention {{value}}} on ONE schema object whose PostTransforms overwrite and append to their destination; after every call: deep snapshot (incl. hidden capacity) of every value handed to a builder (slice/nested defaults, OneOf lists, Contains params) and of every input is unchanged, the schema object itself (every field at any depth, incl. each test's parameter map) is unchanged, the destination shares no backing array with them, and a repeated call observes exactly what its first occurrence observed; every sequence is non-trivial; distinct = distinct (schema, call sequence). plus " + callsRule + ". plus " + layoutRule,
		Floor: 20,
		Bound: func(tier string) string { return fmt.Sprintf("all call sequences of length ≤%d over 15 schema families, every field visit order", c19Depth(tier)) },
		Assumptions: []string{"mutating callbacks only write through the pointer they are given"},
		Items: func(tier string) []Item {
			var items []Item
			for i := range c19Schemas() {
				items = append(items, Item{Name: fmt.Sprintf("schema%d", i), MaxDevs: -1, Run: c19Scenario(i, c19Depth(tier))})
			}
			// across schemas: sequences of calls on different schema objects that share the pools
			items = append(items, callsItems(tier, "C19", "schema-modified", "callers-value-modified", "depends-on-history", "nested-call-differs")...)
			// a schema behaves identically on every later use, also with another destination type
			items = append(items, layoutItems(tier, "C19", "panic", "issues", "issues-missing", "destination", "callbacks")...)
			return items
		},
	})
}
