package scen

// C09 — results do not depend on map iteration or key insertion order.
// Differential, no spec: the same case is run under the canonical (sorted)
// visit order and under the permutation chosen by the explorer at every
// struct visit; issues (every key except $first) and, on success, the
// destination must be identical.

import (
	"fmt"
	"os"
	"net/http"
	"net/http/httptest"
	"net/url"
	"reflect"
	"strings"

	z "github.com/Oudwins/zog"
	"github.com/Oudwins/zog/conf"
	"github.com/Oudwins/zog/i18n"
	"github.com/Oudwins/zog/i18n/en"
	"github.com/Oudwins/zog/i18n/es"
	"github.com/Oudwins/zog/parsers/zjson"
	"github.com/Oudwins/zog/zconst"
	"github.com/Oudwins/zog/zenv"
	"github.com/Oudwins/zog/zhttp"

	"zogverif/mc"
	"zogverif/zh"
)

func hasMultiFieldStruct(s *Skel) bool {
	if s == nil {
		return false
	}
	if s.Kind == KStruct && len(s.Fields) >= 2 {
		return true
	}
	if hasMultiFieldStruct(s.Elem) {
		return true
	}
	for _, f := range s.Fields {
		if hasMultiFieldStruct(f.S) {
			return true
		}
	}
	return false
}

// c09Messages: compare (path, code, type, message) instead of (key, path, code, type); set by the "messages" items,
// which install a process-wide formatter whose text names the issue's own path and code.
var c09Messages bool

func c09Scenario(a *Alpha, ns NamedSkel, focus []string, elems int) mc.Scenario {
	fm := focusMap(focus)
	return func(x *mc.X) *mc.Outcome {
		zh.Reset()
		c := BuildCase(x, a, ns.S, fm, elems)
		for u := range fm {
			if !c.Touched[u] {
				return &mc.Outcome{Sig: "redundant"}
			}
		}
		var pre reflect.Value
		if a.Mode == 1 {
			pre = deepCopy(c.Dest.Elem())
		}
		base := runRealOn(x, c, c.Root, pre, zh.OrderSorted, false)
		perm := runRealOn(x, c, c.Root, pre, zh.OrderFree, false)
		identity := true
		for _, o := range perm.Orders {
			for i, v := range o {
				if i != v {
					identity = false
				}
			}
		}
		out := &mc.Outcome{Traces: 2, Nontrivial: !identity && c.NDev > 0}
		out.Sig = fmt.Sprintf("%s|%d|%v|%v", ns.Name, a.Mode, base.Obs.IssueStrings(), perm.Orders)
		out.LazySample = func() any {
			return map[string]any{"case": c.Describe(), "orders": perm.Orders, "issues_sorted_order": base.Obs.IssueStrings(), "issues_this_order": perm.Obs.IssueStrings()}
		}
		note := func() {
			d := c.Describe()
			x.Note("schema: %v", d["schema"])
			x.Note("mode: %v input/value: %v%v", d["mode"], d["input"], d["value"])
			x.Note("visit orders in the second run: %v (first run: sorted)", perm.Orders)
		}
		mode := []string{"Parse", "Validate"}[a.Mode]
		if base.Obs.Panic != perm.Obs.Panic {
			note()
			out.Viol = append(out.Viol, &mc.Violation{Key: "C09:panic:" + mode, What: "panic depends on visit order", Expected: base.Obs.Panic, Observed: perm.Obs.Panic})
			return out
		}
		bi, pi := base.Obs.IssueStrings(), perm.Obs.IssueStrings()
		if c09Messages {
			// under a formatter whose text depends on the issue itself, the messages belong to the comparison
			bi, pi = issueTuples(base.Obs), issueTuples(perm.Obs)
		}
		if !eqStrings(bi, pi) {
			note()
			out.Viol = append(out.Viol, &mc.Violation{
				Key:      "C09:issues:" + mode + ":" + diffKey(bi, pi),
				What:     "issues depend on the order in which struct fields are visited",
				Expected: fmt.Sprintf("sorted order: %v", bi),
				Observed: fmt.Sprintf("order %v: %v", perm.Orders, pi),
			})
			return out
		}
		if len(bi) == 0 {
			bd, pd := canonValue(base.Dest.Elem()), canonValue(perm.Dest.Elem())
			if bd != pd {
				note()
				out.Viol = append(out.Viol, &mc.Violation{Key: "C09:dest:" + mode, What: "destination of a successful call depends on field visit order", Expected: bd, Observed: pd})
			}
		}
		// $first may vary but must be one of the issues
		if perm.Obs.First != nil && !perm.Obs.FirstSame {
			note()
			out.Viol = append(out.Viol, &mc.Violation{Key: "C09:first:" + mode, What: "$first is not one of the recorded issues", Expected: "one of " + fmt.Sprint(pi), Observed: perm.Obs.First.String()})
		}
		return out
	}
}

// Input documents whose keys differ only in letter case or surrounding blanks, through the map-like front ends:
// whatever a front end does with such keys, the result must not depend on the order in which any map is iterated
// (every range-over-map site of the library is hooked, including sites a change adds).
type c09Rec struct {
	Email string `json:"email"`
	Addr  struct {
		Zip string `json:"zip"`
	} `json:"addr"`
}

func c09InputKeysScenario(x *mc.X) *mc.Outcome {
	fe := x.Choose(3, "frontEnd") // 0 Go map, 1 zjson, 2 zhttp JSON body
	doc := map[string]any{}
	var desc []string
	for i, k := range []string{"email", "Email", "EMAIL", " email"} {
		if x.Choose(2, "key."+k) == 1 {
			doc[k] = []string{"aaaa", "b", "cccc", "dd"}[i]
			desc = append(desc, k)
		}
	}
	for i, k := range []string{"addr", "Addr", "ADDR"} {
		if x.Choose(2, "key."+k) == 1 {
			doc[k] = map[string]any{"zip": []string{"11", "2", "333"}[i], "ZIP": "9"}
			desc = append(desc, k)
		}
	}
	text := callJSON(doc)
	run := func(om zh.OrderMode) (*Obs, string) {
		zh.Reset()
		zh.Install(x, zh.PoolLIFO, om)
		s := z.Struct(z.Schema{"email": z.String().Min(3).Required(), "addr": z.Struct(z.Schema{"zip": z.String().Min(2).Required()})})
		var d c09Rec
		var data any = doc
		switch fe {
		case 1:
			data = zjson.Decode(strings.NewReader(text))
		case 2:
			r := httptest.NewRequest(http.MethodPost, "/", strings.NewReader(text))
			r.Header.Set("Content-Type", "application/json")
			data = zhttp.Request(r)
		}
		o := RunParse(s, data, reflect.ValueOf(&d))
		zh.Reset()
		return o, fmt.Sprintf("%+v", d)
	}
	bo, bd := run(zh.OrderSorted)
	po, pd := run(zh.OrderFree)
	out := &mc.Outcome{Traces: 2, Nontrivial: len(doc) > 0, Sig: fmt.Sprintf("inputkeys|%d|%v|%v", fe, desc, bo.IssueStrings())}
	out.Sample = map[string]any{"front_end": fe, "document": text, "issues": bo.IssueStrings(), "dest": bd}
	if bo.Panic != po.Panic || !eqStrings(bo.IssueStrings(), po.IssueStrings()) || bd != pd {
		x.Note("front end %d (0 Go map, 1 zjson, 2 zhttp JSON), document %s", fe, text)
		out.Viol = append(out.Viol, &mc.Violation{Key: "C09:input-key-order", What: "the result depends on the order in which a map (the input's keys or the schema's fields) is iterated", Expected: fmt.Sprintf("sorted order: %v %s", bo.IssueStrings(), bd), Observed: fmt.Sprintf("another order: %v %s", po.IssueStrings(), pd)})
	}
	return out
}

// Flat sources: any subset of parameter spellings a client might use for one list field (plain, [] suffix, one
// parameter per index) and for a scalar field in two letter cases. Whatever the front end makes of them, it must not
// depend on the order in which the parameter map is iterated.
type c09Flat struct {
	Name string   `query:"name" form:"name"`
	Tags []string `query:"tags" form:"tags"`
}

func c09FlatKeysScenario(x *mc.X) *mc.Outcome {
	fe := x.Choose(2, "frontEnd") // 0 query, 1 form body
	vals := url.Values{}
	var desc []string
	for i, k := range []string{"tags", "tags[]", "tags[0]", "tags[1]", "tags[2]", "tags[10]"} {
		if x.Choose(2, "key."+k) == 1 {
			vals.Add(k, []string{"plain", "brk", "i0", "x", "i2", "i10"}[i])
			desc = append(desc, k)
		}
	}
	for i, k := range []string{"name", "Name", "NAME"} {
		if x.Choose(2, "key."+k) == 1 {
			vals.Add(k, []string{"alice", "b", "carol"}[i])
			desc = append(desc, k)
		}
	}
	enc := vals.Encode()
	run := func(om zh.OrderMode) (*Obs, string) {
		zh.Reset()
		zh.Install(x, zh.PoolLIFO, om)
		s := z.Struct(z.Schema{"name": z.String().Min(3), "tags": z.Slice(z.String().Min(2))})
		var d c09Flat
		var r *http.Request
		if fe == 0 {
			r = httptest.NewRequest(http.MethodGet, "/?"+enc, nil)
		} else {
			r = httptest.NewRequest(http.MethodPost, "/", strings.NewReader(enc))
			r.Header.Set("Content-Type", "application/x-www-form-urlencoded")
		}
		o := RunParse(s, zhttp.Request(r), reflect.ValueOf(&d))
		zh.Reset()
		return o, fmt.Sprintf("%+v", d)
	}
	bo, bd := run(zh.OrderSorted)
	po, pd := run(zh.OrderFree)
	out := &mc.Outcome{Traces: 2, Nontrivial: len(vals) > 0, Sig: fmt.Sprintf("flatkeys|%d|%v|%v", fe, desc, bo.IssueStrings())}
	out.Sample = map[string]any{"front_end": fe, "parameters": enc, "issues": bo.IssueStrings(), "dest": bd}
	if bo.Panic != po.Panic || !eqStrings(bo.IssueStrings(), po.IssueStrings()) || bd != pd {
		x.Note("front end %d (0 query, 1 form body), parameters %s", fe, enc)
		out.Viol = append(out.Viol, &mc.Violation{Key: "C09:input-key-order:flat", What: "the result depends on the order in which a map (the request's parameters or the schema's fields) is iterated", Expected: fmt.Sprintf("sorted order: %v %s", bo.IssueStrings(), bd), Observed: fmt.Sprintf("another order: %v %s", po.IssueStrings(), pd)})
	}
	return out
}

// Large inputs: two (three) sibling lists of n failing items each — hundreds of issues in one execution — under every
// order of visiting the lists.
type c09Big struct {
	Names []string
	Ages  []int
	Tags  []string
}

func c09LargeListsScenario(x *mc.X) *mc.Outcome {
	mode := x.Choose(2, "mode")
	n := []int{1, 100, 127, 128, 129, 200, 255, 256, 257, 300, 1000}[x.Choose(11, "itemsPerList")]
	names, ages, tags := make([]any, n), make([]any, n), make([]any, n)
	var d0 c09Big
	for i := 0; i < n; i++ {
		names[i], ages[i], tags[i] = "x", 1, "ok"
		d0.Names, d0.Ages, d0.Tags = append(d0.Names, "x"), append(d0.Ages, 1), append(d0.Tags, "ok")
	}
	run := func(om zh.OrderMode) (*Obs, string) {
		zh.Reset()
		zh.Install(x, zh.PoolLIFO, om)
		s := z.Struct(z.Schema{"names": z.Slice(z.String().Min(3)), "ages": z.Slice(z.Int().GT(5)), "tags": z.Slice(z.String().Min(2))})
		d := c09Big{}
		var o *Obs
		if mode == 0 {
			o = RunParse(s, map[string]any{"names": names, "ages": ages, "tags": tags}, reflect.ValueOf(&d))
		} else {
			d = c09Big{Names: append([]string(nil), d0.Names...), Ages: append([]int(nil), d0.Ages...), Tags: append([]string(nil), d0.Tags...)}
			o = RunValidate(s, reflect.ValueOf(&d))
		}
		zh.Reset()
		return o, fmt.Sprintf("%d/%d/%d", len(d.Names), len(d.Ages), len(d.Tags))
	}
	bo, bd := run(zh.OrderSorted)
	po, pd := run(zh.OrderFree)
	out := &mc.Outcome{Traces: 2, Nontrivial: true, Sig: fmt.Sprintf("large|%d|%d|%d", mode, n, len(bo.Issues))}
	out.Sample = map[string]any{"mode": mode, "items_per_list": n, "issues": len(bo.Issues)}
	if len(bo.Issues) != 2*n {
		x.Note("mode %d, %d failing items in each of two lists (a third list is valid)", mode, n)
		out.Viol = append(out.Viol, &mc.Violation{Key: "C09:large-lists:count", What: "not every failing item of a large list is reported", Expected: fmt.Sprint(2 * n), Observed: fmt.Sprint(len(bo.Issues))})
		return out
	}
	if bo.Panic != po.Panic || !eqStrings(bo.IssueStrings(), po.IssueStrings()) || bd != pd {
		x.Note("mode %d, %d failing items in each of two lists", mode, n)
		out.Viol = append(out.Viol, &mc.Violation{Key: "C09:large-lists:order", What: "with hundreds of issues in one execution the result depends on the order in which the lists are visited", Expected: fmt.Sprintf("%d issues", len(bo.Issues)), Observed: fmt.Sprintf("%d issues", len(po.Issues))})
	}
	return out
}

// The language tables installed with i18n are a map too: which table words an issue must not depend on how that
// map is iterated or in which order the tables were inserted. Tables for en, es and es-AR (own wording) plus pt;
// the call names a regional variant that has no table, one that has, a language without table, or none.
func c09LangTableScenario(x *mc.X) *mc.Outcome {
	lang := []string{"es-MX", "es_MX", "es-AR", "es", "pt-BR", "fr", ""}[x.Choose(7, "context language")]
	def := []string{"en", "es"}[x.Choose(2, "default language")]
	reverse := x.Bool("tables inserted in reverse order")
	ar := zconst.LangMap{}
	for t, sec := range es.Map {
		ar[t] = map[zconst.ZogIssueCode]string{}
		for c, m := range sec {
			ar[t][c] = "che: " + m
		}
	}
	pt := zconst.LangMap{zconst.TypeString: {"min": "texto curto ({{min}})", "default": "texto inválido"}, zconst.TypeNumber: {"gt": "número pequeno ({{gt}})", "default": "número inválido"}}
	names := []string{"en", "es", "es-AR", "pt"}
	tables := []zconst.LangMap{en.Map, es.Map, ar, pt}
	run := func(om zh.OrderMode) *Obs {
		zh.Reset()
		zh.Install(x, zh.PoolLIFO, om)
		saved := conf.IssueFormatter
		defer func() { conf.IssueFormatter = saved }()
		m := map[string]zconst.LangMap{}
		if reverse {
			for i := len(names) - 1; i >= 0; i-- {
				m[names[i]] = tables[i]
			}
		} else {
			for i := range names {
				m[names[i]] = tables[i]
			}
		}
		i18n.SetLanguagesErrsMap(m, def)
		s := z.Struct(z.Schema{"name": z.String().Min(5), "age": z.Int().GT(18), "nick": z.String().Min(4)})
		var d struct {
			Name, Nick string
			Age        int
		}
		var opts []z.ExecOption
		if lang != "" {
			opts = append(opts, z.WithCtxValue("lang", lang))
		}
		o := RunParse(s, map[string]any{"name": "ab", "age": 3, "nick": "x"}, reflect.ValueOf(&d), opts...)
		zh.Reset()
		return o
	}
	c09Messages = true
	defer func() { c09Messages = false }()
	bo, po := run(zh.OrderSorted), run(zh.OrderFree)
	render := func(o *Obs) []string {
		var out []string
		for _, is := range o.Issues {
			out = append(out, is.Key+"|"+is.Code+"|"+is.Msg)
		}
		return out
	}
	out := &mc.Outcome{Traces: 2, Nontrivial: true, Sig: fmt.Sprintf("langs|%s|%s|%v|%v", lang, def, reverse, render(bo))}
	out.Sample = map[string]any{"context_language": lang, "default": def, "reverse_insertion": reverse, "issues": render(bo)}
	if bo.Panic != po.Panic || !eqStrings(render(bo), render(po)) {
		x.Note("i18n tables en, es, es-AR, pt (default %s, inserted in reverse=%v); the call names language %q", def, reverse, lang)
		out.Viol = append(out.Viol, &mc.Violation{Key: "C09:language-table-order", What: "which language table words an issue depends on the iteration order of the installed tables", Expected: fmt.Sprint(render(bo)), Observed: fmt.Sprint(render(po))})
	}
	return out
}

// The environment as a flat source with a nested record: variables that look like namespaced names of the
// record's fields (DB_HOST next to HOST) are other variables. What each field reads must not depend on whether
// the record was visited before or after its siblings.
func c09EnvNamespaceScenario(x *mc.X) *mc.Outcome {
	variant := x.Choose(3, "environment") // 0 flat only, 1 flat + DB_* variables, 2 flat + DB_* + DB_CACHE_*
	run := func(om zh.OrderMode) (*Obs, string) {
		zh.Reset()
		zh.Install(x, zh.PoolLIFO, om)
		env := map[string]string{"host": "flat-host", "port": "1", "ttl": "7", "name": "svc"}
		if variant >= 1 {
			env["DB_host"], env["DB_port"], env["DB_name"] = "db-host", "2", "db-name"
		}
		if variant >= 2 {
			env["DB_CACHE_ttl"], env["CACHE_ttl"], env["DB_CACHE_host"] = "99", "98", "cache-host"
		}
		for k, v := range env {
			os.Setenv(k, v)
		}
		defer func() {
			for k := range env {
				os.Unsetenv(k)
			}
		}()
		s := z.Struct(z.Schema{
			"name": z.String(),
			"host": z.String(),
			"db":   z.Struct(z.Schema{"host": z.String(), "port": z.Int(), "cache": z.Struct(z.Schema{"ttl": z.Int(), "host": z.String()})}),
			"port": z.Int(),
		})
		var d struct {
			Name, Host string
			Port       int
			Db         struct {
				Host  string
				Port  int
				Cache struct {
					Ttl  int
					Host string
				}
			}
		}
		o := RunParse(s, zenv.NewDataProvider(), reflect.ValueOf(&d))
		zh.Reset()
		return o, fmt.Sprintf("%+v", d)
	}
	bo, bd := run(zh.OrderSorted)
	po, pd := run(zh.OrderFree)
	out := &mc.Outcome{Traces: 2, Nontrivial: true, Sig: fmt.Sprintf("envns|%d|%s", variant, bd)}
	out.Sample = map[string]any{"environment_variant": variant, "dest": bd, "issues": bo.IssueStrings()}
	if bo.Panic != po.Panic || !eqStrings(bo.IssueStrings(), po.IssueStrings()) || bd != pd {
		x.Note("environment variant %d (0 flat variables only, 1 plus DB_<field> variables, 2 plus DB_CACHE_<field>); schema {name, host, port, db:{host, port, cache:{ttl, host}}}", variant)
		out.Viol = append(out.Viol, &mc.Violation{Key: "C09:environment-namespaces", What: "what a field reads from the environment depends on the order in which the record and its siblings were visited", Expected: bd + " " + fmt.Sprint(bo.IssueStrings()), Observed: pd + " " + fmt.Sprint(po.IssueStrings())})
	}
	return out
}

// Many records that are rejected (a scalar where a record is expected) next to sibling records that are fine:
// whatever the library counts while rejecting must not spill over into the siblings, in any visit order.
type c09RejRec struct{ A string }

type c09Rej struct {
	Recs []c09RejRec
	Meta c09RejRec
	More c09RejRec
}

func c09RejectedRecordsScenario(x *mc.X) *mc.Outcome {
	n := []int{1, 15, 16, 17, 31, 32, 33, 63, 64, 65, 100, 300}[x.Choose(12, "rejected records")]
	recs := make([]any, n)
	for i := range recs {
		recs[i] = "not a record"
	}
	metaOK := x.Bool("meta valid")
	run := func(om zh.OrderMode) *Obs {
		zh.Reset()
		zh.Install(x, zh.PoolLIFO, om)
		rec := func() z.ZogSchema { return z.Struct(z.Schema{"a": z.String().Min(2).Required()}) }
		s := z.Struct(z.Schema{"recs": z.Slice(rec()), "meta": rec(), "more": rec()})
		var d c09Rej
		meta := map[string]any{"a": "ok"}
		if !metaOK {
			meta = map[string]any{"a": "x"}
		}
		o := RunParse(s, map[string]any{"recs": recs, "meta": meta, "more": map[string]any{"a": "fine"}}, reflect.ValueOf(&d))
		zh.Reset()
		return o
	}
	bo, po := run(zh.OrderSorted), run(zh.OrderFree)
	out := &mc.Outcome{Traces: 2, Nontrivial: true, Sig: fmt.Sprintf("rejected|%d|%v|%d", n, metaOK, len(bo.Issues))}
	out.Sample = map[string]any{"rejected_records": n, "meta_valid": metaOK, "issues": len(bo.Issues)}
	want := n
	if !metaOK {
		want++
	}
	switch {
	case bo.Panic != "" || len(bo.Issues) != want:
		x.Note("Struct{recs: Slice(Struct{a}), meta: Struct{a}, more: Struct{a}}; %d scalars where records are expected; meta valid=%v", n, metaOK)
		out.Viol = append(out.Viol, &mc.Violation{Key: "C09:rejected-records:count", What: "one issue per rejected record, plus the sibling record's own issues, is not what was reported", Expected: fmt.Sprint(want), Observed: fmt.Sprintf("panic=%q %d issues", bo.Panic, len(bo.Issues))})
	case bo.Panic != po.Panic || !eqStrings(bo.IssueStrings(), po.IssueStrings()):
		x.Note("%d scalars where records are expected; meta valid=%v", n, metaOK)
		out.Viol = append(out.Viol, &mc.Violation{Key: "C09:rejected-records:order", What: "what sibling records report depends on whether the rejected records were visited before or after them", Expected: fmt.Sprintf("%d issues", len(bo.Issues)), Observed: fmt.Sprintf("%d issues", len(po.Issues))})
	}
	return out
}

// Sibling nodes whose user functions reject input by returning ONE shared error value (a package-level sentinel,
// as Go code usually declares its errors): a plain error, a hand-built *ZogIssue without a path, one with a path.
// Where each occurrence is filed must not depend on which sibling was visited first.
type c09Three struct {
	A, B, C int
}

func c09SharedIssueScenario(x *mc.X) *mc.Outcome {
	kind := x.Choose(3, "sentinel") // 0 plain error, 1 *ZogIssue without path, 2 *ZogIssue with a path and a type
	var fails [3]bool
	n := 0
	for i := range fails {
		fails[i] = x.Bool(fmt.Sprintf("field %d fails", i))
		if fails[i] {
			n++
		}
	}
	if n < 2 {
		return &mc.Outcome{Sig: "n/a"}
	}
	run := func(om zh.OrderMode) *Obs {
		zh.Reset()
		zh.Install(x, zh.PoolLIFO, om)
		var sentinel error
		switch kind {
		case 0:
			sentinel = fmt.Errorf("rejected")
		case 1:
			sentinel = (&z.ZogIssue{}).SetCode("rejected").SetMessage("rejected")
		default:
			sentinel = (&z.ZogIssue{}).SetCode("rejected").SetMessage("rejected").SetPath("custom").SetDType("number")
		}
		field := func(i int) z.ZogSchema {
			return z.Preprocess(func(d int, c z.Ctx) (int, error) {
				if fails[i] {
					return 0, sentinel
				}
				return d, nil
			}, z.Int().GT(0))
		}
		s := z.Struct(z.Schema{"a": field(0), "b": field(1), "c": field(2)})
		var d c09Three
		o := RunParse(s, map[string]any{"a": 1, "b": 2, "c": 3}, reflect.ValueOf(&d))
		zh.Reset()
		return o
	}
	bo := run(zh.OrderSorted)
	po := run(zh.OrderFree)
	out := &mc.Outcome{Traces: 2, Nontrivial: true, Sig: fmt.Sprintf("shared-sentinel|%d|%v|%v", kind, fails, bo.IssueStrings())}
	out.Sample = map[string]any{"sentinel(0 error,1 issue without path,2 issue with path)": kind, "failing_fields": fails, "issues": bo.IssueStrings()}
	if bo.Panic != po.Panic || !eqStrings(bo.IssueStrings(), po.IssueStrings()) {
		x.Note("Struct{a,b,c: Preprocess(fn, Int.GT(0))}; the functions of fields %v return one shared error value (kind %d: 0 plain error, 1 *ZogIssue without a path, 2 *ZogIssue with path and type)", fails, kind)
		out.Viol = append(out.Viol, &mc.Violation{Key: fmt.Sprintf("C09:shared-error-value:%d", kind), What: "where the issues of sibling nodes are filed depends on the order in which the siblings were visited", Expected: fmt.Sprint(bo.IssueStrings()), Observed: fmt.Sprint(po.IssueStrings())})
	}
	return out
}

func init() {
	Register(&Prop{
		ID:    "C09",
		Rule:  "one execution = one core case (skeletons with a ≥2-field struct, ≤k focus units over full alphabets, both modes) run twice on the real code: canonical sorted visit order vs. the permutation chosen at every struct visit (all permutations enumerated, jointly across nesting levels and slice elements); plus the two-field shape grammar again under an installed formatter whose text names the issue's own path and code (messages are then part of the comparison); plus sibling lists of 1..1000 failing items each (hundreds of issues in one execution) under every order of visiting them; plus three sibling Preprocess nodes whose functions return one shared error value (plain error, *ZogIssue without / with a path) under every visit order; plus input documents holding any subset of keys that differ only in letter case / blanks (top level and nested) through Go map, zjson and zhttp JSON, and query / form requests holding any subset of the spellings of one list parameter (plain, [] suffix, one parameter per index) and of one scalar parameter in three letter cases, sorted order vs every permutation at every hooked range-over-map site; non-trivial = non-identity permutation on a deviating case; distinct = distinct (skeleton, mode, issue multiset, permutation vector)",
		Floor: 50,
		Bound: func(tier string) string {
			k, e := coreK(tier)
			return thoroughPrefix(tier) + fmt.Sprintf("k=%d focus units, %d elements per slice, all permutations at every struct visit (≤3 fields quick, ≤4 thorough)", k, e)
		},
		Assumptions: []string{
			"every range-over-map site in zog is hooked (list in coverage.instrumentation); once hooked, insertion order of schema/input maps cannot influence anything else",
			"issues produced by failing PostTransforms are outside the statement (none in this space)",
		},
		Items: func(tier string) []Item {
			var items []Item
			for _, it := range coreItemsFiltered(tier, c09Scenario, nil, []int{0, 1}, 0, func(ns NamedSkel) bool { return hasMultiFieldStruct(ns.S) }) {
				items = append(items, it)
			}
			// every struct-level test failing by default: two failing fields next to failing record-level tests within k=2
			for _, it := range coreItemsFiltered(tier, c09Scenario, func(a *Alpha) { a.Lite = true; a.StructFails = true }, []int{0, 1}, 2, func(ns NamedSkel) bool { return hasMultiFieldStruct(ns.S) }) {
				it.Name = "failing-record-tests/" + it.Name
				items = append(items, it)
			}
			items = append(items, Item{Name: "input-keys", MaxDevs: -1, Run: c09InputKeysScenario})
			items = append(items, Item{Name: "input-keys-flat", MaxDevs: -1, Run: c09FlatKeysScenario})
			items = append(items, Item{Name: "large-sibling-lists", MaxDevs: -1, Run: c09LargeListsScenario})
			items = append(items, Item{Name: "shared-error-value", MaxDevs: -1, Run: c09SharedIssueScenario})
			items = append(items, Item{Name: "rejected-records-next-to-records", MaxDevs: -1, Run: c09RejectedRecordsScenario})
			items = append(items, Item{Name: "language-tables", MaxDevs: -1, Run: c09LangTableScenario})
			items = append(items, Item{Name: "environment-namespaces", MaxDevs: -1, Run: c09EnvNamespaceScenario})
			items = append(items, Item{Name: "environment-definition-order", MaxDevs: -1, Run: c09EnvDefinitionOrderScenario})
			items = append(items, Item{Name: "flat-sources-with-absent-optional-records", MaxDevs: -1, Run: c09FlatOptionalRecordScenario})
			// every message is the formatter's answer for its own issue, whatever was formatted just before it:
			// the shape grammar and the small catalogue skeletons again, under a formatter that names path and code
			for _, it := range coreItemsFiltered(tier, c09Scenario, func(a *Alpha) { a.Lite = true }, []int{0, 1}, 2, func(ns NamedSkel) bool {
				return hasMultiFieldStruct(ns.S) && (strings.HasPrefix(ns.Name, "G2[") || ns.Name == "S2" || ns.Name == "S3")
			}) {
				inner := it.Run
				it.Name = "messages/" + it.Name
				it.Run = func(x *mc.X) *mc.Outcome {
					saved := conf.IssueFormatter
					conf.IssueFormatter = func(e *z.ZogIssue, c z.Ctx) { e.SetMessage(e.Path + " -> " + e.Code) }
					c09Messages = true
					defer func() { conf.IssueFormatter = saved; c09Messages = false }()
					return inner(x)
				}
				items = append(items, it)
			}
			return items
		},
	})
}

// The environment lists its variables in the order they were defined. A schema read from it must give the same
// result for every definition order, also when variables exist whose names differ from a field's key only by
// letter case (they are other variables).
func c09EnvDefinitionOrderScenario(x *mc.X) *mc.Outcome {
	exact := x.Choose(2, "exactly named variables defined") == 1
	nvar := 2 + x.Choose(2, "case variants per key")
	perm := x.Choose(6, "definition order")
	type kv struct{ k, v string }
	base := []kv{{"C09ORD_PORT", "8080"}, {"c09ord_port", "9090"}, {"C09Ord_Port", "70000x"}}[:nvar]
	base2 := []kv{{"C09ORD_NAME", "ab"}, {"c09ord_name", "abcdef"}, {"C09Ord_Name", ""}}[:nvar]
	perms := [][]int{{0, 1, 2}, {0, 2, 1}, {1, 0, 2}, {1, 2, 0}, {2, 0, 1}, {2, 1, 0}}
	run := func(p []int) (*Obs, string) {
		zh.Reset()
		zh.Install(x, zh.PoolLIFO, zh.OrderSorted)
		var all []kv
		for _, i := range p {
			if i < nvar {
				all = append(all, base[i], base2[i])
			}
		}
		if exact {
			all = append(all, kv{"c09Ord_port", "1234"}, kv{"c09Ord_name", "exact"})
		}
		for _, e := range all {
			os.Unsetenv(e.k)
		}
		for _, e := range all {
			os.Setenv(e.k, e.v)
		}
		defer func() {
			for _, e := range all {
				os.Unsetenv(e.k)
			}
		}()
		s := z.Struct(z.Schema{"c09Ord_port": z.Int().LT(65536), "c09Ord_name": z.String().Min(3).Required()})
		var d struct {
			C09Ord_port int
			C09Ord_name string
		}
		o := RunParse(s, zenv.NewDataProvider(), reflect.ValueOf(&d))
		zh.Reset()
		return o, fmt.Sprintf("%+v", d)
	}
	bo, bd := run(perms[0])
	po, pd := run(perms[perm])
	out := &mc.Outcome{Traces: 2, Nontrivial: perm != 0, Sig: fmt.Sprintf("envorder|%v|%d|%s|%v", exact, nvar, bd, bo.IssueStrings())}
	out.Sample = map[string]any{"exact_defined": exact, "variants": nvar, "definition_order": perms[perm], "dest": bd, "issues": bo.IssueStrings(), "panic": bo.Panic}
	if bo.Panic != "" || bo.Panic != po.Panic || !eqStrings(bo.IssueStrings(), po.IssueStrings()) || bd != pd {
		x.Note("fields c09Ord_port / c09Ord_name; variables spelled in %d other letter cases, defined in order %v (exactly named variables defined: %v)", nvar, perms[perm], exact)
		out.Viol = append(out.Viol, &mc.Violation{Key: "C09:environment-definition-order", What: "the result of reading the environment depends on the order in which its variables were defined", Expected: bd + " " + fmt.Sprint(bo.IssueStrings()), Observed: pd + " " + fmt.Sprint(po.IssueStrings())})
	}
	return out
}

// Flat sources (query, form, environment, a Go map holding "" under the record's name) with optional records
// (Ptr(Struct) without NotNil) that are absent, next to siblings that fail: which issues the siblings report, and
// under which paths, must not depend on whether the absent records were visited before or after them.
func c09FlatOptionalRecordScenario(x *mc.X) *mc.Outcome {
	src := x.Choose(4, "source") // 0 query, 1 form, 2 environment, 3 Go map with "" for the records
	variant := x.Choose(3, "input") // 0 both siblings fail, 1 one fails and one is missing, 2 a record is present and fails inside
	type rec struct{ Bio string }
	type dest struct {
		Name    string
		Age     int
		Profile *rec
		Billing *rec
	}
	vals := map[string]string{}
	switch variant {
	case 0:
		vals["name"], vals["age"] = "ab", "12"
	case 1:
		vals["age"] = "12"
	default:
		vals["name"], vals["age"], vals["bio"] = "ab", "50", "x"
	}
	run := func(om zh.OrderMode) (*Obs, string) {
		zh.Reset()
		zh.Install(x, zh.PoolLIFO, om)
		s := z.Struct(z.Schema{
			"name":    z.String().Min(3).Required(),
			"age":     z.Int().GT(18),
			"profile": z.Ptr(z.Struct(z.Schema{"bio": z.String().Min(2)})),
			"billing": z.Ptr(z.Struct(z.Schema{"bio": z.String().Min(2)})),
		})
		var data any
		cleanup := func() {}
		q := url.Values{}
		for k, v := range vals {
			q.Set(k, v)
		}
		switch src {
		case 0:
			data = zhttp.Request(httptest.NewRequest(http.MethodGet, "/?"+q.Encode(), nil))
		case 1:
			r := httptest.NewRequest(http.MethodPost, "/", strings.NewReader(q.Encode()))
			r.Header.Set("Content-Type", "application/x-www-form-urlencoded")
			data = zhttp.Request(r)
		case 2:
			for k, v := range vals {
				os.Setenv(k, v)
			}
			cleanup = func() {
				for k := range vals {
					os.Unsetenv(k)
				}
			}
			data = zenv.NewDataProvider()
		default:
			m := map[string]any{"profile": "", "billing": ""}
			for k, v := range vals {
				m[k] = v
			}
			data = m
		}
		var d dest
		o := RunParse(s, data, reflect.ValueOf(&d))
		cleanup()
		zh.Reset()
		ds := fmt.Sprintf("{Name:%s Age:%d Profile:%v Billing:%v}", d.Name, d.Age, d.Profile != nil, d.Billing != nil)
		return o, ds
	}
	bo, bd := run(zh.OrderSorted)
	po, pd := run(zh.OrderFree)
	out := &mc.Outcome{Traces: 2, Nontrivial: true, Sig: fmt.Sprintf("flatopt|%d|%d|%v", src, variant, bo.IssueStrings())}
	out.Sample = map[string]any{"source": []string{"query", "form", "environment", "Go map"}[src], "input": vals, "issues": bo.IssueStrings(), "dest": bd, "panic": bo.Panic}
	if bo.Panic != po.Panic || !eqStrings(bo.IssueStrings(), po.IssueStrings()) || bd != pd {
		x.Note("schema {name (required, min 3), age (>18), profile: Ptr({bio}), billing: Ptr({bio})}; %s input %v", []string{"query", "form", "environment", "Go map"}[src], vals)
		out.Viol = append(out.Viol, &mc.Violation{Key: "C09:flat-source-optional-records:" + []string{"query", "form", "env", "map"}[src], What: "issues (or the destination) of a record read from a flat source depend on the order in which absent optional records and their siblings were visited", Expected: bd + " " + fmt.Sprint(bo.IssueStrings()), Observed: pd + " " + fmt.Sprint(po.IssueStrings()) + " " + po.Panic})
	}
	return out
}
