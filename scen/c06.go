package scen

// C06 — no input data can make Parse panic.
// Well-formed (schema, destination) pairs × a zoo of dynamic input types at
// every input position × the front ends (zjson, zhttp, zenv). Oracle:
// recover() around Parse; the call returns.

import (
	"errors"
	"encoding/json"
	"fmt"
	"math"
	"net/http"
	"net/http/httptest"
	"net/url"
	"os"
	"reflect"
	"regexp"
	"runtime/debug"
	"strings"
	"time"

	z "github.com/Oudwins/zog"
	"github.com/Oudwins/zog/parsers/zjson"
	"github.com/Oudwins/zog/zenv"
	"github.com/Oudwins/zog/zhttp"
	"zogverif/mc"
	"zogverif/zh"
)

type zooNamedStr string
type zooNamedInt int
type zooMSA map[string]any
type zooMSS map[string]string
type zooMSI map[string]int
type zooMSF map[string]float64
type zooMSB map[string]bool
type zooSlice []any
type zooStrs []string
type zooStruct struct {
	A string
	B int
}
type zooUnexported struct {
	a string
	b int
	n map[string]any
	l []int
	p *int
}
type zooMixed struct {
	A string
	b int
	N map[string]any
}
type zooEmbedded struct {
	zooStruct
	C bool
}
type zooEmbeddedPtr struct {
	*zooStruct
	C bool
}
type zooLower struct {
	a string
	A string
}
// promotion through several levels of embedding, by value and by pointer
type zooLeaf struct {
	A string
	B int
}
type zooMidP struct{ *zooLeaf }       // hop: pointer
type zooMidV struct{ zooLeaf }        // hop: value
type zooTopVP struct {                // value, then pointer
	zooMidP
	C bool
}
type zooTopPP struct { // pointer, then pointer
	*zooMidP
	C bool
}
type zooTopPV struct { // pointer, then value
	*zooMidV
	C bool
}
type zooTop3 struct { // three hops: pointer, pointer, pointer
	*zooTopPP
	D string
}

// c06Maps: maps over {string, named string} keys x element types that can hold nil, with and without nil entries.
func c06Maps() []zooItem {
	i7 := 7
	return []zooItem{
		{"map[namedStr]any with nil entry", map[zooNamedStr]any{"a": nil, "b": 2}},
		{"map[namedStr]any", map[zooNamedStr]any{"a": "x", "b": 2}},
		{"map[string]error with nil entry", map[string]error{"a": nil, "b": &zooErr{}}},
		{"map[string]Stringer with nil entry", map[string]fmt.Stringer{"a": nil, "b": zooStringer{}}},
		{"map[namedStr]*int with nil entry", map[zooNamedStr]*int{"a": nil, "b": &i7}},
		{"map[string][]any with nil entry", map[string][]any{"a": nil, "b": {1}}},
		{"map[string]map[string]any with nil entry", map[string]map[string]any{"a": nil, "n": nil, "p": {"a": "x"}}},
		{"map[namedStr]map[string]any with nil entry", map[zooNamedStr]map[string]any{"n": nil, "p": nil}},
		{"map[string]func() with nil entry", map[string]func(){"a": nil}},
		{"map[namedStr]namedStr", map[zooNamedStr]zooNamedStr{"a": "x"}},
		{"map[string]any with typed-nil entries", map[string]any{"a": (*string)(nil), "b": (*int)(nil), "n": (map[string]any)(nil), "l": ([]int)(nil), "p": (*zooStruct)(nil)}},
	}
}

func c06Embeddings() []zooItem {
	leaf := &zooLeaf{"x", 1}
	return []zooItem{
		{"embedding value>pointer(nil)", zooTopVP{}}, {"embedding value>pointer(set)", zooTopVP{zooMidP{leaf}, true}}, {"*embedding value>pointer(nil)", &zooTopVP{}},
		{"embedding pointer(nil)>pointer", zooTopPP{}}, {"embedding pointer(set)>pointer(nil)", zooTopPP{&zooMidP{}, true}}, {"embedding pointer(set)>pointer(set)", zooTopPP{&zooMidP{leaf}, true}},
		{"embedding pointer(nil)>value", zooTopPV{}}, {"embedding pointer(set)>value", zooTopPV{&zooMidV{*leaf}, true}},
		{"embedding 3 hops all nil", zooTop3{}}, {"embedding 3 hops, nil at hop 2", zooTop3{&zooTopPP{}, "d"}}, {"embedding 3 hops, nil at hop 3", zooTop3{&zooTopPP{&zooMidP{}, true}, "d"}}, {"embedding 3 hops, all set", zooTop3{&zooTopPP{&zooMidP{leaf}, true}, "d"}},
		{"map of embedding with nil hop", map[string]any{"a": zooTopPP{&zooMidP{}, true}, "n": zooTopVP{}, "p": &zooTop3{&zooTopPP{}, "d"}}},
	}
}

type zooStringer struct{ s *string }

func (z zooStringer) String() string { return *z.s } // panics when s is nil (fmt recovers it)

type zooErr struct{}

func (*zooErr) Error() string { return "zooerr" }

type zooItem struct {
	name string
	v    any
}

// Go struct inputs whose fields are pointer chains (records behind **T, ***T; numbers behind **int), complete or
// nil at any one level: what a nested record schema is handed when the input is a struct, not a map.
type zooNestRec struct {
	A string
	B int
}

type zooNestIn struct {
	N **zooNestRec
	P ***zooNestRec
	Q **int
	L *[]int
	A *string
	B **int
}

func c06StructChains() []zooItem {
	var out []zooItem
	for _, nilAt := range []string{"none", "N.inner", "N.outer", "P.inner", "P.middle", "P.outer", "Q.inner", "Q.outer", "all"} {
		rec := &zooNestRec{"x", 1}
		var nilRec *zooNestRec
		prec := &rec
		i := 7
		pi := &i
		var nilInt *int
		list := []int{1}
		str := "s"
		in := zooNestIn{N: &rec, P: &prec, Q: &pi, L: &list, A: &str, B: &pi}
		switch nilAt {
		case "N.inner":
			in.N = &nilRec
		case "N.outer":
			in.N = nil
		case "P.inner":
			pn := &nilRec
			in.P = &pn
		case "P.middle":
			var mid **zooNestRec
			in.P = &mid
		case "P.outer":
			in.P = nil
		case "Q.inner":
			in.Q = &nilInt
		case "Q.outer":
			in.Q = nil
		case "all":
			in = zooNestIn{N: &nilRec, Q: &nilInt, B: &nilInt}
			pn := &nilRec
			in.P = &pn
		}
		out = append(out, zooItem{"struct input with pointer-chain fields, nil at " + nilAt, in}, zooItem{"*struct input with pointer-chain fields, nil at " + nilAt, &in})
	}
	return out
}

// c06BoundaryStrings: texts whose last multi-byte rune straddles or follows a power-of-two offset (anything that
// clips, chunks or buffers text at such an offset must not cut through it), uncoercible as numbers.
func c06BoundaryStrings() []zooItem {
	var out []zooItem
	for _, n := range []int{16, 32, 64, 128, 256, 512, 1024, 4096, 65536} {
		for _, tail := range []string{"é", "€", "😀"} {
			out = append(out, zooItem{fmt.Sprintf("%d bytes then %q across the offset", n-1, tail), strings.Repeat("a", n-1) + tail})
			out = append(out, zooItem{fmt.Sprintf("%d bytes then %q", n, tail), strings.Repeat("a", n) + tail})
		}
	}
	// texts that consist of UTF-8 continuation bytes only (no rune ever starts): anything that walks back or forward
	// to a rune start must stop at the ends
	for _, n := range []int{1, 17, 33, 64, 65, 66, 129, 257} {
		out = append(out, zooItem{fmt.Sprintf("%d continuation bytes", n), strings.Repeat("\x80", n)})
		out = append(out, zooItem{fmt.Sprintf("%d continuation bytes then a digit", n), strings.Repeat("\xbf", n) + "1"})
	}
	return out
}

func c06Zoo() []zooItem {
	i7 := 7
	pi := &i7
	ppi := &pi
	sv := "s"
	psv := &sv
	st := zooStruct{"x", 1}
	pst := &st
	ppst := &pst
	var nilIface any
	var nilErr *zooErr
	big := strings.Repeat("a", 1<<16)
	return append(append(append(c06HandZoo(nilIface, nilErr, pi, ppi, psv, st, pst, ppst, big), c06PtrChains()...), c06Embeddings()...), append(append(c06Maps(), c06BoundaryStrings()...), c06StructChains()...)...)
}

func c06HandZoo(nilIface any, nilErr *zooErr, pi *int, ppi **int, psv *string, st zooStruct, pst *zooStruct, ppst **zooStruct, big string) []zooItem {
	return []zooItem{
		{"untyped nil", nil},
		{"(*int)(nil)", (*int)(nil)}, {"(*string)(nil)", (*string)(nil)}, {"(*zooStruct)(nil)", (*zooStruct)(nil)},
		{"map[string]any(nil)", map[string]any(nil)}, {"[]any(nil)", []any(nil)}, {"[]string(nil)", []string(nil)},
		{"func(nil)", (func())(nil)}, {"func", func() {}}, {"chan(nil)", (chan int)(nil)}, {"chan", make(chan int)},
		{"*interface(nil)", &nilIface}, {"typed nil error", nilErr}, {"error value", &zooErr{}},
		{"map[string]any{}", map[string]any{}}, {"map[string]any{a,b}", map[string]any{"a": "x", "b": 2}},
		{"map[string]any{a:nil}", map[string]any{"a": nil, "b": nil}},
		{"map[string]any{a:map}", map[string]any{"a": map[string]any{"a": "deep"}, "b": []any{1}}},
		{"map[string]string", map[string]string{"a": "x", "b": "2"}}, {"map[string]string{}", map[string]string{}},
		{"map[string]int", map[string]int{"a": 1, "b": 2}}, {"map[string]float64", map[string]float64{"a": 1.5, "b": 2}},
		{"map[string]bool", map[string]bool{"a": true, "b": false}},
		{"map[string]namedStr", map[string]zooNamedStr{"a": "x", "b": "2"}},
		{"map[string]namedInt", map[string]zooNamedInt{"a": 1, "b": 2}},
		{"map[string]struct", map[string]zooStruct{"a": {"x", 1}}},
		{"map[string][]any", map[string][]any{"a": {1, 2}}},
		{"map[string]map", map[string]map[string]any{"a": {"a": 1}}},
		{"map[string]*int", map[string]*int{"a": pi, "b": nil}},
		{"map[string]int64", map[string]int64{"a": 1}}, {"map[string]uint8", map[string]uint8{"a": 1}},
		{"named map[string]any", zooMSA{"a": "x", "b": 2}}, {"named map[string]any{}", zooMSA{}},
		{"named map[string]string", zooMSS{"a": "x", "b": "2"}}, {"named map[string]int", zooMSI{"a": 1, "b": 2}},
		{"named map[string]float64", zooMSF{"a": 1}}, {"named map[string]bool", zooMSB{"a": true}},
		{"*named map", &zooMSS{"a": "x"}},
		{"map[int]any", map[int]any{1: "x"}}, {"map[any]any", map[any]any{"a": "x"}}, {"map[namedStr]any", map[zooNamedStr]any{"a": "x"}},
		{"*map[string]any", &map[string]any{"a": "x", "b": 2}},
		{"struct exported", st}, {"*struct", pst}, {"**struct", ppst}, {"***struct", &ppst},
		{"struct unexported fields", zooUnexported{a: "x", b: 1}}, {"*struct unexported", &zooUnexported{a: "x"}},
		{"struct mixed", zooMixed{A: "x", b: 1}}, {"struct embedded", zooEmbedded{zooStruct{"x", 1}, true}},
		{"struct lower+upper", zooLower{a: "x", A: "y"}}, {"struct{}", struct{}{}},
		{"struct embedded nil pointer", zooEmbeddedPtr{}}, {"struct embedded pointer", zooEmbeddedPtr{&zooStruct{"x", 1}, true}}, {"*struct embedded nil pointer", &zooEmbeddedPtr{}},
		{"anonymous struct lower", struct{ a, b, n, l, p, v, x string }{}},
		{"stringer nil receiver field", zooStringer{}},
		{"*int", pi}, {"**int", ppi}, {"*string", psv},
		{"[2]string", [2]string{"a", "b"}}, {"[0]int", [0]int{}}, {"[]byte", []byte("hi")}, {"named slice", zooSlice{"a", 1}}, {"named []string", zooStrs{"a"}},
		{"[]string", []string{"a", "b"}}, {"[]int", []int{1, 2}}, {"[]any{nil}", []any{nil}}, {"[]any{}", []any{}}, {"[][]any", [][]any{{1}, nil}},
		{"[]map", []map[string]any{{"a": "x"}, nil}}, {"[]*string", []*string{psv, nil}}, {"[]struct", []zooStruct{{"x", 1}}},
		{"NaN", math.NaN()}, {"+Inf", math.Inf(1)}, {"-Inf", math.Inf(-1)}, {"-0", math.Copysign(0, -1)},
		{"MaxInt64", int64(math.MaxInt64)}, {"MinInt64", int64(math.MinInt64)}, {"MaxUint64", uint64(math.MaxUint64)}, {"1e300", 1e300},
		{"float32 NaN", float32(math.NaN())}, {"int8", int8(-1)}, {"uint", uint(1)}, {"uintptr", uintptr(1)},
		{"json.Number", json.Number("1")}, {"json.Number bad", json.Number("x")}, {"complex", complex(1, 2)}, {"rune", 'x'},
		{"namedStr", zooNamedStr("x")}, {"namedInt", zooNamedInt(3)},
		{"[]string of one blank", []string{""}}, {"[]string of blanks", []string{"", " ", "\t"}}, {"[]any of blanks", []any{"", " "}}, {"[]string blank then value", []string{"", "on"}},
		{"namedStr empty", zooNamedStr("")}, {"namedStr spaces", zooNamedStr("  ")}, {"stringer returning the empty string", zooStringer{new(string)}},
		{"error with an empty message", errors.New("")}, {"[]byte{}", []byte{}}, {"namedInt zero", zooNamedInt(0)}, {"*string to empty", new(string)},
		{"empty string", ""}, {"spaces", " \t\n"}, {"invalid utf8", "\xff\xfe\xfd"}, {"NUL", "\x00"}, {"64KiB string", big},
		{"zero time", time.Time{}}, {"far future", time.Date(99999, 1, 1, 0, 0, 0, 0, time.UTC)}, {"*time(nil)", (*time.Time)(nil)}, {"duration", time.Second},
		{"true", true}, {"int", 42}, {"string", "hello"},
	}
}

// c06PtrChains: every pointer chain of depth 1..3 over each base value, complete or with a nil pointer
// at any one level (level 1 = innermost) — "pointers of any depth", generated instead of hand-picked.
func c06PtrChains() []zooItem {
	bases := []zooItem{
		{"int", 7}, {"string", "s"}, {"map[string]any", map[string]any{"a": "x", "b": 2}}, {"named map", zooMSA{"a": "x", "b": 2}},
		{"map[string]string", map[string]string{"a": "x", "b": "2"}}, {"struct", zooStruct{"x", 1}}, {"[]any", []any{"a", 1}}, {"time", time.Unix(0, 0).UTC()},
	}
	var out []zooItem
	for _, b := range bases {
		for depth := 1; depth <= 3; depth++ {
			for nilAt := 0; nilAt <= depth; nilAt++ {
				var v reflect.Value
				lvl := 0
				if nilAt == 0 {
					v = reflect.ValueOf(b.v)
				} else {
					t := reflect.TypeOf(b.v)
					for i := 0; i < nilAt; i++ {
						t = reflect.PointerTo(t)
					}
					v = reflect.Zero(t)
					lvl = nilAt
				}
				for ; lvl < depth; lvl++ {
					p := reflect.New(v.Type())
					p.Elem().Set(v)
					v = p
				}
				name := strings.Repeat("*", depth) + b.name
				if nilAt > 0 {
					name += fmt.Sprintf(" (nil at level %d)", nilAt)
				}
				out = append(out, zooItem{"chain " + name, v.Interface()})
			}
		}
	}
	return out
}

type c06Target struct {
	name string
	run  func(in any)
}

type c06AB struct {
	A string
	B int
}
type c06Nest struct {
	N struct{ A string }
	L []int
	P *c06AB
	Q *int
}
// a field renamed to the empty key by its tag, at the top level and inside a nested record
type c06EmptyKey struct {
	Name string `zog:""`
	Age  int
}
type c06EmptyKeyNested struct {
	In c06EmptyKey
}

type c06Misc struct {
	T time.Time
	F float64
	O bool
	C int
	X int
}

func c06LongKeys() (z.Schema, map[string]any) {
	sc := z.Schema{}
	data := map[string]any{}
	for _, n := range []int{1, 31, 32, 33, 64} {
		k := "k" + strings.Repeat("x", n-1)
		sc[k] = z.String().Required()
		data[k] = "v"
	}
	return sc, data
}

type c06Long struct {
	K                                                                string
	Kxxxxxxxxxxxxxxxxxxxxxxxxxxxxxx                                  string
	Kxxxxxxxxxxxxxxxxxxxxxxxxxxxxxxx                                 string
	Kxxxxxxxxxxxxxxxxxxxxxxxxxxxxxxxx                                string
	Kxxxxxxxxxxxxxxxxxxxxxxxxxxxxxxxxxxxxxxxxxxxxxxxxxxxxxxxxxxxxxxx string
}

var c06AnyRe = regexp.MustCompile("^[a-z]+$")

// c06AllStringTests: one String schema carrying every built-in test and every negated form.
func c06AllStringTests() *z.StringSchema[string] {
	s := z.String().Min(1).Max(5).Len(2).Email().URL().UUID().HasPrefix("a").HasSuffix("b").Contains("c").
		ContainsUpper().ContainsDigit().ContainsSpecial().Match(c06AnyRe).OneOf([]string{"a", "b"})
	s.Not().Len(2)
	s.Not().Email()
	s.Not().URL()
	s.Not().UUID()
	s.Not().HasPrefix("a")
	s.Not().HasSuffix("b")
	s.Not().Contains("c")
	s.Not().ContainsUpper()
	s.Not().ContainsDigit()
	s.Not().ContainsSpecial()
	s.Not().Match(c06AnyRe)
	s.Not().OneOf([]string{"a", "b"})
	return s
}

func c06Targets() []c06Target {
	ab := func() *z.StructSchema { return z.Struct(z.Schema{"a": z.String().Required(), "b": z.Int()}) }
	custom := func() *z.Custom[int] {
		return z.CustomFunc(func(p *int, ctx z.Ctx) bool { return *p >= 0 })
	}
	pre := func() *z.PreprocessSchema[string, int] {
		return z.Preprocess(func(s string, ctx z.Ctx) (int, error) { return len(s), nil }, z.Int())
	}
	preSlice := func() *z.PreprocessSchema[string, []string] {
		return z.Preprocess(func(s string, ctx z.Ctx) ([]string, error) { return strings.Split(s, ","), nil }, z.Slice(z.String()))
	}
	nest := func() *z.StructSchema {
		return z.Struct(z.Schema{
			"n": z.Struct(z.Schema{"a": z.String()}),
			"l": z.Slice(z.Int()),
			"p": z.Ptr(z.Struct(z.Schema{"a": z.String(), "b": z.Int()})),
			"q": z.Ptr(z.Int()).NotNil(),
		})
	}
	misc := func() *z.StructSchema {
		return z.Struct(z.Schema{"t": z.Time(), "f": z.Float64(), "o": z.Bool(), "c": custom(), "x": pre()})
	}
	return []c06Target{
		{"String top", func(in any) { var d string; z.String().Parse(in, &d) }},
		{"String with every built-in test, top", func(in any) { var d string; c06AllStringTests().Parse(in, &d) }},
		{"String with every built-in test, field", func(in any) {
			var d c06AB
			z.Struct(z.Schema{"a": c06AllStringTests(), "b": z.Int()}).Parse(map[string]any{"a": in, "b": 1}, &d)
		}},
		{"String with every built-in test, element", func(in any) { var d []string; z.Slice(c06AllStringTests()).Parse([]any{"x", in}, &d) }},
		{"Int with every built-in test, top", func(in any) {
			var d int
			z.Int().GT(1).GTE(1).LT(9).LTE(9).EQ(5).OneOf([]int{4, 5}).Parse(in, &d)
		}},
		{"Float64 with every built-in test, top", func(in any) {
			var d float64
			z.Float64().GT(1).GTE(1).LT(9).LTE(9).EQ(5).OneOf([]float64{4, 5}).Parse(in, &d)
		}},
		{"Time with every built-in test, top", func(in any) {
			var d time.Time
			t0 := time.Date(2020, 1, 1, 0, 0, 0, 0, time.UTC)
			z.Time().After(t0).Before(t0.Add(time.Hour)).EQ(t0).Parse(in, &d)
		}},
		{"Bool with its tests, top", func(in any) { var d bool; z.Bool().True().EQ(true).Parse(in, &d) }},
		{"Slice(String) with every built-in test, top", func(in any) {
			var d []string
			z.Slice(z.String().Min(1)).Min(1).Max(3).Len(2).Contains("x").Parse(in, &d)
		}},
		{"Int top", func(in any) { var d int; z.Int().Parse(in, &d) }},
		{"Int32 top", func(in any) { var d int32; z.Int32().Parse(in, &d) }},
		{"Float64 top", func(in any) { var d float64; z.Float64().Parse(in, &d) }},
		{"Float32 top", func(in any) { var d float32; z.Float32().Parse(in, &d) }},
		{"Bool top", func(in any) { var d bool; z.Bool().Parse(in, &d) }},
		{"Time top", func(in any) { var d time.Time; z.Time().Parse(in, &d) }},
		{"Struct{a,b} top", func(in any) { var d c06AB; ab().Parse(in, &d) }},
		{"Struct{a,b} field a", func(in any) { var d c06AB; ab().Parse(map[string]any{"a": in, "b": 1}, &d) }},
		{"Struct{a,b} field b", func(in any) { var d c06AB; ab().Parse(map[string]any{"a": "x", "b": in}, &d) }},
		{"Struct{A,B} capitalised keys top", func(in any) {
			var d c06AB
			z.Struct(z.Schema{"A": z.String().Required(), "B": z.Int()}).Parse(in, &d)
		}},
		{"Struct{A,B} capitalised keys in slice", func(in any) {
			var d []c06AB
			z.Slice(z.Struct(z.Schema{"A": z.String(), "B": z.Int()})).Parse([]any{in}, &d)
		}},
		{"Nested records under capitalised keys top (a Go struct input can name them)", func(in any) {
			var d struct {
				N zooNestRec
				P *zooNestRec
				Q *int
				A string
			}
			rec := func() *z.StructSchema { return z.Struct(z.Schema{"A": z.String(), "B": z.Int()}) }
			z.Struct(z.Schema{"N": rec(), "P": z.Ptr(rec()), "Q": z.Ptr(z.Int()), "A": z.String()}).Parse(in, &d)
		}},
		{"Nested records under capitalised keys in slice", func(in any) {
			var d []struct {
				N zooNestRec
				P *zooNestRec
			}
			rec := func() *z.StructSchema { return z.Struct(z.Schema{"A": z.String(), "B": z.Int()}) }
			z.Slice(z.Struct(z.Schema{"N": rec(), "P": z.Ptr(rec())})).Parse([]any{in}, &d)
		}},
		{"Slice(String) top", func(in any) { var d []string; z.Slice(z.String()).Parse(in, &d) }},
		{"Slice(String) element", func(in any) { var d []string; z.Slice(z.String()).Parse([]any{"x", in}, &d) }},
		{"Slice(Int) top", func(in any) { var d []int; z.Slice(z.Int()).Min(1).Parse(in, &d) }},
		{"Slice(Struct) top", func(in any) { var d []c06AB; z.Slice(ab()).Parse(in, &d) }},
		{"Slice(Struct) element", func(in any) { var d []c06AB; z.Slice(ab()).Parse([]any{map[string]any{"a": "x"}, in}, &d) }},
		{"Slice(Slice(Int)) top", func(in any) { var d [][]int; z.Slice(z.Slice(z.Int())).Parse(in, &d) }},
		{"Ptr(String) top", func(in any) { var d *string; z.Ptr(z.String()).Parse(in, &d) }},
		{"Ptr(Struct) top", func(in any) { var d *c06AB; z.Ptr(ab()).NotNil().Parse(in, &d) }},
		{"Ptr(Slice) top", func(in any) { var d *[]string; z.Ptr(z.Slice(z.String())).Parse(in, &d) }},
		{"Nest top", func(in any) { var d c06Nest; nest().Parse(in, &d) }},
		{"Nest field n (struct)", func(in any) { var d c06Nest; nest().Parse(map[string]any{"n": in, "q": 1}, &d) }},
		{"Nest field n.a", func(in any) { var d c06Nest; nest().Parse(map[string]any{"n": map[string]any{"a": in}, "q": 1}, &d) }},
		{"Nest field l (slice)", func(in any) { var d c06Nest; nest().Parse(map[string]any{"l": in, "q": 1}, &d) }},
		{"Nest field p (ptr struct)", func(in any) { var d c06Nest; nest().Parse(map[string]any{"p": in, "q": 1}, &d) }},
		{"Nest field q (ptr int)", func(in any) { var d c06Nest; nest().Parse(map[string]any{"q": in}, &d) }},
		{"Misc field t (time)", func(in any) { var d c06Misc; misc().Parse(map[string]any{"t": in}, &d) }},
		{"Misc field f (float)", func(in any) { var d c06Misc; misc().Parse(map[string]any{"f": in}, &d) }},
		{"Misc field o (bool)", func(in any) { var d c06Misc; misc().Parse(map[string]any{"o": in}, &d) }},
		{"Misc field c (custom)", func(in any) { var d c06Misc; misc().Parse(map[string]any{"c": in}, &d) }},
		{"Misc field x (preprocess)", func(in any) { var d c06Misc; misc().Parse(map[string]any{"x": in}, &d) }},
		{"Custom[int] top", func(in any) { var d int; custom().Parse(in, &d) }},
		{"Preprocess[string,[]string] in struct", func(in any) {
			var d struct{ V []string }
			z.Struct(z.Schema{"v": preSlice()}).Parse(map[string]any{"v": in}, &d)
		}},
		{"Struct with a field tagged zog:\"\" top (value under the empty key)", func(in any) {
			var d c06EmptyKey
			z.Struct(z.Schema{"name": z.String().Min(3).Required(), "age": z.Int().GT(5)}).Parse(map[string]any{"": in, "age": 1}, &d)
		}},
		{"Struct with a field tagged zog:\"\" inside a nested record", func(in any) {
			var d c06EmptyKeyNested
			z.Struct(z.Schema{"in": z.Struct(z.Schema{"name": z.String().Min(3).Required(), "age": z.Int().GT(5)})}).Parse(map[string]any{"in": map[string]any{"": in, "age": 1}}, &d)
		}},
		{"Long keys top", func(in any) {
			sc, _ := c06LongKeys()
			var d c06Long
			z.Struct(sc).Parse(in, &d)
		}},
	}
}

var c06NumRe = regexp.MustCompile(`[0-9]+`)
var c06HexRe = regexp.MustCompile(`0x[0-9a-f]+`)

// c06Guard runs f and returns a panic description ("" if none): message class + innermost zog frame.
func c06Guard(f func()) (msg string, where string) {
	defer func() {
		if r := recover(); r != nil {
			if he, ok := r.(mc.HarnessError); ok {
				panic(he)
			}
			msg = fmt.Sprint(r)
			where = "?"
			for _, line := range strings.Split(string(debug.Stack()), "\n") {
				if strings.HasPrefix(line, "github.com/Oudwins/zog") && !strings.Contains(line, "zverif") {
					fn := line
					if i := strings.LastIndex(fn, "("); i > 0 {
						fn = fn[:i]
					}
					where = strings.TrimPrefix(fn, "github.com/Oudwins/zog")
					break
				}
			}
		}
	}()
	f()
	return "", ""
}

func c06MsgClass(msg string) string {
	m := c06HexRe.ReplaceAllString(msg, "H")
	m = c06NumRe.ReplaceAllString(m, "N")
	if i := strings.Index(m, "interface conversion"); i >= 0 {
		return "interface conversion"
	}
	if strings.Contains(m, "unexported field") {
		return "reflect unexported field"
	}
	if strings.Contains(m, "nil pointer") {
		return "nil pointer dereference"
	}
	if strings.Contains(m, "slice bounds") {
		return "slice bounds out of range"
	}
	if strings.Contains(m, "Struct is missing expected schema key") {
		return "missing schema key"
	}
	if len(m) > 60 {
		m = m[:60]
	}
	return m
}

func c06Outcome(x *mc.X, target, input, msg, where string) *mc.Outcome {
	out := &mc.Outcome{Traces: 1, Nontrivial: true}
	out.Sig = target + "|" + c06MsgClass(msg)
	out.Sample = map[string]any{"target": target, "input": input, "panic": msg}
	if msg != "" {
		x.Note("target: %s", target)
		x.Note("input: %s", input)
		x.Note("panic: %s", msg)
		x.Note("innermost zog frame: %s", where)
		out.Viol = append(out.Viol, &mc.Violation{
			Key:      fmt.Sprintf("C06:panic:%s:%s", where, c06MsgClass(msg)),
			What:     fmt.Sprintf("Parse panicked on input data: %s with %s", target, input),
			Expected: "returns normally (malformed input is reported as issues)",
			Observed: "panic: " + msg,
		})
	}
	return out
}

func c06ZooScenario(pairs bool) mc.Scenario {
	zoo := c06Zoo()
	targets := c06Targets()
	return func(x *mc.X) *mc.Outcome {
		zh.Reset()
		zh.Install(x, zh.PoolLIFO, zh.OrderFree)
		ti := x.Choose(len(targets), "target")
		zi := x.Choose(len(zoo), "zoo")
		msg, where := c06Guard(func() { targets[ti].run(zoo[zi].v) })
		zh.Reset()
		return c06Outcome(x, targets[ti].name, zoo[zi].name, msg, where)
	}
}

// two simultaneous zoo values
func c06PairScenario() mc.Scenario {
	zoo := c06Zoo()
	type pt struct {
		name string
		run  func(a, b any)
	}
	ab := func() *z.StructSchema { return z.Struct(z.Schema{"a": z.String().Required(), "b": z.Int()}) }
	targets := []pt{
		{"Struct{a,b} fields a,b", func(a, b any) { var d c06AB; ab().Parse(map[string]any{"a": a, "b": b}, &d) }},
		{"Slice(String) elements", func(a, b any) { var d []string; z.Slice(z.String()).Parse([]any{a, b}, &d) }},
		{"Slice(Struct) elements", func(a, b any) { var d []c06AB; z.Slice(ab()).Parse([]any{a, b}, &d) }},
		{"Nest fields n,p", func(a, b any) {
			var d c06Nest
			z.Struct(z.Schema{"n": z.Struct(z.Schema{"a": z.String()}), "p": z.Ptr(ab())}).Parse(map[string]any{"n": a, "p": b}, &d)
		}},
	}
	return func(x *mc.X) *mc.Outcome {
		zh.Reset()
		zh.Install(x, zh.PoolLIFO, zh.OrderFree)
		ti := x.Choose(len(targets), "target")
		a := x.Choose(len(zoo), "zoo1")
		b := x.Choose(len(zoo), "zoo2")
		msg, where := c06Guard(func() { targets[ti].run(zoo[a].v, zoo[b].v) })
		zh.Reset()
		return c06Outcome(x, targets[ti].name, zoo[a].name+" + "+zoo[b].name, msg, where)
	}
}

// after a history: the call under test starts from whatever earlier calls left in the pools
func c06HistoryScenario(maxLen int, first int) mc.Scenario {
	zoo := c06Zoo()
	targets := c06Targets()
	events := c07Events()
	benign := []int{}
	for i, zi := range zoo {
		switch zi.name {
		case "untyped nil", "map[string]any{a,b}", "string", "int", "[]string", "struct exported":
			benign = append(benign, i)
		}
	}
	return func(x *mc.X) *mc.Outcome {
		zh.Reset()
		zh.Install(x, zh.PoolLIFO, zh.OrderSorted)
		var hist []string
		n := 1 + x.Choose(maxLen, "historyLength")
		for i := 0; i < n; i++ {
			e := first
			if i > 0 {
				e = x.Choose(len(events), "event")
			}
			c := x.Choose(3, "collect") // C06 keeps all three modes
			hist = append(hist, fmt.Sprintf("%s collect=%d", events[e].name, c))
			func() {
				defer func() { recover() }()
				events[e].run(c)
			}()
		}
		ti := x.Choose(len(targets), "target")
		zi := benign[x.Choose(len(benign), "input")]
		msg, where := c06Guard(func() { targets[ti].run(zoo[zi].v) })
		zh.Reset()
		out := c06Outcome(x, targets[ti].name, zoo[zi].name+" after history ["+strings.Join(hist, " ; ")+"]", msg, where)
		for _, v := range out.Viol {
			v.Key = strings.Replace(v.Key, "C06:panic:", "C06:panic-after-history:", 1)
		}
		return out
	}
}

// c06ScalarTexts: every printable ASCII character on its own, and short texts built from quotes, escapes and blanks.
func c06ScalarTexts() []string {
	var out []string
	for c := byte(0x20); c < 0x7f; c++ {
		out = append(out, string([]byte{c}))
	}
	out = append(out, "", "\"\"", "''", "\"a", "a\"", "\"a\"", "'a'", "\"'", "\\", "\\\"", " \" ", "\t", "\n", "a\nb", "\x00", "\xff", "%zz", "+", "a=b", "a&b", "[]", "[", "{}", "${HOME}", "$a", "0x10", "1e400", "-", "--", "..", "9223372036854775808")
	return out
}

func c06JSONTexts() []string {
	doc := `{"a":"x","b":1,"n":{"a":"y"},"l":[1,2],"p":{"a":"z","b":2},"q":3}`
	texts := []string{`{}`, `[]`, `null`, `1`, `"s"`, `true`, ``, ` `, `{`, `}`, `{"a":}`, `{"a":"x","a":"y"}`, `{"a":null,"b":null}`,
		`{"a":{"a":{"a":1}}}`, `{"a":[1,[2,[3]]],"b":"x"}`, `{"b":1e400}`, `{"b":123456789012345678901234567890}`, `{"b":-0}`, `{"b":1.5}`,
		"\xef\xbb\xbf{}", `{"a":"\ud800"}`, `{"a":"\u0000"}`, `{"n":1,"l":{"x":1},"p":[1],"q":{}}`, `{"n":null,"l":null,"p":null,"q":null}`,
		`{"n":{},"l":[],"p":{},"q":0}`, `{"l":[null,"x",{},[]]}`, `{"":"empty key"}`, doc + doc, doc + "x"}
	for i := 0; i <= len(doc); i++ {
		texts = append(texts, doc[:i])
	}
	deep := strings.Repeat(`{"a":`, 10001) + `1` + strings.Repeat(`}`, 10001)
	texts = append(texts, deep, strings.Repeat("[", 10001))
	// every one-byte body, and every two- and three-byte body over the bytes that begin or end something
	// (byte order mark, braces, quote, NUL, 0xFF, blank)
	for b := 0; b < 256; b++ {
		texts = append(texts, string([]byte{byte(b)}))
	}
	special := []byte{0xEF, 0xBB, 0xBF, '{', '}', '"', 0x00, 0xFF, ' ', 'n'}
	for _, a := range special {
		for _, b := range special {
			texts = append(texts, string([]byte{a, b}))
			for _, c := range []byte{0xEF, 0xBB, 0xBF, '{', '}'} {
				texts = append(texts, string([]byte{a, b, c}))
			}
		}
	}
	return texts
}

func c06FrontScenario() mc.Scenario {
	jsons := c06JSONTexts()
	forms := []string{"", "a=x&b=1", "a=%zz", "a=1;b=2", "a[]=1&a[]=2", "=x", "&&&", "a", "a=x&a=y", "l=1&l=2&l=x", "n=1", "n.a=x", "n[a]=x", "q=", "b=abc", "l[]=1", "p=1",
		strings.Repeat("a=x&", 1000), "a=" + strings.Repeat("y", 70000), "%", "a=%00", "a=\xff"}
	nest := func() *z.StructSchema {
		return z.Struct(z.Schema{
			"a": z.String().Required(), "b": z.Int(),
			"n": z.Struct(z.Schema{"a": z.String()}),
			"l": z.Slice(z.Int()),
			"p": z.Ptr(z.Struct(z.Schema{"a": z.String(), "b": z.Int()})),
			"q": z.Ptr(z.Int()),
		})
	}
	type dest struct {
		A string
		B int
		N struct{ A string }
		L []int
		P *c06AB
		Q *int
	}
	schemas := []struct {
		name string
		run  func(data any)
	}{
		{"nested struct schema", func(data any) { var d dest; nest().Parse(data, &d) }},
		{"Ptr(struct) schema", func(data any) { var d *dest; z.Ptr(nest()).Parse(data, &d) }},
		{"Slice schema", func(data any) { var d []string; z.Slice(z.String()).Parse(data, &d) }},
		{"String schema", func(data any) { var d string; z.String().Parse(data, &d) }},
	}
	return func(x *mc.X) *mc.Outcome {
		zh.Reset()
		zh.Install(x, zh.PoolLIFO, zh.OrderFree)
		si := x.Choose(len(schemas), "schema")
		fe := x.Choose(7, "frontend")
		var input string
		var mk func() any
		switch fe {
		case 0:
			t := jsons[x.Choose(len(jsons), "json")]
			input = "zjson.Decode " + clip(t)
			mk = func() any { return zjson.Decode(strings.NewReader(t)) }
		case 1:
			t := jsons[x.Choose(len(jsons), "json")]
			input = "zhttp JSON body " + clip(t)
			mk = func() any {
				r := httptest.NewRequest(http.MethodPost, "/", strings.NewReader(t))
				r.Header.Set("Content-Type", "application/json")
				return zhttp.Request(r)
			}
		case 2:
			t := forms[x.Choose(len(forms), "form")]
			input = "zhttp form body " + clip(t)
			mk = func() any {
				r := httptest.NewRequest(http.MethodPost, "/?b=7&a=q", strings.NewReader(t))
				r.Header.Set("Content-Type", "application/x-www-form-urlencoded")
				return zhttp.Request(r)
			}
		case 3:
			t := forms[x.Choose(len(forms), "form")]
			input = "zhttp query " + clip(t)
			mk = func() any {
				r := httptest.NewRequest(http.MethodGet, "/", nil)
				r.URL.RawQuery = t
				return zhttp.Request(r)
			}
		case 4:
			ev := x.Choose(4, "env")
			input = fmt.Sprintf("zenv variant %d", ev)
			mk = func() any {
				for _, k := range []string{"a", "b", "n", "l", "p", "q"} {
					os.Unsetenv(k)
				}
				switch ev {
				case 1:
					os.Setenv("a", "")
					os.Setenv("b", " ")
				case 2:
					os.Setenv("a", " x ")
					os.Setenv("b", "abc")
					os.Setenv("l", "1")
					os.Setenv("q", "2")
				case 3:
					os.Setenv("a", "\xff")
					os.Setenv("n", "x")
					os.Setenv("p", "y")
				}
				return zenv.NewDataProvider()
			}
		case 6:
			// one scalar text as the value of one parameter, through each flat channel (canonical field order: the
			// other front-end cases of this item enumerate the visit orders)
			zh.Install(x, zh.PoolLIFO, zh.OrderSorted)
			texts := c06ScalarTexts()
			t := texts[x.Choose(len(texts), "text")]
			param := []string{"a", "b", "l", "q", "n", "p"}[x.Choose(6, "param")]
			ch := x.Choose(3, "channel")
			input = fmt.Sprintf("%s parameter %s = %q", []string{"form", "query", "environment"}[ch], param, t)
			mk = func() any {
				switch ch {
				case 0:
					r := httptest.NewRequest(http.MethodPost, "/", strings.NewReader(param+"="+url.QueryEscape(t)))
					r.Header.Set("Content-Type", "application/x-www-form-urlencoded")
					return zhttp.Request(r)
				case 1:
					r := httptest.NewRequest(http.MethodGet, "/", nil)
					r.URL.RawQuery = param + "=" + url.QueryEscape(t)
					return zhttp.Request(r)
				}
				for _, k := range []string{"a", "b", "n", "l", "p", "q"} {
					os.Unsetenv(k)
				}
				if !strings.ContainsRune(t, 0) {
					os.Setenv(param, t)
				}
				return zenv.NewDataProvider()
			}
		case 5:
			ct := []string{"", "application/json", "application/json; charset=utf-8", "text/plain", "multipart/form-data; boundary=x", "APPLICATION/JSON", " application/json", "application/x-www-form-urlencoded;charset=UTF-8"}[x.Choose(8, "ctype")]
			m := []string{"POST", "PUT", "PATCH", "DELETE", "OPTIONS", "HEAD", "GET"}[x.Choose(7, "method")]
			input = fmt.Sprintf("zhttp %s content-type %q body `{}`", m, ct)
			mk = func() any {
				r := httptest.NewRequest(m, "/?a=x", strings.NewReader(`{}`))
				if ct != "" {
					r.Header.Set("Content-Type", ct)
				}
				return zhttp.Request(r)
			}
		}
		msg, where := c06Guard(func() { schemas[si].run(mk()) })
		zh.Reset()
		return c06Outcome(x, schemas[si].name+" via front end", input, msg, where)
	}
}

func clip(s string) string {
	if len(s) > 80 {
		return fmt.Sprintf("%q…(%d bytes)", s[:80], len(s))
	}
	return fmt.Sprintf("%q", s)
}

func init() {
	Register(&Prop{
		ID:    "C06",
		Rule:  "one execution = one (well-formed schema+destination target, input position, zoo value[s] | front end, raw text) case, full product; every case is non-trivial (the input reaches zog); distinct = distinct (target, panic class)",
		Floor: 20,
		Bound: func(tier string) string {
			if tier == "thorough" {
				return fmt.Sprintf("%d targets × %d zoo values at one position, + all pairs of zoo values at two positions of 4 targets, + every front end × raw text × 4 schemas", len(c06Targets()), len(c06Zoo()))
			}
			return fmt.Sprintf("%d targets × %d zoo values at one position, + every front end × raw text × 4 schemas; + every target after every history of 1 (thorough: 1–2) earlier calls (16 events × 3 collect modes, LIFO pools)", len(c06Targets()), len(c06Zoo()))
		},
		Assumptions: []string{
			"every (schema, destination) pair in the catalogue is well-formed, so any panic is attributable to input data",
			"termination: the run completes; a hang would surface as the worker deadline (harness error), not as a pass",
		},
		Items: func(tier string) []Item {
			items := []Item{
				{Name: "zoo", MaxDevs: -1, Run: c06ZooScenario(false)},
				{Name: "frontends", MaxDevs: -1, Run: c06FrontScenario()},
				{Name: "long-nested-paths", MaxDevs: -1, Run: c06LongNestedPathsScenario},
			}
			hl := 1
			if tier == "thorough" {
				hl = 2
			}
			for i, e := range c07Events() {
				items = append(items, Item{Name: "after-history/" + e.name, MaxDevs: -1, Run: c06HistoryScenario(hl, i)})
			}
			if tier == "thorough" {
				items = append(items, Item{Name: "zoo-pairs", MaxDevs: -1, Run: c06PairScenario()})
			}
			return items
		},
	})
}

// "...valid configuration such as long field names never panics": records nested three deep whose key lengths
// are chosen around the sizes a path buffer might have (1, 20, 23, 31, 32, 40, 63 bytes each), the innermost
// leaf missing / failing / valid, through a Go map and a JSON document: Parse returns.
func c06LongNestedPathsScenario(x *mc.X) *mc.Outcome {
	zh.Reset()
	zh.Install(x, zh.PoolLIFO, zh.OrderSorted)
	lens := []int{1, 20, 23, 31, 32, 40, 63}
	l1, l2, l3 := lens[x.Choose(len(lens), "outer key length")], lens[x.Choose(len(lens), "middle key length")], lens[x.Choose(len(lens), "leaf key length")]
	leaf := x.Choose(3, "leaf") // 0 missing (required), 1 failing, 2 valid
	viaJSON := x.Bool("json")
	name := func(n int, c string) string { return strings.ToUpper(c) + strings.Repeat(c, n-1) }
	k1, k2, k3 := name(l1, "a"), name(l2, "b"), name(l3, "c")
	inner := reflect.StructOf([]reflect.StructField{{Name: k3, Type: reflect.TypeOf("")}, {Name: "Items", Type: reflect.TypeOf([]string(nil))}})
	mid := reflect.StructOf([]reflect.StructField{{Name: k2, Type: inner}})
	outer := reflect.StructOf([]reflect.StructField{{Name: k1, Type: mid}})
	sc := z.Struct(z.Schema{k1: z.Struct(z.Schema{k2: z.Struct(z.Schema{k3: z.String().Min(3).Required(), "Items": z.Slice(z.String().Min(3))})})})
	in3 := map[string]any{"Items": []any{"ok-item", "x"}}
	switch leaf {
	case 1:
		in3[k3] = "x"
	case 2:
		in3[k3] = "long enough"
	}
	in := map[string]any{k1: map[string]any{k2: in3}}
	d := reflect.New(outer)
	var issues int
	msg, where := c06Guard(func() {
		var data any = in
		if viaJSON {
			b, _ := json.Marshal(in)
			data = zjson.Decode(strings.NewReader(string(b)))
		}
		issues = len(sc.Parse(data, d.Interface()))
	})
	zh.Reset()
	out := &mc.Outcome{Traces: 1, Nontrivial: true, Sig: fmt.Sprintf("longpaths|%d|%d|%d|%d|%v", l1, l2, l3, leaf, viaJSON)}
	out.Sample = map[string]any{"key_lengths": []int{l1, l2, l3}, "leaf": leaf, "json": viaJSON, "issues": issues}
	if msg != "" {
		x.Note("records nested three deep with keys of %d, %d and %d bytes; leaf %d (0 missing, 1 failing, 2 valid); through JSON=%v", l1, l2, l3, leaf, viaJSON)
		out.Viol = append(out.Viol, &mc.Violation{Key: "C06:panic:long-nested-paths:" + where + ":" + c06MsgClass(msg), What: "Parse panicked on a record with long (valid) nested field names", Expected: "issues or success", Observed: msg})
	}
	return out
}
