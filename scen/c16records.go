package scen

// C16 (continued): derived schemas that contain record fields, read through tagged front ends. A schema
// obtained by Extend / Merge / Pick / Omit must behave like the hand-written schema with the same fields for
// every input source — also when the derivation is what introduces the record field, and when the nested
// destination's source tags differ from the schema keys (nested lookups go through the parent's provider).

import (
	"fmt"
	"net/http"
	"net/http/httptest"
	"strings"

	z "github.com/Oudwins/zog"
	"github.com/Oudwins/zog/parsers/zjson"
	"github.com/Oudwins/zog/zhttp"
	"zogverif/mc"
	"zogverif/zh"
)

type c16RecInner struct {
	S string `json:"s_json"`
}

type c16RecDest struct {
	A  string       `json:"a_json"`
	R  c16RecInner  `json:"r_json"`
	P  *c16RecInner `json:"p_json"`
	Zz int          `json:"zz_json"`
}

func c16RecordsScenario(x *mc.X) *mc.Outcome {
	zh.Reset()
	zh.Install(x, zh.PoolLIFO, zh.OrderSorted)
	a := func() z.ZogSchema { return z.String().Min(3) }
	r := func() z.ZogSchema { return z.Struct(z.Schema{"s": z.String().Min(2).Required()}) }
	p := func() z.ZogSchema { return z.Ptr(z.Struct(z.Schema{"s": z.String().Min(2).Required()})) }
	hand := func() *z.StructSchema { return z.Struct(z.Schema{"a": a(), "r": r(), "p": p()}) }
	flat := func() *z.StructSchema { return z.Struct(z.Schema{"a": a()}) }
	ders := []struct {
		name string
		mk   func() *z.StructSchema
	}{
		{"Struct{a}.Extend({r, p})", func() *z.StructSchema { return flat().Extend(z.Schema{"r": r(), "p": p()}) }},
		{"Struct{a}.Extend({r}).Extend({p})", func() *z.StructSchema { return flat().Extend(z.Schema{"r": r()}).Extend(z.Schema{"p": p()}) }},
		{"Struct{a}.Merge(Struct{r, p})", func() *z.StructSchema { return flat().Merge(z.Struct(z.Schema{"r": r(), "p": p()})) }},
		{"Struct{r, p}.Merge(Struct{a})", func() *z.StructSchema { return z.Struct(z.Schema{"r": r(), "p": p()}).Merge(flat()) }},
		{"Struct{r, p}.Extend({a})", func() *z.StructSchema { return z.Struct(z.Schema{"r": r(), "p": p()}).Extend(z.Schema{"a": a()}) }},
		{"Struct{a, r, p, zz}.Omit(zz)", func() *z.StructSchema {
			return z.Struct(z.Schema{"a": a(), "r": r(), "p": p(), "zz": z.Int()}).Omit("zz")
		}},
		{"Struct{a, r, p, zz}.Pick(a, r, p)", func() *z.StructSchema {
			return z.Struct(z.Schema{"a": a(), "r": r(), "p": p(), "zz": z.Int()}).Pick("a", "r", "p")
		}},
		{"Struct{a, p, r: Struct{s, extra} with a record-level test}.Merge(Struct{r}) (the later field replaces the earlier)", func() *z.StructSchema {
			earlier := z.Struct(z.Schema{"s": z.String().Min(9).Required(), "extra": z.String().Required()}).TestFunc(func(v any, c z.Ctx) bool { return false }, z.IssueCode("earlier_rule"))
			return z.Struct(z.Schema{"a": a(), "p": p(), "r": earlier}).Merge(z.Struct(z.Schema{"r": r()}))
		}},
		{"Struct{a, zz}.Omit(zz).Extend({r}).Merge(Struct{p})", func() *z.StructSchema {
			return z.Struct(z.Schema{"a": a(), "zz": z.Int()}).Omit("zz").Extend(z.Schema{"r": r()}).Merge(z.Struct(z.Schema{"p": p()}))
		}},
	}
	d := ders[x.Choose(len(ders), "derivation")]
	fe := x.Choose(3, "front end") // 0 Go map (schema keys), 1 zjson (json tags), 2 zhttp JSON body
	rv := []string{`"ok"`, `"x"`, ``}[x.Choose(3, "r.s")] // valid, failing, missing
	pv := []string{`"ok"`, `"x"`, ``, `absent`}[x.Choose(4, "p.s")]
	run := func(s *z.StructSchema) (iss []string, dest string, pmsg string) {
		defer func() {
			if rec := recover(); rec != nil {
				pmsg = firstLine(fmt.Sprint(rec))
			}
		}()
		var dst c16RecDest
		var m z.ZogIssueMap
		if fe == 0 {
			inner := func(v string) map[string]any {
				if v == "" {
					return map[string]any{}
				}
				return map[string]any{"s": strings.Trim(v, `"`)}
			}
			in := map[string]any{"a": "abcdef", "r": inner(rv)}
			if pv != "absent" {
				in["p"] = inner(pv)
			}
			m = s.Parse(in, &dst)
		} else {
			inner := func(v string) string {
				if v == "" {
					return `{}`
				}
				return `{"s_json":` + v + `}`
			}
			doc := `{"a_json":"abcdef","r_json":` + inner(rv)
			if pv != "absent" {
				doc += `,"p_json":` + inner(pv)
			}
			doc += `}`
			if fe == 1 {
				m = s.Parse(zjson.Decode(strings.NewReader(doc)), &dst)
			} else {
				req := httptest.NewRequest(http.MethodPost, "/", strings.NewReader(doc))
				req.Header.Set("Content-Type", "application/json")
				m = s.Parse(zhttp.Request(req), &dst)
			}
		}
		for _, k := range sortedKeys(m) {
			if k != "$first" {
				for _, is := range m[k] {
					iss = append(iss, k+"|"+is.Code)
				}
			}
		}
		ps := "<nil>"
		if dst.P != nil {
			ps = dst.P.S
		}
		return iss, fmt.Sprintf("a=%q r.s=%q p.s=%s", dst.A, dst.R.S, ps), ""
	}
	gi, gd, gp := run(d.mk())
	wi, wd, wp := run(hand())
	zh.Reset()
	out := &mc.Outcome{Traces: 2, Nontrivial: true, Sig: fmt.Sprintf("records|%s|%d|%s|%s", d.name, fe, rv, pv)}
	out.Sample = map[string]any{"derivation": d.name, "front_end": fe, "issues": wi, "dest": wd}
	if gp != wp || !eqStrings(gi, wi) || gd != wd {
		x.Note("derivation %s; front end %d (0 Go map, 1 zjson, 2 zhttp JSON body; the destination's json tags differ from the schema keys); r.s=%s p.s=%s", d.name, fe, rv, pv)
		out.Viol = append(out.Viol, &mc.Violation{Key: fmt.Sprintf("C16:records:%d:%s", fe, strings.SplitN(d.name, "(", 2)[0]), What: "a derived schema with record fields does not behave like the hand-written schema with the same fields", Expected: fmt.Sprintf("panic=%q issues=%v dest=%s", wp, wi, wd), Observed: fmt.Sprintf("panic=%q issues=%v dest=%s", gp, gi, gd)})
	}
	return out
}
