package scen

// C07 — each execution is isolated from every other execution.
// Explicit-state breadth-first search over pool states (DESIGN §3.5): a state
// is what earlier calls left in zog's seven object pools; it is reached by a
// history (events with the pool answers they received) replayed on cleared
// pools. In every reached state every probe is executed under every pool
// answer and its complete observation is compared with the same probe on
// cleared pools.

import (
	"fmt"
	"net/http"
	"net/http/httptest"
	"os"
	"reflect"
	"sort"
	"strings"
	"time"

	z "github.com/Oudwins/zog"
	"github.com/Oudwins/zog/parsers/zjson"
	"github.com/Oudwins/zog/zhttp"
	"github.com/Oudwins/zog/zverif"
	"zogverif/mc"
	"zogverif/zh"
)

type c07Event struct {
	name string
	run  func(collect int)
}

func c07Collect(collect int, l z.ZogIssueList, m z.ZogIssueMap) {
	switch collect {
	case 1:
		if l != nil {
			z.Issues.CollectList(l)
		}
		if m != nil {
			z.Issues.CollectMap(m)
		}
	case 2:
		if l != nil {
			z.Issues.SanitizeListAndCollect(l)
		}
		if m != nil {
			z.Issues.SanitizeMapAndCollect(m)
		}
	}
}

type c07S3 struct {
	A struct {
		B struct {
			C string
		}
	}
}

func c07Deep() *z.StructSchema {
	return z.Struct(z.Schema{"a": z.Struct(z.Schema{"b": z.Struct(z.Schema{"c": z.String().Min(5).Required()})})})
}

type c07Deep6 struct {
	A struct {
		B struct {
			C struct {
				D struct {
					E struct {
						L []string
					}
				}
			}
		}
	}
}

func c07Deep6Schema() *z.StructSchema {
	return z.Struct(z.Schema{"a": z.Struct(z.Schema{"b": z.Struct(z.Schema{"c": z.Struct(z.Schema{"d": z.Struct(z.Schema{"e": z.Struct(z.Schema{"l": z.Slice(z.String().Min(5))})})})})})})
}

type c07Sib struct {
	A string
	B []string
}

func c07Events() []c07Event {
	fmter := func(e *z.ZogIssue, c z.Ctx) { e.SetMessage("custom-formatter-message") }
	return []c07Event{
		{"String.Min(5).Parse(ab) [test failure with params]", func(c int) {
			var d string
			c07Collect(c, z.String().Min(5).Parse("ab", &d), nil)
		}},
		{"String.Min(5).Catch.Parse(ab) [issue swallowed and released]", func(c int) {
			var d string
			c07Collect(c, z.String().Min(5).Catch("c").Parse("ab", &d), nil)
		}},
		{"Int.Parse(abc) [coercion failure]", func(c int) {
			var d int
			c07Collect(c, z.Int().Parse("abc", &d), nil)
		}},
		{"String.Parse(ok, WithCtxValue(k,leak), WithCtxValue(lang,es))", func(c int) {
			var d string
			c07Collect(c, z.String().Min(1).Parse("ok", &d, z.WithCtxValue("k", "leak"), z.WithCtxValue("lang", "es")), nil)
		}},
		{"String.Min(5).Parse(ab, WithIssueFormatter(f))", func(c int) {
			var d string
			c07Collect(c, z.String().Min(5).Parse("ab", &d, z.WithIssueFormatter(fmter)), nil)
		}},
		{"Struct{a.b.c}.Parse(failing at a 3-deep path)", func(c int) {
			var d c07S3
			c07Collect(c, nil, c07Deep().Parse(map[string]any{"a": map[string]any{"b": map[string]any{"c": "x"}}}, &d))
		}},
		{"Slice(String.Min(5)).Parse([x,y]) [two failing elements]", func(c int) {
			var d []string
			c07Collect(c, nil, z.Slice(z.String().Min(5)).Parse([]any{"x", "y"}, &d))
		}},
		{"String.Min(5).Contains(z).Validate(ab) [two issues]", func(c int) {
			d := "ab"
			c07Collect(c, z.String().Min(5).Contains("z").Validate(&d), nil)
		}},
		{"Struct{a.b.c}.Validate(failing)", func(c int) {
			var d c07S3
			d.A.B.C = "x"
			c07Collect(c, nil, c07Deep().Validate(&d))
		}},
		{"Slice(String.Min(5)).Validate([x,y], WithCtxValue(k,leak2))", func(c int) {
			d := []string{"x", "y"}
			c07Collect(c, nil, z.Slice(z.String().Min(5)).Validate(&d, z.WithCtxValue("k", "leak2")))
		}},
		{"Struct{a:Catch,b:Slice.Required}.Parse(a fails, b missing)", func(c int) {
			var d c07Sib
			c07Collect(c, nil, z.Struct(z.Schema{"a": z.String().Min(5).Catch("c"), "b": z.Slice(z.String()).Required()}).Parse(map[string]any{"a": "x"}, &d))
		}},
		{"6-level nested struct + slice, failing at a.b.c.d.e.l[1] (path builder grows)", func(c int) {
			var d c07Deep6
			c07Collect(c, nil, c07Deep6Schema().Parse(map[string]any{"a": map[string]any{"b": map[string]any{"c": map[string]any{"d": map[string]any{"e": map[string]any{"l": []any{"long-enough", "x"}}}}}}}, &d))
		}},
		{"Ptr(Struct).Parse(front end that fails to decode: malformed JSON) [error path of a top-level pointer]", func(c int) {
			var d *c07Sib
			c07Collect(c, nil, z.Ptr(z.Struct(z.Schema{"a": z.String(), "b": z.Slice(z.String())})).Parse(zjson.Decode(strings.NewReader(`{"a":`)), &d))
		}},
		{"Struct.Parse(front end that fails to decode: malformed form body)", func(c int) {
			var d c07Sib
			r := httptest.NewRequest(http.MethodPost, "/", strings.NewReader(`a=%zz`))
			r.Header.Set("Content-Type", "application/x-www-form-urlencoded")
			c07Collect(c, nil, z.Struct(z.Schema{"a": z.String(), "b": z.Slice(z.String())}).Parse(zhttp.Request(r), &d))
		}},
		{"Ptr(Struct).Parse(JSON null) [front end yields no record]", func(c int) {
			var d *c07Sib
			c07Collect(c, nil, z.Ptr(z.Struct(z.Schema{"a": z.String().Required()})).NotNil().Parse(zjson.Decode(strings.NewReader(`null`)), &d))
		}},
		{"String.Min(1).Catch.Parse(valid) [catching node, nothing caught]", func(c int) {
			var d string
			c07Collect(c, z.String().Min(1).Catch("c").Parse("ok", &d), nil)
		}},
		{"Struct{a: String.Min(5).Catch, n: Int.Catch}.Validate(a fails: caught)", func(c int) {
			d := struct {
				A string
				N int
			}{"x", 3}
			c07Collect(c, nil, z.Struct(z.Schema{"a": z.String().Min(5).Catch("c"), "n": z.Int().GT(5).Catch(9)}).Validate(&d))
		}},
		{"String.Min(5, Message(custom)).Catch.Parse(ab) [swallowed issue carries a message]", func(c int) {
			var d string
			c07Collect(c, z.String().Min(5, z.Message("custom-message")).Catch("c").Parse("ab", &d), nil)
		}},
		{"nested struct whose field test panics (the caller recovers)", func(c int) {
			var d c07S3
			sc := z.Struct(z.Schema{"a": z.Struct(z.Schema{"b": z.Struct(z.Schema{"c": z.String().TestFunc(func(v any, ctx z.Ctx) bool { panic("user test panics") })})})})
			func() {
				defer func() { recover() }()
				sc.Parse(map[string]any{"a": map[string]any{"b": map[string]any{"c": "x"}}}, &d)
			}()
		}},
		{"slice element PostTransform panics during Validate (the caller recovers)", func(c int) {
			d := []string{"ok", "boom"}
			sc := z.Slice(z.String().PostTransform(func(p any, ctx z.Ctx) error {
				if *(p.(*string)) == "boom" {
					panic("user transform panics")
				}
				return nil
			}))
			func() {
				defer func() { recover() }()
				sc.Validate(&d)
			}()
		}},
		{"Struct{tags: Slice, name: String.Min(5)}.Parse({tags: [], name: x}) [present empty list]", func(c int) {
			var d struct {
				Tags []string
				Name string
			}
			c07Collect(c, nil, z.Struct(z.Schema{"tags": z.Slice(z.String()), "name": z.String().Min(5)}).Parse(map[string]any{"tags": []any{}, "name": "x"}, &d))
		}},
		{"Slice(Slice(String.Min(3))).Parse([[], [x]]) [empty list before a failing one]", func(c int) {
			var d [][]string
			c07Collect(c, nil, z.Slice(z.Slice(z.String().Min(3))).Parse([]any{[]any{}, []any{"x"}}, &d))
		}},
		{"Struct.TestFunc(fail, IssuePath(custom)).Parse", func(c int) {
			var d c07Sib
			c07Collect(c, nil, z.Struct(z.Schema{"a": z.String()}).TestFunc(func(v any, ctx z.Ctx) bool { return false }, z.IssuePath("custom.path"), z.Message("m")).Parse(map[string]any{"a": "x"}, &d))
		}},
	}
}

// probes return the complete canonical observation of one call
type c07Probe struct {
	name string
	run  func() string
}

func c07Probes() []c07Probe {
	obs := func(parts ...any) string {
		var sb strings.Builder
		for _, p := range parts {
			sb.WriteString(zh.CanonString(p))
			sb.WriteString(" ;; ")
		}
		return sb.String()
	}
	return []c07Probe{
		{"ctx.Get(k), ctx.Get(lang) seen by a test of a call without options", func() string {
			var seen []any
			var d string
			l := z.String().TestFunc(func(v any, ctx z.Ctx) bool {
				seen = append(seen, ctx.Get("k"), ctx.Get("lang"))
				return true
			}).Parse("abc", &d)
			return obs(seen, l, d)
		}},
		{"coercion failure: every issue field (Params must be empty)", func() string {
			var d int
			l := z.Int().Parse("abc", &d)
			return obs(l, d)
		}},
		{"two simultaneous test failures: two distinct issues with their own fields", func() string {
			var d string
			l := z.String().Min(5).Contains("z").Parse("ab", &d)
			distinct := len(l) == 2 && l[0] != l[1]
			return obs(l, d, distinct)
		}},
		{"catching field next to a required slice (map result)", func() string {
			var d c07Sib
			m := z.Struct(z.Schema{"a": z.String().Min(5).Catch("c"), "b": z.Slice(z.String()).Required()}).Parse(map[string]any{"a": "x"}, &d)
			return obs(m, d)
		}},
		{"3-deep failing path (path rendering)", func() string {
			var d c07S3
			m := c07Deep().Parse(map[string]any{"a": map[string]any{"b": map[string]any{"c": "x"}}}, &d)
			return obs(m, d)
		}},
		{"Validate: struct with failing field and required field", func() string {
			var d c07S3
			d.A.B.C = "x"
			m := c07Deep().Validate(&d)
			return obs(m, d)
		}},
		{"slice with failing elements (index paths) and a slice-level test", func() string {
			var d []string
			m := z.Slice(z.String().Min(5)).Min(3).Parse([]any{"x", "long-enough"}, &d)
			return obs(m, d)
		}},
		{"successful struct parse with two fields", func() string {
			var d c07Sib
			m := z.Struct(z.Schema{"a": z.String().Min(1), "b": z.Slice(z.String())}).Parse(map[string]any{"a": "x", "b": []any{"p", "q"}}, &d)
			return obs(m, d)
		}},
		{"required + PostTransform error + ctx.Issue() from a test (issue built by NewZogIssue)", func() string {
			var d string
			l := z.String().Test(z.Test{Func: func(v any, ctx z.Ctx) {
				ctx.AddIssue(ctx.Issue().SetMessage("manual"))
			}}).Parse("abc", &d)
			var d2 string
			l2 := z.String().Required().Parse("", &d2)
			return obs(l, d, l2, d2)
		}},
		{"Validate through pointers: NotNil on nil, struct behind pointer, slice behind pointer, catching int behind pointer", func() string {
			var np *string
			m1 := z.Ptr(z.String()).NotNil().Validate(&np)
			sv := &c07Sib{A: "x", B: []string{"p"}}
			m2 := z.Ptr(z.Struct(z.Schema{"a": z.String().Min(5), "b": z.Slice(z.String().Min(3)).Min(2)}).TestFunc(func(v any, ctx z.Ctx) bool { return false }, z.IssueCode("s1")).TestFunc(func(v any, ctx z.Ctx) bool { return false }, z.IssueCode("s2"))).Validate(&sv)
			sl := &[]string{"x", "long-enough"}
			m3 := z.Ptr(z.Slice(z.String().Min(5)).Min(3).Max(1)).Validate(&sl)
			iv := 5
			ip := &iv
			m4 := z.Ptr(z.Int().GT(0).Catch(7)).Validate(&ip)
			return obs(m1, np, m2, *sv, m3, *sl, m4, *ip)
		}},
		{"Custom and Preprocess schemas failing", func() string {
			var d int
			l := z.CustomFunc(func(p *int, ctx z.Ctx) bool { return *p > 0 }, z.IssueCode("neg")).Parse(-1, &d)
			var d2 int
			l2 := z.CustomFunc(func(p *int, ctx z.Ctx) bool { return true }).Parse("x", &d2)
			var d3 int
			l3 := z.Preprocess(func(s string, ctx z.Ctx) (int, error) { return len(s), nil }, z.Int().GT(5)).Parse("abc", &d3)
			return obs(l, d, l2, d2, l3, d3)
		}},
		{"6-level path after any history", func() string {
			var d c07Deep6
			m := c07Deep6Schema().Parse(map[string]any{"a": map[string]any{"b": map[string]any{"c": map[string]any{"d": map[string]any{"e": map[string]any{"l": []any{"x"}}}}}}}, &d)
			return obs(m, d)
		}},
		{"pointer not_nil and nested pointer struct", func() string {
			var d *c07Sib
			m := z.Ptr(z.Struct(z.Schema{"a": z.String().Min(5)})).NotNil().Parse(nil, &d)
			var d2 *c07Sib
			m2 := z.Ptr(z.Struct(z.Schema{"a": z.String().Min(5)})).Parse(map[string]any{"a": "x"}, &d2)
			return obs(m, d, m2, d2)
		}},
	}
}


// c07RunHistory runs a history chosen through x: repeat {more?; event; collect}.
// It stops after maxEvents events (returning stopped=true) or when "more" is 0.
func c07RunHistory(x *mc.X, maxEvents int) (hist []string, n int, capped bool) {
	events := c07Events()
	for {
		if n >= maxEvents {
			return hist, n, true
		}
		if x.Choose(2, "more") == 0 {
			return hist, n, false
		}
		e := x.Choose(len(events), "event")
		c := x.Choose(2, "collect")
		if c == 1 && e%2 == 1 {
			c = 2 // odd events hand their issues back through Sanitize*AndCollect, even ones through Collect*
		}
		hist = append(hist, fmt.Sprintf("%s collect=%d", events[e].name, c))
		func() {
			defer func() {
				if r := recover(); r != nil {
					if he, ok := r.(mc.HarnessError); ok {
						panic(he)
					}
					hist = append(hist, fmt.Sprintf("PANIC in event: %v", r))
				}
			}()
			events[e].run(c)
		}()
		n++
	}
}

func c07RunProbe(p c07Probe) (got string) {
	defer func() {
		if r := recover(); r != nil {
			if he, ok := r.(mc.HarnessError); ok {
				panic(he)
			}
			got = fmt.Sprintf("PANIC: %v", r)
		}
	}()
	return p.run()
}

func c07Verdict(x *mc.X, probe int, got string, baseline []string, hist []string, out *mc.Outcome) {
	probes := c07Probes()
	out.Sig = fmt.Sprintf("p%d|%s", probe, hashStr(got+strings.Join(x.Labels(), ",")))
	out.LazySample = func() any {
		return map[string]any{"history": hist, "probe": probes[probe].name, "choices": x.Labels(), "observation": got}
	}
	if got != baseline[probe] {
		x.Note("history / pool content: %s", strings.Join(hist, " ; "))
		x.Note("probe: %s", probes[probe].name)
		x.Note("choices: %v", x.Labels())
		out.Viol = append(out.Viol, &mc.Violation{
			Key:      fmt.Sprintf("C07:probe%d:%s", probe, c07DiffClass(baseline[probe], got)),
			What:     fmt.Sprintf("probe %q observes an earlier call: result differs from the same probe on cleared pools", probes[probe].name),
			Expected: baseline[probe],
			Observed: got,
		})
	}
}

// ---------------------------------------------------------------------------
// Phase A: BFS over pool states reached by real histories; Phase A': closure
// of the set of reachable free-object classes over pre-filled pools.

type c07Proto struct {
	pool string
	obj  any // pristine copy, never handed to zog
	dup  int
}

type c07Search struct {
	states   [][]int // representative history (choice prefix) of every distinct BFS state
	depthOf  []int
	trans    int64
	levels   []int
	protos   []c07Proto
	classes  map[string]int // pool -> number of distinct free-object classes
	passes   int
	closed   bool
	closureX int64 // executions spent in the closure
	capped   bool  // the search hit its time / size budget: what follows covers what was found so far
}

// more distinct free-object classes than this means the pool state space is not closing (e.g. a leak that grows with
// every call); the search stops and the probes run on what was found
const c07MaxProtos = 4000

var c07Cache = map[string]*c07Search{}

func c07Params(tier string) (depth int, evDevs int, closurePasses int) {
	if tier == "thorough" {
		return 2, 2, 8
	}
	return 2, 1, 4
}

// harvest records every free object whose class is new as a prototype.
func (s *c07Search) harvest(seen map[string]bool) bool {
	found := false
	for _, np := range zh.Pools() {
		for i, o := range np.P.Free {
			ck := np.Name + "|" + c07EntryKey(np.P, i)
			if seen[ck] {
				continue
			}
			seen[ck] = true
			dup := 0
			for _, o2 := range np.P.Free {
				if o2 == o {
					dup++
				}
			}
			if dup > c07Cap {
				dup = c07Cap
			}
			s.protos = append(s.protos, c07Proto{pool: np.Name, obj: zh.NewCloner().CloneObj(o), dup: dup})
			s.classes[np.Name]++
			found = true
		}
	}
	return found
}

// installUnion makes every Pool.Get choose between a fresh object (default), any
// object released earlier in this same execution, and (at the cost of one
// deviation) a fresh copy of any of the first n prototypes of that pool.
// Prototypes are copied only when chosen.
func (s *c07Search) installUnion(x *mc.X, n int) {
	byPool := map[string][]int{}
	for i, pr := range s.protos[:n] {
		byPool[pr.pool] = append(byPool[pr.pool], i)
	}
	zverif.OrderHook = func(site string, n int) []int { return nil }
	zverif.GetHook = func(p *zverif.Pool) int {
		name := zh.PoolName(p)
		type cand struct {
			idx   int // index in p.Free, or -1
			proto int // prototype index, or -1
		}
		cands := []cand{{-1, -1}}
		seen := map[string]bool{}
		for i := len(p.Free) - 1; i >= 0; i-- {
			k := c07EntryKey(p, i)
			if seen[k] {
				continue
			}
			seen[k] = true
			cands = append(cands, cand{i, -1})
		}
		for _, pi := range byPool[name] {
			cands = append(cands, cand{-1, pi})
		}
		c := x.Deviate(len(cands), "upool."+name)
		ch := cands[c]
		if ch.proto >= 0 {
			pr := s.protos[ch.proto]
			o := zh.NewCloner().CloneObj(pr.obj)
			for i := 0; i < pr.dup; i++ {
				p.Free = append(p.Free, o)
			}
			return len(p.Free) - 1
		}
		return ch.idx
	}
}

func c07GetSearch(tier string) *c07Search {
	if s, ok := c07Cache[tier]; ok {
		return s
	}
	depth, evDevs, passes := c07Params(tier)
	s := &c07Search{classes: map[string]int{}}
	var searchDL time.Time
	if !RunDeadline.IsZero() {
		// the search may use at most 40% of what is left of the run
		searchDL = time.Now().Add(time.Until(RunDeadline) * 2 / 5)
	}
	expired := func() bool { return !searchDL.IsZero() && time.Now().After(searchDL) }
	seen := map[string]bool{}
	classSeen := map[string]bool{}
	zh.Reset()
	seen[c07StateKey()] = true
	s.states = append(s.states, nil)
	s.depthOf = append(s.depthOf, 0)
	s.levels = []int{1}
	level := [][]int{nil}
	for d := 0; d < depth; d++ {
		var next [][]int
		for _, prefix := range level {
			scn := func(x *mc.X) *mc.Outcome {
				zh.Reset()
				zh.Install(x, zh.PoolDeviate, zh.OrderSorted)
				_, n, _ := c07RunHistory(x, d+1)
				zverifClearHooks()
				if n == d+1 {
					s.trans++
					key := c07StateKey()
					if !seen[key] {
						seen[key] = true
						ch := x.Choices()
						next = append(next, ch)
						s.states = append(s.states, ch)
						s.depthOf = append(s.depthOf, d+1)
						s.harvest(classSeen)
					}
				}
				zh.Reset()
				return &mc.Outcome{Sig: "bfs"}
			}
			// explore exactly one more event below this state's history
			tmp := mc.NewStats()
			mc.ExploreFrom("bfs", scn, append(append([]int(nil), prefix...), 1), mc.Bounds{MaxDevs: evDevs, Deadline: searchDL}, tmp, tier)
			if expired() || len(s.protos) > c07MaxProtos {
				s.capped = true
				break
			}
		}
		s.levels = append(s.levels, len(next))
		level = next
		if os.Getenv("ZOGMC_DEBUG") != "" {
			fmt.Fprintf(os.Stderr, "%s c07 bfs depth %d: new %d total %d trans %d protos %d classes %v\n", time.Now().Format("15:04:05"), d+1, len(next), len(s.states), s.trans, len(s.protos), s.classes)
		}
		if len(next) == 0 || s.capped {
			break
		}
	}
	// closure: from the pool holding every known class, run every event with ≤evDevs recycled
	// objects handed to it (fresh otherwise); new classes extend the pool; repeat to a fixpoint
	for pass := 0; pass < passes && !s.capped; pass++ {
		n := len(s.protos)
		grew := false
		scn := func(x *mc.X) *mc.Outcome {
			zh.Reset()
			s.installUnion(x, n)
			c07RunHistory(x, 1)
			zverifClearHooks()
			if s.harvest(classSeen) {
				grew = true
			}
			zh.Reset()
			return &mc.Outcome{Sig: "closure"}
		}
		tmp := mc.NewStats()
		mc.ExploreFrom("closure", scn, []int{1}, mc.Bounds{MaxDevs: evDevs, Deadline: searchDL}, tmp, tier)
		s.closureX += tmp.Executions
		s.passes++
		if expired() || len(s.protos) > c07MaxProtos {
			s.capped = true
		}
		if os.Getenv("ZOGMC_DEBUG") != "" {
			fmt.Fprintf(os.Stderr, "%s c07 closure pass %d: protos %d -> %d, executions %d, classes %v\n", time.Now().Format("15:04:05"), pass+1, n, len(s.protos), tmp.Executions, s.classes)
		}
		if !grew {
			s.closed = true
			break
		}
	}
	c07Cache[tier] = s
	return s
}

func hashStr(s string) string {
	h := uint64(1469598103934665603)
	for i := 0; i < len(s); i++ {
		h ^= uint64(s[i])
		h *= 1099511628211
	}
	return fmt.Sprintf("%x", h)
}

// c07DiffClass names the first differing field so that distinct leaks get distinct keys.
func c07DiffClass(want, got string) string {
	if strings.HasPrefix(got, "PANIC") {
		return "panic"
	}
	i := 0
	for i < len(want) && i < len(got) && want[i] == got[i] {
		i++
	}
	// walk back to the nearest field name "Name:"
	j := i
	if j > len(got) {
		j = len(got)
	}
	seg := got[:j]
	k := strings.LastIndexAny(seg, ",{")
	field := seg[k+1:]
	if c := strings.IndexByte(field, ':'); c >= 0 {
		field = field[:c]
	}
	if len(field) > 24 || field == "" {
		field = "value"
	}
	return "field=" + field
}

var c07Cap = 3

// free-object classes render the object's own fields and what they point to down to this depth
var c07ClassDepth = 4

// c07StateKey: per pool, the sorted multiset of entry content classes, multiplicity capped.
func c07StateKey() string {
	var sb strings.Builder
	for _, np := range zh.Pools() {
		cnt := map[string]int{}
		for i := range np.P.Free {
			cnt[c07EntryKey(np.P, i)]++
		}
		keys := make([]string, 0, len(cnt))
		for k := range cnt {
			keys = append(keys, k)
		}
		sort.Strings(keys)
		sb.WriteString(np.Name + "=[")
		for _, k := range keys {
			n := cnt[k]
			if n > c07Cap {
				n = c07Cap
			}
			fmt.Fprintf(&sb, "%dx%s;", n, k)
		}
		sb.WriteString("] ")
	}
	return sb.String()
}

func c07EntryKey(p *zverif.Pool, i int) string {
	obj := p.Free[i]
	dup := 0
	for _, o := range p.Free {
		if o == obj {
			dup++
		}
	}
	if dup > c07Cap {
		dup = c07Cap
	}
	c := zh.NewCanon(true)
	c.MaxDepth = c07ClassDepth
	c.Val(reflect.ValueOf(obj), 0)
	return fmt.Sprintf("dup%d:%s", dup, c.String())
}

func c07Baselines() []string {
	var out []string
	for _, p := range c07Probes() {
		zh.Reset()
		zverif.OrderHook = func(site string, n int) []int { return nil } // canonical field order, as in the explored runs
		out = append(out, p.run())
	}
	zh.Reset()
	return out
}

// replayHistory rebuilds the pool state of a recorded history (no new choices).
func c07ReplayHistory(prefix []int) []string {
	if len(prefix) == 0 {
		return nil
	}
	wx := mc.NewReplayX(prefix)
	zh.Install(wx, zh.PoolDeviate, zh.OrderSorted)
	n := 0
	for _, c := range prefix {
		_ = c
	}
	// number of events in the prefix = number of "more=1" choices; replay until the prefix is consumed
	hist, _, _ := c07RunHistoryUntil(wx, len(prefix))
	_ = n
	return hist
}

// c07RunHistoryUntil replays events until the recorded choices are consumed.
func c07RunHistoryUntil(x *mc.X, total int) (hist []string, n int, capped bool) {
	events := c07Events()
	for len(x.Choices()) < total {
		if x.Choose(2, "more") == 0 {
			return hist, n, false
		}
		e := x.Choose(len(events), "event")
		c := x.Choose(2, "collect")
		if c == 1 && e%2 == 1 {
			c = 2 // odd events hand their issues back through Sanitize*AndCollect, even ones through Collect*
		}
		hist = append(hist, fmt.Sprintf("%s collect=%d", events[e].name, c))
		func() {
			defer func() {
				if r := recover(); r != nil {
					if he, ok := r.(mc.HarnessError); ok {
						panic(he)
					}
				}
			}()
			events[e].run(c)
		}()
		n++
	}
	return hist, n, false
}

// Phase B: every probe in every BFS state, LIFO answers plus ≤devs deviations.
func c07DirectScenario(tier string, probe int, baseline []string) mc.Scenario {
	return func(x *mc.X) *mc.Outcome {
		s := c07GetSearch(tier)
		si := x.Choose(len(s.states), "state")
		zh.Reset()
		hist := c07ReplayHistory(s.states[si])
		if s.depthOf[si] >= 2 && tier != "thorough" {
			zh.Install(x, zh.PoolLIFO, zh.OrderSorted) // deep states: the answers sync.Pool gives on one P; deviations are covered by the pre-filled pool phase
		} else {
			zh.Install(x, zh.PoolDeviate, zh.OrderSorted)
		}
		got := c07RunProbe(c07Probes()[probe])
		zh.Reset()
		out := &mc.Outcome{Traces: 1, Nontrivial: si > 0}
		c07Verdict(x, probe, got, baseline, hist, out)
		return out
	}
}

// Phase C: pre-filled pools. The pool holding one copy of every distinct
// free-object class found by the BFS and its closure is itself a reachable
// pool content, because sync.Pool may answer "fresh" to any Get and drop any
// item, so histories can be concatenated without consuming each other's
// leftovers. Every Get of the probe is answered by a fresh object or (at the
// cost of one deviation) by any of those objects.
func c07UnionScenario(tier string, probe int, baseline []string) mc.Scenario {
	return func(x *mc.X) *mc.Outcome {
		s := c07GetSearch(tier)
		zh.Reset()
		s.installUnion(x, len(s.protos))
		got := c07RunProbe(c07Probes()[probe])
		zh.Reset()
		out := &mc.Outcome{Traces: 1, Nontrivial: true}
		c07Verdict(x, probe, got, baseline, []string{fmt.Sprintf("pre-filled pools: one copy of each of the %d distinct free-object classes reachable (BFS + closure)", len(s.protos))}, out)
		return out
	}
}

func zverifClearHooks() {
	zverif.GetHook = nil
	zverif.OrderHook = nil
}

func c07ProbeDevs(tier string) (direct, union int) {
	if tier == "thorough" {
		return 2, 2
	}
	return 1, 1
}

func init() {
	Register(&Prop{
		ID:    "C07",
		Rule:  "explicit-state BFS over pool states: a state is the canonical content of zog's 7 object pools (all fields of every free object, hidden slice capacity, double-release multiplicity; content-equal multiplicity capped) reached by a history of events (23 calls × {no collect, issues handed back through Collect* / Sanitize*AndCollect}, with the pool answers they received) replayed on cleared pools. Phase B: every probe (13) in every BFS state under LIFO answers, plus bounded deviations in states of depth ≤1 (thorough: all). Phase C: every probe on pre-filled pools holding one witness of every distinct free-object class seen anywhere in the BFS, each Get answered by any of them (bounded deviations). The probe's full canonical observation (every issue field, aliasing, destination, ctx values) must equal the probe on cleared pools. one execution = one (pool content, probe, pool-answer vector); non-trivial = non-empty pool content; distinct = distinct (probe, observation, answer vector). plus " + callsRule,
		Floor: 20,
		Bound: func(tier string) string {
			d, ev, _ := c07Params(tier)
			db, du := c07ProbeDevs(tier)
			return fmt.Sprintf("BFS depth %d with ≤%d non-LIFO pool answers per event; probes: ≤%d deviations in every BFS state, ≤%d deviations on the union pool", d, ev, db, du)
		},
		Assumptions: []string{
			"the pool shim's answers (any free object or a fresh one) are exactly what sync.Pool's contract allows",
			"states merged by the multiplicity cap (3) have the same futures: no event or probe performs more Gets on content-equal entries of one pool",
			"union pool: any union of individually reachable free objects is reachable (Get may answer fresh, items may be dropped); only whole object states observed on the real code are used",
		},
		Items: func(tier string) []Item {
			baseline := c07Baselines()
			c07GetSearch(tier) // before anything else, so that its time budget does not depend on which items this worker gets
			db, du := c07ProbeDevs(tier)
			var items []Item
			for p := range c07Probes() {
				items = append(items, Item{Name: fmt.Sprintf("direct/probe%d", p), MaxDevs: db, Run: c07DirectScenario(tier, p, baseline)})
				items = append(items, Item{Name: fmt.Sprintf("union/probe%d", p), MaxDevs: du, Run: c07UnionScenario(tier, p, baseline)})
			}
			// state kept outside the pools, results still held by the caller, overlapping executions
			items = append(items, callsItems(tier, "C07", "clean-despite-violation", "depends-on-history", "nested-call-differs", "earlier-result-changed", "callers-value-modified", "panic")...)
			// "...on the global configuration at that moment": message tables edited in place between calls
			items = append(items, Item{Name: "message-table-edited-between-calls", MaxDevs: -1, Run: c07TableEditScenario})
			items = append(items, Item{Name: "fresh-issue-inside-a-formatter", MaxDevs: 2, Run: c07ExecIssueScenario})
			return items
		},
		Extra: func(tier string) map[string]any {
			s := c07GetSearch(tier)
			return map[string]any{
				"bfs_pool_states":                  len(s.states),
				"bfs_transitions":                  s.trans,
				"bfs_new_states_per_depth":         s.levels,
				"distinct_free_object_classes":     s.classes,
				"closure_passes":                   s.passes,
				"closure_fixpoint_reached":         s.closed,
				"search_budget_hit":                s.capped,
				"closure_executions":               s.closureX,
				"state_multiplicity_cap":           c07Cap,
			}
		},
	})
}
