package scen

// C14 — all input front ends are equivalent views of the same record.
// One abstract record × tag configuration × ≤k focus units is rendered
// through all eight front ends in the same execution; every rendering must give
// the same issues (paths normalised to field identity) and the same
// destination as the Go-map rendering, and must agree with the reference
// model evaluated on that front end's view.

import (
	"fmt"
	"reflect"
	"sort"
	"strings"

	"zogverif/mc"
	"zogverif/zh"
)

// keyMap maps every resolved key of the record (for front end tag) back to the schema key.
func keyMap(n *Node, tag string, out map[string]string) {
	for n.Kind == KPtr || n.Kind == KSlice {
		n = n.Elem
	}
	for _, f := range n.Fields {
		out[fieldKeyFor(f, tag)] = f.Key
		keyMap(f.N, tag, out)
	}
}

func normPath(p string, km map[string]string) string {
	parts := strings.Split(p, ".")
	for i, seg := range parts {
		idx := ""
		// a trailing [i] of a list position; keys themselves may end in "[]"
		if j := strings.LastIndex(seg, "["); j > 0 && !strings.HasSuffix(seg, "[]") {
			seg, idx = seg[:j], seg[j:]
		}
		if k, ok := km[seg]; ok {
			seg = k
		}
		parts[i] = seg + idx
	}
	return strings.Join(parts, ".")
}

func normIssues(o *Obs, km map[string]string) []string {
	var out []string
	for _, is := range o.Issues {
		out = append(out, fmt.Sprintf("%s|%s|%s", normPath(is.Path, km), is.Code, is.Dtype))
	}
	sort.Strings(out)
	return out
}

func canonNoTypes(v reflect.Value) string {
	c := zh.NewCanon(false)
	c.NoTypes = true
	c.Val(v, 0)
	return c.String()
}

func c14Scenario(tier string, tags map[string]int, focus []string, deep bool, elems int) mc.Scenario {
	fm := focusMap(focus)
	return func(x *mc.X) *mc.Outcome {
		out := &mc.Outcome{Nontrivial: true}
		type res struct {
			fc   *feCase
			norm []string
			dest string
		}
		var base *res
		var sigParts []string
		// identical abstract choices for every front end: the case is rebuilt per front end from the same
		// choice vector (tags differ per front end, the abstract configuration and inputs do not)
		mark := len(x.Choices())
		var abstract []int
		for fe := FEMap; fe < feCount; fe++ {
			a := &Alpha{Tier: tier, Mode: 0, NoCatch: true, FE: true, SourceTag: fe.SourceTag(), NoBracket: hasBracketTag(tags)}
			skel := c10Skel(fe, tags, deep)
			zh.Reset()
			var cx *mc.X
			if fe == FEMap {
				cx = x
			} else {
				cx = mc.NewReplayX(abstract)
			}
			c := BuildCase(cx, a, skel, fm, elems)
			if fe == FEMap {
				abstract = append([]int(nil), x.Choices()[mark:]...)
				for u := range fm {
					if !c.Touched[u] {
						return &mc.Outcome{Sig: "redundant"}
					}
				}
			}
			var fc *feCase
			if fe == FEMap {
				fc = runFE(x, fe, a, skel, fm, elems, zh.OrderRev, nil, c)
			} else {
				fc = runFE(x, fe, a, skel, fm, elems, zh.OrderSorted, base.fc.orders, c)
			}
			if !fc.r.Expressible {
				if fe == FEMap {
					return &mc.Outcome{Sig: "inexpressible"}
				}
				continue
			}
			out.Traces++
			km := map[string]string{}
			keyMap(c.Root, fe.SourceTag(), km)
			r := &res{fc: fc, norm: normIssues(fc.real, km), dest: canonNoTypes(fc.dest.Elem())}
			if fe == FEMap {
				base = r
			}
			note := func() {
				if len(x.Notes()) > 0 {
					return
				}
				x.Note("schema: %s", c.Root.Describe())
				x.Note("Go map rendering: %s", base.fc.r.Desc)
				x.Note("%s rendering: %s", fe, fc.r.Desc)
				x.Note("visit orders: %v", fc.orders)
			}
			if fc.real.Panic != "" {
				note()
				out.Viol = append(out.Viol, &mc.Violation{Key: "C14:panic:" + fe.String(), What: "panic", Observed: fc.real.Panic})
				continue
			}
			got := fc.real.IssueStrings()
			ideal := fc.ideal.sorted()
			if fe == FEMap {
				// the Go-map rendering is the reference view; it must itself follow the documented semantics
				if !eqStrings(ideal, got) {
					note()
					out.Viol = append(out.Viol, &mc.Violation{Key: "C14:spec:gomap:" + diffKey(ideal, got), What: "issues of the Go-map rendering differ from the documented semantics", Expected: fmt.Sprint(ideal), Observed: fmt.Sprint(got)})
				}
			} else if !eqStrings(r.norm, base.norm) || r.dest != base.dest {
				// the rendering disagrees with the Go-map view: is it exactly what a recorded finding predicts?
				note()
				if eqStrings(fc.quirk.sorted(), got) && canonNoTypes(fc.quirkDest.Elem()) == r.dest && len(fc.quirk.fired) > 0 {
					for q := range fc.quirk.fired {
						out.Viol = append(out.Viol, &mc.Violation{Key: "C14:" + quirkDefect(q) + ":" + q, What: fmt.Sprintf("through %s the record does not give the Go-map result, exactly as the as-is model with quirk %s predicts (%s)", fe, q, quirkDefect(q)), Expected: fmt.Sprintf("as Go map: %v %s", base.norm, base.dest), Observed: fmt.Sprintf("%v %s", r.norm, r.dest)})
					}
				} else if !eqStrings(r.norm, base.norm) {
					out.Viol = append(out.Viol, &mc.Violation{Key: "C14:issues-differ:" + fe.String(), What: "the same record gives different issues through " + fe.String() + " than as a Go map", Expected: fmt.Sprint(base.norm), Observed: fmt.Sprint(r.norm)})
				} else {
					out.Viol = append(out.Viol, &mc.Violation{Key: "C14:dest-differ:" + fe.String(), What: "the same record gives a different destination through " + fe.String() + " than as a Go map", Expected: base.dest, Observed: r.dest})
				}
			}
			sigParts = append(sigParts, fmt.Sprintf("%s=%v", fe, r.norm))
		}
		out.Sig = tagsString(tags) + "|" + strings.Join(sigParts, ";")
		out.LazySample = func() any {
			return map[string]any{"tags": tagsString(tags), "go_map": base.fc.r.Desc, "issues_per_front_end": sigParts}
		}
		return out
	}
}

func init() {
	Register(&Prop{
		ID:    "C14",
		Rule:  "one execution = one abstract record case (same enumeration as C10: tag assignments × focus units over Required × tests × {valid, missing, nil, empty, failing, uncoercible}) rendered through ALL eight front ends (Go map, zjson, zjson on a seekable reader positioned after a consumed frame header, zhttp JSON body with and without a known length, form body, query string, environment) and parsed on the real code under the same field visit orders; every rendering must agree with the documented semantics of its front end and with the Go-map rendering (issues with paths normalised to field identity, destination); non-trivial = every expressible case; distinct = distinct (tags, per-front-end issue sets)",
		Floor: 50,
		Bound: func(tier string) string {
			if tier == "thorough" {
				return "nesting depth 3 record; tag and focus bounds as C10"
			}
			return "nesting depth 2 record; tag and focus bounds as C10"
		},
		Assumptions: []string{
			"documented differences only: the tag naming the key, string-typed leaves for form/query/env, whitespace trimming for env; nil and empty lists are not expressible in flat sources and are rendered as missing / skipped; lists of several values are not expressible in the environment",
			"known findings D18 / D24 are matched by the as-is model with quirk switches",
		},
		Items: func(tier string) []Item {
			items := c10Items(tier, c14Scenario)
			return append(items, Item{Name: "same-named-leaves-in-record-and-parent", MaxDevs: -1, Run: c14SameNamesScenario})
		},
	})
}
