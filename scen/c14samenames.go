package scen

// C14 (continued): a nested record whose leaves are named like leaves of its parent ({name, owner: {name}}),
// supplied as a Go map, through zjson and as a zhttp JSON body, with the nested record present, missing, null
// and empty: a missing record is a record in which every field is absent — never the parent read again.
// (Flat sources have one name space by construction and are not part of this item.)

import (
	"fmt"
	"net/http"
	"net/http/httptest"
	"strings"

	z "github.com/Oudwins/zog"
	"github.com/Oudwins/zog/parsers/zjson"
	"github.com/Oudwins/zog/zhttp"
	"zogverif/mc"
	"zogverif/zh"
)

type c14SNOwner struct {
	Name string
	Id   int
}
type c14SNDest struct {
	Name  string
	Id    int
	Owner c14SNOwner
	Maint *c14SNOwner
}

func c14SameNamesScenario(x *mc.X) *mc.Outcome {
	zh.Reset()
	zh.Install(x, zh.PoolLIFO, zh.OrderFree)
	fe := x.Choose(3, "front end") // 0 Go map, 1 zjson, 2 zhttp JSON body
	docs := []struct {
		text string
		m    map[string]any
		want []string
		dest string
	}{
		{`{"name":"acme","id":7}`, map[string]any{"name": "acme", "id": 7}, []string{"owner.name|required"}, "{Name:acme Id:7 Owner:{Name: Id:0} Maint:<nil>}"},
		{`{"name":"acme","id":7,"owner":{"name":"bob"}}`, map[string]any{"name": "acme", "id": 7, "owner": map[string]any{"name": "bob"}}, nil, "{Name:acme Id:7 Owner:{Name:bob Id:0} Maint:<nil>}"},
		{`{"owner":{"name":"bob","id":3}}`, map[string]any{"owner": map[string]any{"name": "bob", "id": 3}}, []string{"name|required"}, "{Name: Id:0 Owner:{Name:bob Id:3} Maint:<nil>}"},
		{`{"name":"acme","owner":{}}`, map[string]any{"name": "acme", "owner": map[string]any{}}, []string{"owner.name|required"}, "{Name:acme Id:0 Owner:{Name: Id:0} Maint:<nil>}"},
		{`{"name":"acme","owner":null}`, map[string]any{"name": "acme", "owner": nil}, []string{"owner.name|required"}, "{Name:acme Id:0 Owner:{Name: Id:0} Maint:<nil>}"},
		{`{"name":"acme","id":7,"owner":{"name":"bob"},"maint":{"id":9}}`, map[string]any{"name": "acme", "id": 7, "owner": map[string]any{"name": "bob"}, "maint": map[string]any{"id": 9}}, []string{"maint.name|required"}, "{Name:acme Id:7 Owner:{Name:bob Id:0} Maint:&{Name: Id:9}}"},
	}
	di := x.Choose(len(docs), "document")
	doc := docs[di]
	rec := func() *z.StructSchema { return z.Struct(z.Schema{"name": z.String().Required(), "id": z.Int()}) }
	s := z.Struct(z.Schema{"name": z.String().Required(), "id": z.Int(), "owner": rec(), "maint": z.Ptr(rec())})
	var data any
	switch fe {
	case 0:
		data = doc.m
	case 1:
		data = zjson.Decode(strings.NewReader(doc.text))
	default:
		r := httptest.NewRequest(http.MethodPost, "/", strings.NewReader(doc.text))
		r.Header.Set("Content-Type", "application/json")
		data = zhttp.Request(r)
	}
	var d c14SNDest
	var got []string
	pmsg := func() (msg string) {
		defer func() {
			if r := recover(); r != nil {
				msg = firstLine(fmt.Sprint(r))
			}
		}()
		m := s.Parse(data, &d)
		for _, k := range sortedKeys(m) {
			if k != "$first" {
				for _, is := range m[k] {
					got = append(got, k+"|"+is.Code)
				}
			}
		}
		return ""
	}()
	zh.Reset()
	ds := fmt.Sprintf("%+v", d)
	if d.Maint != nil {
		ds = strings.Replace(ds, fmt.Sprintf("%p", d.Maint), fmt.Sprintf("&%+v", *d.Maint), 1)
	}
	out := &mc.Outcome{Traces: 1, Nontrivial: true, Sig: fmt.Sprintf("samenames|%d|%d", fe, di)}
	out.Sample = map[string]any{"front_end": []string{"Go map", "zjson", "zhttp JSON"}[fe], "document": doc.text, "issues": got, "dest": ds}
	if pmsg != "" || !eqStrings(got, doc.want) || ds != doc.dest {
		x.Note("schema {name (required), id, owner: {name (required), id}, maint: Ptr({name (required), id})}; document %s through %s", doc.text, []string{"Go map", "zjson", "zhttp JSON"}[fe])
		out.Viol = append(out.Viol, &mc.Violation{Key: "C14:same-named-leaves:" + []string{"map", "zjson", "zhttp-json"}[fe], What: "a nested record whose leaves are named like its parent's did not read its own part of the document", Expected: fmt.Sprintf("%v %s", doc.want, doc.dest), Observed: fmt.Sprintf("panic=%q %v %s", pmsg, got, ds)})
	}
	return out
}
