package scen

// C04 — Required, Optional and Default decide what an absent value means.
// The decision table node kind × Required × Default{none, passing, failing, equal to the Go zero value} ×
// NotNil × input class × context, enumerated through the core space with the
// full absent-looking / present-but-falsy input alphabets; oracle: number and
// place of required/not_nil issues, whether the node's recording tests ran,
// whether the destination was written — as the statement defines them.

import (
	"fmt"
	"reflect"
	"sort"
	"strings"

	z "github.com/Oudwins/zog"
	"zogverif/mc"
	"zogverif/zh"
)

// c04Untouched walks the schema and both destinations: every absent optional
// node without default must still hold what it held before the call.
func c04Untouched(c *Case, n *Node, before, after reflect.Value, path string, fromDefault bool, bad *[]string) {
	absent := !fromDefault && c.Absent[n.Pos+"@"+path]
	switch n.Kind {
	case KPtr:
		if absent {
			if canonValue(before) != canonValue(after) {
				*bad = append(*bad, fmt.Sprintf("pointer %s at %q had no input but its destination changed from %s to %s", n.Pos, path, canonValue(before), canonValue(after)))
			}
			return
		}
		if after.IsNil() || before.IsNil() {
			return
		}
		c04Untouched(c, n.Elem, before.Elem(), after.Elem(), path, fromDefault, bad)
	case KStruct:
		for _, f := range n.Fields {
			c04Untouched(c, f.N, before.FieldByName(goFieldName(f.Key)), after.FieldByName(goFieldName(f.Key)), joinPath(path, f.Key), fromDefault, bad)
		}
		if before.FieldByName("ZZextra").String() != after.FieldByName("ZZextra").String() {
			*bad = append(*bad, fmt.Sprintf("field ZZextra of %s at %q, which the schema does not name, was written", n.Pos, path))
		}
	case KSlice:
		if absent {
			if n.DefClass == 0 && !n.Req {
				if canonValue(before) != canonValue(after) {
					*bad = append(*bad, fmt.Sprintf("absent optional slice %s at %q was written: %s -> %s", n.Pos, path, canonValue(before), canonValue(after)))
				}
			}
			if n.DefClass > 0 {
				// default taken: same length as the default
				if after.Len() != n.defaultValue().Len() {
					*bad = append(*bad, fmt.Sprintf("slice %s at %q was absent with a default of %d elements but holds %s", n.Pos, path, n.defaultValue().Len(), canonValue(after)))
				}
			}
			return
		}
		if c.Alpha.Mode == 1 && before.Len() == after.Len() {
			for i := 0; i < after.Len(); i++ {
				c04Untouched(c, n.Elem, before.Index(i), after.Index(i), fmt.Sprintf("%s[%d]", path, i), fromDefault, bad)
			}
		}
	default:
		if !absent {
			return
		}
		if n.DefClass == 0 && !n.Req {
			if canonValue(before) != canonValue(after) {
				*bad = append(*bad, fmt.Sprintf("absent optional %s %s at %q was written: %s -> %s", n.Kind, n.Pos, path, canonValue(before), canonValue(after)))
			}
		}
		if n.DefClass > 0 && !n.Catch {
			if !reflect.DeepEqual(after.Interface(), n.defaultValue().Interface()) {
				*bad = append(*bad, fmt.Sprintf("%s %s at %q was absent with a default but holds %s instead of the default", n.Kind, n.Pos, path, canonValue(after)))
			}
		}
	}
}

func c04Scenario(a *Alpha, ns NamedSkel, focus []string, elems int) mc.Scenario {
	fm := focusMap(focus)
	return func(x *mc.X) *mc.Outcome {
		zh.Reset()
		c := BuildCase(x, a, ns.S, fm, elems)
		for u := range fm {
			if !c.Touched[u] {
				return &mc.Outcome{Sig: "redundant"}
			}
		}
		before := deepCopy(c.Dest.Elem())
		rec := &Recorder{Light: true}
		schema := BuildZog(c.Root, rec)
		var orders [][]int
		installOrderRecorder(x, zh.OrderFree, &orders)
		var real *Obs
		if a.Mode == 0 {
			real = RunParse(schema, c.Data, c.Dest)
		} else {
			real = RunValidate(schema, c.Dest)
		}
		zh.Reset()
		st := &specState{orders: orders, ranTest: map[string]int{}}
		md := reflect.New(c.Root.GoType())
		md.Elem().Set(deepCopy(before))
		if a.Mode == 0 {
			st.specParse(c.Root, c.Data, md.Elem(), "")
		} else {
			st.specValidate(c.Root, md.Elem(), "")
		}
		out := &mc.Outcome{Traces: 1, Nontrivial: c.NDev > 0}
		// restrict the issue comparison to what the statement is about
		var want, got []string
		for _, is := range st.issues {
			if is.Code == "required" || is.Code == "not_nil" {
				if c.Root.Kind.Prim() {
					is.Key = ""
				}
				want = append(want, is.String())
			}
		}
		for _, is := range real.Issues {
			if is.Code == "required" || is.Code == "not_nil" {
				got = append(got, is.String())
			}
		}
		sort.Strings(want)
		sort.Strings(got)
		// recording tests: how often each node's custom test ran
		var wantRuns, gotRuns []string
		for pos, nrun := range st.ranTest {
			wantRuns = append(wantRuns, fmt.Sprintf("%s=%d", pos, nrun))
		}
		agg := map[string]int{}
		for who, nrun := range rec.Count {
			if i := strings.Index(who, ".test."); i >= 0 {
				agg[who[:i]] += nrun
			}
		}
		for pos, nrun := range agg {
			gotRuns = append(gotRuns, fmt.Sprintf("%s=%d", pos, nrun))
		}
		sort.Strings(wantRuns)
		sort.Strings(gotRuns)
		out.Sig = fmt.Sprintf("%s|%d|%v|%v", ns.Name, a.Mode, want, wantRuns)
		out.LazySample = func() any {
			return map[string]any{"case": c.Describe(), "required_issues": got, "test_runs": gotRuns}
		}
		mode := []string{"Parse", "Validate"}[a.Mode]
		note := func() {
			d := c.Describe()
			x.Note("schema: %v", d["schema"])
			x.Note("mode: %v input/value: %v%v", d["mode"], d["input"], d["value"])
			x.Note("destination after: %s", canonValue(c.Dest.Elem()))
		}
		if real.Panic != "" {
			note()
			out.Viol = append(out.Viol, &mc.Violation{Key: "C04:panic:" + mode, What: "panic", Observed: real.Panic})
			return out
		}
		if !eqStrings(want, got) {
			note()
			out.Viol = append(out.Viol, &mc.Violation{Key: "C04:required-issues:" + mode + ":" + diffKey(want, got), What: "required / not_nil issues differ from the decision table", Expected: fmt.Sprint(want), Observed: fmt.Sprint(got)})
			return out
		}
		if !eqStrings(wantRuns, gotRuns) {
			note()
			out.Viol = append(out.Viol, &mc.Violation{Key: "C04:test-runs:" + mode, What: "the nodes' tests did not run exactly where the table says (absent optional: not run; default: run on the default; present: run)", Expected: fmt.Sprint(wantRuns), Observed: fmt.Sprint(gotRuns)})
			return out
		}
		var bad []string
		c04Untouched(c, c.Root, before, c.Dest.Elem(), "", false, &bad)
		if len(bad) > 0 {
			note()
			out.Viol = append(out.Viol, &mc.Violation{Key: "C04:dest:" + mode, What: bad[0], Expected: "absent optional: destination not written; absent with default: the default", Observed: fmt.Sprint(bad)})
		}
		return out
	}
}

// typed maps: a missing key is absent whatever the map's element type
func c04TypedMapScenario(x *mc.X) *mc.Outcome {
	zh.Reset()
	zh.Install(x, zh.PoolLIFO, zh.OrderFree)
	mt := x.Choose(5, "mapType")
	req := x.Bool("required")
	var data any
	switch mt {
	case 0:
		data = map[string]any{"a": "1"}
	case 1:
		data = map[string]string{"a": "1"}
	case 2:
		data = map[string]int{"a": 1}
	case 3:
		data = map[string]float64{"a": 1}
	case 4:
		data = map[string]bool{"a": true}
	}
	ran := map[string]int{}
	mk := func(name string) (*z.NumberSchema[int], *z.BoolSchema[bool], *z.StringSchema[string]) {
		i := z.Int().TestFunc(func(v any, ctx z.Ctx) bool { ran[name+".int"]++; return true })
		b := z.Bool().TestFunc(func(v any, ctx z.Ctx) bool { ran[name+".bool"]++; return true })
		s := z.String().TestFunc(func(v any, ctx z.Ctx) bool { ran[name+".str"]++; return true })
		if req {
			i.Required()
			b.Required()
			s.Required()
		}
		return i, b, s
	}
	i, b, s := mk("missing")
	type D struct {
		A string
		I int
		B bool
		S string
	}
	d := D{A: "§", I: -999, B: true, S: "§"}
	m := z.Struct(z.Schema{"a": z.String(), "i": i, "b": b, "s": s}).Parse(data, &d)
	zh.Reset()
	var got []string
	for k, l := range m {
		if k == "$first" {
			continue
		}
		for _, is := range l {
			got = append(got, k+"|"+is.Code)
		}
	}
	sort.Strings(got)
	var want []string
	if req {
		want = []string{"b|required", "i|required", "s|required"}
	}
	out := &mc.Outcome{Traces: 1, Nontrivial: true, Sig: fmt.Sprintf("typedmap|%d|%v|%v", mt, req, got)}
	out.Sample = map[string]any{"input": fmt.Sprintf("%#v", data), "required": req, "issues": got, "dest": fmt.Sprintf("%+v", d)}
	if !eqStrings(want, got) || len(ran) != 0 || (!req && (d.I != -999 || d.B != true || d.S != "§")) {
		x.Note("input %#v, fields i,b,s are missing keys; required=%v", data, req)
		x.Note("tests run: %v; destination: %+v", ran, d)
		out.Viol = append(out.Viol, &mc.Violation{
			Key:      fmt.Sprintf("C04:typed-map-missing-key:%T", data),
			What:     fmt.Sprintf("a key missing from a %T input is not treated as absent", data),
			Expected: fmt.Sprintf("issues %v, no test run, destination untouched", want),
			Observed: fmt.Sprintf("issues %v, tests run %v, dest %+v", got, ran, d),
		})
	}
	return out
}

func c04Keep(ns NamedSkel) bool {
	switch ns.Name {
	case "P.Str", "P.Int", "P.Float", "P.Bool", "P.Time", "S2", "S3mix", "S2nest", "L.Str", "L.Struct", "L.Ptr", "R.Str", "R.Struct", "S2[R(S)]":
		return true
	}
	return false
}

// c04FrontEnds runs the front-end equivalence scenario and reports its disagreements under C04
// (findings recorded for C10/C14 about tag names are theirs, not this property's).
func c04FrontEnds(inner mc.Scenario) mc.Scenario {
	return func(x *mc.X) *mc.Outcome {
		out := inner(x)
		var keep []*mc.Violation
		for _, v := range out.Viol {
			if strings.Contains(v.Key, ":D24:") {
				continue
			}
			v.Key = "C04:front-end:" + strings.TrimPrefix(v.Key, "C14:")
			keep = append(keep, v)
		}
		out.Viol = keep
		return out
	}
}

func init() {
	Register(&Prop{
		ID:    "C04",
		Rule:  "decision table through the core space: one execution = one (context skeleton {top, struct field, slice element, behind pointer, struct in slice, pointer to struct, nested struct}, mode, ≤2 focus units over Required × Default{none, passing, failing, equal to the Go zero value} × tests × NotNil × the full input alphabet {valid, missing key, nil, \"\", spaces, tab/newline, NBSP, alternative representation, present-but-falsy 0/false/zero time/\"0\", failing, uncoercible} (Parse) / {valid, zero, failing} + {nil slice, empty slice, one element} + {nil pointer} (Validate)); plus typed-map inputs with missing keys; plus every single-unit case again with every node configured only after the schema tree was composed, and again with Default(...) called before Required(); plus the record Struct{s, p: Ptr(Struct{s4,i4}), q: Ptr(Int), n: Struct{s2}} with ≤2 focus units over Required × tests × {valid, missing, nil, empty, failing, uncoercible} rendered through all eight front ends (untagged and source-tagged destination), each compared with the documented semantics and with the Go-map rendering; non-trivial = deviating case; distinct = distinct (skeleton, mode, required issues, test-run counts)",
		Floor: 50,
		Bound: func(tier string) string { return "k=2 focus units over the full (thorough) input alphabets in both tiers, 14 context skeletons, all visit orders" },
		Assumptions: []string{
			"table from the statement: absent ⇒ Default (then tested) regardless of Required; else exactly one required/not_nil iff required; else skipped (tests not run, destination not written)",
			"Catch is part of the alphabet only in the single-unit items (Default must win over Required with or without Catch); interactions of Catch with other nodes belong to C05; typed nil pointers as input are outside the absent table",
		},
		Items: func(tier string) []Item {
			items := coreItemsFiltered("thorough", c04Scenario, func(a *Alpha) { a.NoCatch = true; a.DefZero = true }, []int{0, 1}, 0, c04Keep)
			// Default beats Required also when the node additionally has Catch: single-unit items with Catch in the alphabet
			for _, it := range coreItemsFiltered("thorough", c04Scenario, nil, []int{0, 1}, 1, func(ns NamedSkel) bool {
				return strings.HasPrefix(ns.Name, "P.") || ns.Name == "S2" || ns.Name == "L.Str" || ns.Name == "R.Str"
			}) {
				it.Name = "with-catch/" + it.Name
				items = append(items, it)
			}
			// the table does not depend on the order of the builder calls: every single-unit case again with Default(...) called before Required()
			for _, it := range coreItemsFiltered("thorough", c04Scenario, func(a *Alpha) { a.NoCatch = true; a.DefZero = true }, []int{0, 1}, 1, c04Keep) {
				inner := it.Run
				it.Name = "default-then-required/" + it.Name
				it.Run = func(x *mc.X) *mc.Outcome {
					BuildDefFirst = true
					defer func() { BuildDefFirst = false }()
					return inner(x)
				}
				items = append(items, it)
			}
			items = append(items, Item{Name: "typed-maps", MaxDevs: -1, Run: c04TypedMapScenario})
			items = append(items, Item{Name: "required-issues-under-one-path", MaxDevs: -1, Run: c04RefiledScenario})
			// what is absent behind a Preprocess is decided by the Parse rule on the function's output
			items = append(items, preprocItem("C04", "clean-despite-violation", "issues", "destination", "panic"))
			items = append(items, preprocPtrItem("C04", "clean-despite-violation", "issues", "destination", "panic"))
			// Required / NotNil / Default applied to a node after it was handed to its parent's constructor
			items = append(items, lateConfigItems(tier, c04Scenario, nil)...)
			// the same table through every front end, on the record with optional parts behind pointers:
			// what "absent" means for JSON, form, query and environment input (a missing parameter reads as "")
			pf := recordFieldsPtr()
			ptrUnits := skelUnits(recordSkel(FEMap, map[string]int{shapeKey: 1}, false), 2)
			for _, cfg := range []int{0, 2} {
				tv := uniformTags(pf, cfg)
				tv[shapeKey] = 1
				for _, fs := range focusSets(ptrUnits, 2) {
					items = append(items, Item{Name: fmt.Sprintf("front-ends/ptr-record/uniform%d/focus{%s}", cfg, strings.Join(fs, ",")), MaxDevs: -1, Run: c04FrontEnds(c14Scenario(tier, tv, fs, false, 2))})
				}
			}
			return items
		},
	})
}

// Several required nodes that file their required / not_nil issue under ONE path (Required(IssuePath(p)),
// NotNil(IssuePath(p)) — a form that reports "credentials missing" for either of two fields): every absent
// required node yields exactly one issue, however many of them land under the same key.
type c04Refiled struct {
	A string
	B string
	N int
	P *int
	L []string
}

func c04RefiledScenario(x *mc.X) *mc.Outcome {
	zh.Reset()
	zh.Install(x, zh.PoolLIFO, zh.OrderFree)
	mode := x.Choose(2, "mode")
	var absent [4]bool // a, b, n, p
	n := 0
	for i := range absent {
		absent[i] = x.Bool(fmt.Sprintf("node %d absent", i))
		if absent[i] {
			n++
		}
	}
	items := x.Choose(4, "absent list items") // of 3
	s := z.Struct(z.Schema{
		"a": z.String().Required(z.IssuePath("credentials")),
		"b": z.String().Required(z.IssuePath("credentials")),
		"n": z.Int().Required(z.IssuePath("credentials")),
		"p": z.Ptr(z.Int()).NotNil(z.IssuePath("credentials")),
		"l": z.Slice(z.String().Required(z.IssuePath("tags"))),
	})
	seven := 7
	var d c04Refiled
	var m z.ZogIssueMap
	if mode == 0 {
		in := map[string]any{}
		if !absent[0] {
			in["a"] = "x"
		}
		if !absent[1] {
			in["b"] = "y"
		}
		if !absent[2] {
			in["n"] = 3
		}
		if !absent[3] {
			in["p"] = 7
		}
		l := []any{}
		for i := 0; i < 3; i++ {
			if i < items {
				l = append(l, nil)
			} else {
				l = append(l, "t")
			}
		}
		in["l"] = l
		m = s.Parse(in, &d)
	} else {
		d = c04Refiled{A: "x", B: "y", N: 3, P: &seven}
		if absent[0] {
			d.A = ""
		}
		if absent[1] {
			d.B = ""
		}
		if absent[2] {
			d.N = 0
		}
		if absent[3] {
			d.P = nil
		}
		for i := 0; i < 3; i++ {
			if i < items {
				d.L = append(d.L, "")
			} else {
				d.L = append(d.L, "t")
			}
		}
		m = s.Validate(&d)
	}
	zh.Reset()
	count := func(key string) (c int) {
		for _, is := range m[key] {
			if is.Code == "required" || is.Code == "not_nil" {
				c++
			}
		}
		return
	}
	other := 0
	for k, l := range m {
		if k != "$first" && k != "credentials" && k != "tags" {
			other += len(l)
		}
	}
	out := &mc.Outcome{Traces: 1, Nontrivial: n+items > 0, Sig: fmt.Sprintf("refiled|%d|%v|%d", mode, absent, items)}
	out.Sample = map[string]any{"mode": mode, "absent(a,b,n,p)": absent, "absent_items": items, "credentials": count("credentials"), "tags": count("tags")}
	if count("credentials") != n || count("tags") != items || other != 0 {
		x.Note("Struct{a,b: String.Required(IssuePath(credentials)), n: Int.Required(IssuePath(credentials)), p: Ptr(Int).NotNil(IssuePath(credentials)), l: Slice(String.Required(IssuePath(tags)))}; mode %d; absent nodes (a,b,n,p) %v; %d of 3 list items absent", mode, absent, items)
		out.Viol = append(out.Viol, &mc.Violation{Key: fmt.Sprintf("C04:required-issues-under-one-path:%d", mode), What: "every absent required node must yield exactly one required / not_nil issue, also when several of them are filed under one path", Expected: fmt.Sprintf("credentials: %d, tags: %d, elsewhere: 0", n, items), Observed: fmt.Sprintf("credentials: %d, tags: %d, elsewhere: %d", count("credentials"), count("tags"), other)})
	}
	return out
}
