package scen

// One schema object, several destination types.
//
// A schema names fields, not positions: the same schema object may be used with
// any struct type that has the fields it names. This family runs every core
// case on ONE schema object three times — into destination type A, into a type
// B that has the same fields (names, types, tags) in the opposite order at
// every nesting level, and into A again — and compares each run (issues,
// destination by field name, the callbacks' invocation log with their
// arguments) with the same run on a freshly built schema. Anything a schema
// object remembers about the first destination type it met shows up here.

import (
	"fmt"
	"reflect"
	"strings"

	z "github.com/Oudwins/zog"
	"zogverif/mc"
	"zogverif/zh"
)

var layoutBCache = map[reflect.Type]reflect.Type{}

// layoutB: the same fields in the opposite order, recursively.
func layoutB(n *Node) reflect.Type {
	switch n.Kind {
	case KSlice:
		return reflect.SliceOf(layoutB(n.Elem))
	case KPtr:
		return reflect.PointerTo(layoutB(n.Elem))
	case KStruct:
		a := n.GoType()
		if t, ok := layoutBCache[a]; ok {
			return t
		}
		fs := []reflect.StructField{{Name: "ZZextra", Type: reflect.TypeOf(""), Tag: `zog:"zzextra"`}}
		for i := len(n.Fields) - 1; i >= 0; i-- {
			f := n.Fields[i]
			fs = append(fs, reflect.StructField{Name: goFieldName(f.Key), Type: layoutB(f.N), Tag: reflect.StructTag(f.Tag)})
		}
		t := reflect.StructOf(fs)
		layoutBCache[a] = t
		return t
	}
	return primType(n.Kind)
}

var layoutCCache = map[reflect.Type]reflect.Type{}

// layoutC: at every level the schema's fields are promoted from an embedded struct (type Doc struct{ Audit }).
func layoutC(n *Node) reflect.Type {
	switch n.Kind {
	case KSlice:
		return reflect.SliceOf(layoutC(n.Elem))
	case KPtr:
		return reflect.PointerTo(layoutC(n.Elem))
	case KStruct:
		a := n.GoType()
		if t, ok := layoutCCache[a]; ok {
			return t
		}
		var fs []reflect.StructField
		for _, f := range n.Fields {
			fs = append(fs, reflect.StructField{Name: goFieldName(f.Key), Type: layoutC(f.N), Tag: reflect.StructTag(f.Tag)})
		}
		carrier := reflect.StructOf(fs)
		t := reflect.StructOf([]reflect.StructField{
			{Name: "ZZfirst", Type: reflect.TypeOf(0)},
			{Name: "Carrier", Type: carrier, Anonymous: true},
			{Name: "ZZextra", Type: reflect.TypeOf(""), Tag: `zog:"zzextra"`},
		})
		layoutCCache[a] = t
		return t
	}
	return primType(n.Kind)
}

// relayout copies src into a new value of type dt, matching struct fields by name.
func relayout(src reflect.Value, dt reflect.Type) reflect.Value {
	out := reflect.New(dt).Elem()
	switch src.Kind() {
	case reflect.Slice:
		if src.IsNil() {
			return out
		}
		s := reflect.MakeSlice(dt, src.Len(), src.Cap())
		for i := 0; i < src.Len(); i++ {
			s.Index(i).Set(relayout(src.Index(i), dt.Elem()))
		}
		out.Set(s)
	case reflect.Pointer:
		if src.IsNil() {
			return out
		}
		p := reflect.New(dt.Elem())
		p.Elem().Set(relayout(src.Elem(), dt.Elem()))
		out.Set(p)
	case reflect.Struct:
		if src.Type() == primType(KTime) {
			out.Set(src)
			return out
		}
		var copyFields func(sv reflect.Value)
		copyFields = func(sv reflect.Value) {
			for i := 0; i < sv.NumField(); i++ {
				sf := sv.Type().Field(i)
				if sf.Anonymous {
					copyFields(sv.Field(i)) // promoted fields: match by their own names
					continue
				}
				of := out.FieldByName(sf.Name)
				if !of.IsValid() {
					continue // a field only this layout has
				}
				of.Set(relayout(sv.Field(i), of.Type()))
			}
		}
		copyFields(src)
	default:
		out.Set(src)
	}
	return out
}

type layoutRun struct {
	obs  *Obs
	dest string // rendered in layout A
	log  []string
}

func layoutScenario(prop string, accept map[string]bool) func(a *Alpha, ns NamedSkel, focus []string, elems int) mc.Scenario {
	return func(a *Alpha, ns NamedSkel, focus []string, elems int) mc.Scenario {
		fm := focusMap(focus)
		return func(x *mc.X) *mc.Outcome {
			zh.Reset()
			c := BuildCase(x, a, ns.S, fm, elems)
			for u := range fm {
				if !c.Touched[u] {
					return &mc.Outcome{Sig: "redundant"}
				}
			}
			ta, tb, tc := c.Root.GoType(), layoutB(c.Root), layoutC(c.Root)
			pre := deepCopy(c.Dest.Elem()) // layout A: sentinels (Parse) or the value to validate
			run := func(rec *Recorder, schemaOf func() z.ZogSchema, dt reflect.Type) *layoutRun {
				zh.Reset()
				zh.Install(x, zh.PoolLIFO, zh.OrderSorted)
				dest := reflect.New(dt)
				dest.Elem().Set(relayout(pre, dt))
				rec.Events = nil
				rec.Count = nil
				r := &layoutRun{}
				sc := schemaOf()
				if a.Mode == 0 {
					r.obs = RunParse(sc, c.Data, dest)
				} else {
					r.obs = RunValidate(sc, dest)
				}
				zh.Reset()
				r.dest = canonNoTypes(relayout(dest.Elem(), ta))
				r.log = rec.Strings()
				return r
			}
			sharedRec := &Recorder{}
			shared := BuildZog(c.Root, sharedRec)
			fresh := func(dt reflect.Type) *layoutRun {
				rec := &Recorder{}
				return run(rec, func() z.ZogSchema { return BuildZog(c.Root, rec) }, dt)
			}
			useShared := func(dt reflect.Type) *layoutRun { return run(sharedRec, func() z.ZogSchema { return shared }, dt) }
			out := &mc.Outcome{Nontrivial: c.NDev > 0}
			steps := []struct {
				name string
				dt   reflect.Type
			}{{"first use: type A", ta}, {"second use: type B (same fields, opposite order)", tb}, {"third use: type A again", ta}, {"fourth use: type C (the fields are promoted from an embedded struct)", tc}}
			var sig []string
			for _, st := range steps {
				got, want := useShared(st.dt), fresh(st.dt)
				out.Traces += 2
				sig = append(sig, fmt.Sprint(got.obs.IssueStrings()))
				class := ""
				switch {
				case got.obs.Panic != want.obs.Panic:
					class = "panic"
				case !eqStrings(got.obs.IssueStrings(), want.obs.IssueStrings()):
					class = "issues"
					if len(got.obs.Issues) < len(want.obs.Issues) {
						class = "issues-missing"
					}
				case got.dest != want.dest:
					class = "destination"
				case !eqStrings(got.log, want.log):
					class = "callbacks"
				}
				if class == "" && st.dt == tc {
					// a destination whose fields are promoted from an embedded struct is addressed by the same names:
					// a fresh schema must do into it exactly what a fresh schema does into the plain type
					plain := fresh(ta)
					out.Traces++
					eclass := ""
					switch {
					case want.obs.Panic != plain.obs.Panic:
						eclass = "panic"
					case !eqStrings(want.obs.IssueStrings(), plain.obs.IssueStrings()):
						eclass = "issues"
						if len(want.obs.Issues) < len(plain.obs.Issues) {
							eclass = "issues-missing"
						}
					case want.dest != plain.dest:
						eclass = "destination"
					}
					// (the callback logs are not compared across types: they print struct arguments with their Go type)
					if eclass != "" && accept[eclass] {
						d := c.Describe()
						x.Note("schema: %v", d["schema"])
						x.Note("mode: %v input/value: %v%v", d["mode"], d["input"], d["value"])
						out.Viol = append(out.Viol, &mc.Violation{
							Key:      fmt.Sprintf("%s:destination-with-embedded-struct:%s", prop, eclass),
							What:     "into a destination whose fields are promoted from an embedded struct the schema does not do what it does into the plain struct type",
							Expected: fmt.Sprintf("panic=%q issues=%v dest=%s callbacks=%v", plain.obs.Panic, plain.obs.IssueStrings(), plain.dest, plain.log),
							Observed: fmt.Sprintf("panic=%q issues=%v dest=%s callbacks=%v", want.obs.Panic, want.obs.IssueStrings(), want.dest, want.log),
						})
						break
					}
				}
				if class == "" || !accept[class] {
					continue
				}
				d := c.Describe()
				x.Note("schema: %v", d["schema"])
				x.Note("mode: %v input/value: %v%v", d["mode"], d["input"], d["value"])
				x.Note("the one schema object was used with: %s", st.name)
				out.Viol = append(out.Viol, &mc.Violation{
					Key:      fmt.Sprintf("%s:schema-reuse-across-destination-types:%s", prop, class),
					What:     "a schema object used with a second destination type (same fields, another order) does not behave like a freshly built schema: " + st.name,
					Expected: fmt.Sprintf("issues=%v dest=%s callbacks=%v", want.obs.IssueStrings(), want.dest, want.log),
					Observed: fmt.Sprintf("panic=%q issues=%v dest=%s callbacks=%v", got.obs.Panic, got.obs.IssueStrings(), got.dest, got.log),
				})
				break
			}
			out.Sig = ns.Name + "|" + strings.Join(sig, "|")
			out.LazySample = func() any { return map[string]any{"case": c.Describe(), "issues_per_use": sig} }
			return out
		}
	}
}

// layoutItems: every skeleton that contains a struct, any one unit over the reduced alphabets, both modes.
func layoutItems(tier, prop string, accept ...string) []Item {
	acc := map[string]bool{}
	for _, a := range accept {
		acc[a] = true
	}
	var items []Item
	for _, it := range coreItemsFiltered(tier, layoutScenario(prop, acc), func(a *Alpha) { a.Lite = true; a.WithPost = true }, []int{0, 1}, 1, func(ns NamedSkel) bool { return hasStruct(ns.S) }) {
		it.Name = "layouts/" + it.Name
		items = append(items, it)
	}
	return items
}

func hasStruct(s *Skel) bool {
	switch s.Kind {
	case KStruct:
		return true
	case KSlice, KPtr:
		return hasStruct(s.Elem)
	}
	return false
}

const layoutRule = "one schema object, several destination types: every core case (skeletons containing a struct, any one unit over the reduced alphabets with PostTransforms, both modes) run three times on ONE schema object — into type A, into a type B with the same fields in the opposite order at every level, into A again, into a type C whose fields are promoted from an embedded struct — each run compared (issues, destination by field name, callback log with arguments) with the same run on a freshly built schema"
