package scen

// Reference model `spec` (DESIGN §3.4): a pure recursive function over the
// abstract schema, written from the documentation and the property
// statements. No contexts, no flags, no pools: a node's issues depend on the
// node and its input only. The only threaded state is "does the execution
// have an issue yet" (PostTransforms are documented to run only if none
// exists at that moment) and the visit order chosen for struct fields.

import (
	"fmt"
	"reflect"
	"sort"
	"strconv"
	"strings"
	"time"
)

type specState struct {
	issues  []Iss
	log     []string
	orders  [][]int // field visit orders recorded from the real run, per struct visit
	oi      int
	ranTest map[string]int // pos -> number of test invocations
	wantLog bool
	ctxStr  string // expected rendering of ctx.Get for the probe keys
	quirks  map[string]bool // known-finding switches (DESIGN §3.4); fired records which ones mattered
	fired   map[string]bool
}

// specSrc is a record source as a front end presents it: map-like (Go map,
// decoded JSON) or flat (form, query, environment: one namespace for all
// nesting levels), with the struct tag that names keys.
type specSrc struct {
	flat bool
	tag  string
	get  func(key string) any // flat sources
	m    any                  // map-like sources: the Go value
	nested bool               // a record found under a key of another record (not the document itself)
}

func (st *specState) add(path, code, dtype string) {
	key := path
	if key == "" {
		key = "$root"
	}
	st.issues = append(st.issues, Iss{Key: key, Path: path, Code: code, Dtype: dtype})
}

func (st *specState) has() bool { return len(st.issues) > 0 }

func (st *specState) sorted() []string {
	out := make([]string, len(st.issues))
	for i, is := range st.issues {
		out[i] = is.String()
	}
	sort.Strings(out)
	return out
}

// sortedFor renders the expected issues the way the root schema returns them:
// primitive roots return a list (no map keys).
func (st *specState) sortedFor(root *Node) []string {
	if !root.Kind.Prim() {
		return st.sorted()
	}
	out := make([]string, len(st.issues))
	for i, is := range st.issues {
		is.Key = ""
		out[i] = is.String()
	}
	sort.Strings(out)
	return out
}

func (st *specState) logCall(who string, arg reflect.Value, isPtr bool) {
	if !st.wantLog {
		return
	}
	st.log = append(st.log, fmt.Sprintf("%s(arg=%s ptr=%v nil=false ctx=%s)", who, canonValue(arg), isPtr, st.ctxStr))
}

func parseAbsentSpec(data any) bool {
	if data == nil {
		return true
	}
	if sp, ok := data.(*specSrc); ok {
		if sp.flat {
			return false
		}
		// an empty JSON document is an absent value for a top-level pointer (the repository's own
		// TestTopLevelOptionalStruct documents this)
		if mv := reflect.ValueOf(sp.m); mv.Kind() == reflect.Map && mv.Len() == 0 && sp.tag == "json" && !sp.nested {
			return true
		}
		return parseAbsentSpec(sp.m)
	}
	if s, ok := data.(string); ok {
		return strings.TrimSpace(s) == ""
	}
	return false
}

// specCoerce: the documented coercion table (docs/core-concepts parsing table, DESIGN Appendix A).
func specCoerce(k Kind, data any) (any, bool) {
	switch k {
	case KStr:
		if s, ok := data.(string); ok {
			return s, true
		}
		return fmt.Sprintf("%v", data), true
	case KInt:
		switch v := data.(type) {
		case int:
			return v, true
		case int32:
			return int(v), true
		case int64:
			return int(v), true
		case float64:
			if v != v || v >= 9.3e18 || v <= -9.3e18 {
				return nil, false
			}
			return int(v), true
		case bool:
			if v {
				return 1, true
			}
			return 0, true
		case string:
			n, err := strconv.Atoi(v)
			if err != nil {
				return nil, false
			}
			return n, true
		}
		return nil, false
	case KFloat:
		switch v := data.(type) {
		case int:
			return float64(v), true
		case float32:
			return float64(v), true
		case float64:
			return v, true
		case string:
			f, err := strconv.ParseFloat(v, 64)
			if err != nil {
				return nil, false
			}
			return f, true
		}
		return nil, false
	case KBool:
		switch v := data.(type) {
		case bool:
			return v, true
		case string:
			if v == "on" {
				return true, true
			}
			if v == "off" {
				return false, true
			}
			b, err := strconv.ParseBool(v)
			if err != nil {
				return nil, false
			}
			return b, true
		case int:
			if v == 0 {
				return false, true
			}
			if v == 1 {
				return true, true
			}
		}
		return nil, false
	case KTime:
		switch v := data.(type) {
		case time.Time:
			return v, true
		case string:
			t, err := time.Parse(time.RFC3339, v)
			if err != nil {
				return nil, false
			}
			return t, true
		case int:
			return time.Unix(int64(v), 0), true
		case int64:
			return time.Unix(v, 0), true
		}
		return nil, false
	}
	return nil, false
}

func (st *specState) posts(n *Node, dest reflect.Value, path string, wrapIssue bool) {
	for i := 0; i < n.NPosts; i++ {
		if st.has() {
			return
		}
		st.logCall(fmt.Sprintf("%s.post%d", n.Pos, i+1), dest, true)
		if n.PostErr == i+1 {
			st.add(path, "", n.DType())
			return
		}
		if n.PostErr == -(i + 1) {
			if wrapIssue {
				st.add(path, "", n.DType())
			} else if n.PostNoPath {
				st.add("", "post_issue", "") // reported as it is: no path, keyed $root
			} else {
				st.add("custom.path", "post_issue", "")
			}
			return
		}
	}
}

func (st *specState) runTests(n *Node, dest reflect.Value, path string) (caught bool) {
	for _, t := range n.Tests {
		if n.Kind.Prim() {
			st.logTest(n, t, dest, false)
		} else {
			st.logTest(n, t, dest, true)
		}
		ok := true
		if n.Kind == KStruct {
			ok = !t.Fails
		} else {
			ok = t.Pred(dest)
		}
		if !ok {
			if n.Catch && !n.NoCatch {
				dest.Set(reflect.ValueOf(primValue(n.Kind, VCatch)))
				return true
			}
			if t.Path != "" {
				st.add(t.Path, t.Code, n.DType()) // IssuePath: the issue of this test is filed elsewhere
			} else {
				st.add(path, t.Code, n.DType())
				if t.Double {
					st.add(path, t.Code, n.DType())
				}
			}
		}
	}
	return false
}

func (st *specState) logTest(n *Node, t TestSpec, dest reflect.Value, isPtr bool) {
	if t.Builtin {
		return
	}
	if st.ranTest != nil {
		st.ranTest[n.Pos]++
	}
	st.logCall(n.Pos+".test."+t.Code, dest, isPtr)
}

// specParse is the documented Parse semantics of node n on input data into dest.
func (st *specState) specParse(n *Node, data any, dest reflect.Value, path string) {
	switch n.Kind {
	case KSlice:
		st.sliceParse(n, data, dest, path)
	case KStruct:
		st.structParse(n, data, dest, path)
	case KPtr:
		if parseAbsentSpec(data) {
			if n.Req {
				st.add(path, "not_nil", n.DType())
			}
			return
		}
		if dest.IsNil() {
			dest.Set(reflect.New(dest.Type().Elem()))
		}
		st.specParse(n.Elem, data, dest.Elem(), path)
	default:
		st.primParse(n, data, dest, path)
	}
}

func (st *specState) primParse(n *Node, data any, dest reflect.Value, path string) {
	defer st.posts(n, dest, path, false)
	catching := n.Catch && !n.NoCatch
	if parseAbsentSpec(data) {
		if n.DefClass > 0 {
			dest.Set(n.defaultValue())
		} else if !n.Req {
			return
		} else {
			if catching {
				dest.Set(reflect.ValueOf(primValue(n.Kind, VCatch)))
				return
			}
			st.add(path, "required", n.DType())
			return
		}
	} else {
		v, ok := specCoerce(n.Kind, data)
		if !ok {
			if catching {
				dest.Set(reflect.ValueOf(primValue(n.Kind, VCatch)))
				return
			}
			st.add(path, "coerce", n.DType())
			return
		}
		dest.Set(reflect.ValueOf(v))
	}
	st.runTests(n, dest, path)
}

func (st *specState) sliceParse(n *Node, data any, dest reflect.Value, path string) {
	defer st.posts(n, dest, path, false)
	var list []any
	if parseAbsentSpec(data) {
		if n.DefClass > 0 {
			d := n.defaultValue()
			for i := 0; i < d.Len(); i++ {
				list = append(list, d.Index(i).Interface())
			}
		} else if !n.Req {
			return
		} else {
			st.add(path, "required", "slice")
			return
		}
	} else {
		rv := reflect.ValueOf(data)
		if rv.Kind() == reflect.Slice {
			for i := 0; i < rv.Len(); i++ {
				list = append(list, rv.Index(i).Interface())
			}
		} else {
			list = []any{data}
		}
	}
	dest.Set(reflect.MakeSlice(dest.Type(), len(list), len(list)))
	for i, e := range list {
		st.specParse(n.Elem, e, dest.Index(i), fmt.Sprintf("%s[%d]", path, i))
	}
	st.runTests(n, dest, path)
}

func joinPath(path, key string) string {
	if path == "" {
		return key
	}
	return path + "." + key
}

func (st *specState) nextOrder(nf int) []int {
	if st.oi < len(st.orders) {
		o := st.orders[st.oi]
		st.oi++
		if len(o) == nf {
			return o
		}
	}
	o := make([]int, nf)
	for i := range o {
		o[i] = i
	}
	return o
}

// sortedFields returns fields sorted by schema key (the canonical order the order hook permutes).
func sortedFields(n *Node) []*Field {
	fs := append([]*Field(nil), n.Fields...)
	sort.Slice(fs, func(i, j int) bool { return fs[i].Key < fs[j].Key })
	return fs
}

func fieldKeyFor(f *Field, sourceTag string) string {
	tag := reflect.StructTag(f.Tag)
	if sourceTag != "" {
		if v, ok := tag.Lookup(sourceTag); ok {
			return v
		}
	}
	if v, ok := tag.Lookup("zog"); ok {
		return v
	}
	return f.Key
}

func (st *specState) structParse(n *Node, data any, dest reflect.Value, path string) {
	defer st.posts(n, dest, path, true)
	var lookup func(key string) any
	var src *specSrc
	if sp, ok := data.(*specSrc); ok {
		src = sp
		if sp.flat {
			lookup = sp.get
		} else {
			l, ok := specProvider(sp.m)
			if !ok {
				st.add(path, "coerce", "struct")
				return
			}
			lookup = l
		}
	} else {
		l, ok := specProvider(data)
		if !ok {
			st.add(path, "coerce", "struct")
			return
		}
		lookup = l
	}
	fs := sortedFields(n)
	var order []int
	if len(fs) >= 2 {
		order = st.nextOrder(len(fs))
	} else {
		order = []int{0}[:len(fs)]
	}
	tag := ""
	if src != nil {
		tag = src.tag
		if !src.flat && tag != "" && st.quirks["empty-doc-tag"] {
			// as is: an empty JSON object has no provider (zjson.Decode returns nil), so its source tag is unknown
			if mv := reflect.ValueOf(src.m); mv.Kind() == reflect.Map && mv.Len() == 0 {
				if nestedUsesSourceTag(n, tag) {
					st.fire("empty-doc-tag")
				}
				tag = ""
				src = &specSrc{tag: "", m: src.m}
			}
		}
	}
	for _, idx := range order {
		f := fs[idx]
		key := fieldKeyFor(f, tag)
		var child any = lookup(key)
		if src != nil && isStructLike(f.N) {
			switch {
			case src.flat:
				// documented: flat sources resolve nested fields against the same source
				if st.quirks["nested-flat"] {
					st.fire("nested-flat") // as is: the nested schema receives the looked-up scalar
				} else if f.N.Kind == KPtr && parseAbsentSpec(child) {
					// an optional record behind a pointer is present in a flat source only if its own key is
					// (nothing else can mark it present); child stays the blank looked-up value: absent
				} else {
					child = src
				}
			default:
				// documented: the source tag names keys at every depth
				{
					ctag := src.tag
					if st.quirks["nested-tag"] {
						if nestedUsesSourceTag(f.N, src.tag) {
							st.fire("nested-tag") // as is: nested providers are rebuilt without the source tag
						}
						ctag = ""
					}
					child = &specSrc{tag: ctag, m: child, nested: true}
				}
			}
		}
		st.specParse(f.N, child, dest.FieldByName(goFieldName(f.Key)), joinPath(path, key))
	}
	st.runTests(n, dest, path)
}

func (st *specState) fire(q string) {
	if st.fired == nil {
		st.fired = map[string]bool{}
	}
	st.fired[q] = true
}

func isStructLike(n *Node) bool {
	for n.Kind == KPtr {
		n = n.Elem
	}
	return n.Kind == KStruct
}

// nestedUsesSourceTag: does any field below n carry the source tag (so that dropping it changes a key)?
func nestedUsesSourceTag(n *Node, tag string) bool {
	for n.Kind == KPtr {
		n = n.Elem
	}
	for _, f := range n.Fields {
		if _, ok := reflect.StructTag(f.Tag).Lookup(tag); ok {
			return true
		}
		if isStructLike(f.N) && nestedUsesSourceTag(f.N, tag) {
			return true
		}
	}
	return false
}

// specProvider: which Go values can stand for a record (nil: every field absent).
func specProvider(data any) (func(key string) any, bool) {
	if data == nil {
		return func(string) any { return nil }, true
	}
	rv := reflect.ValueOf(data)
	for rv.Kind() == reflect.Pointer {
		if rv.IsNil() {
			return func(string) any { return nil }, true
		}
		rv = rv.Elem()
	}
	switch rv.Kind() {
	case reflect.Map:
		if rv.Type().Key().Kind() != reflect.String {
			return nil, false
		}
		return func(key string) any {
			v := rv.MapIndex(reflect.ValueOf(key).Convert(rv.Type().Key()))
			if !v.IsValid() {
				return nil
			}
			return v.Interface()
		}, true
	case reflect.Struct:
		return func(key string) any {
			f := rv.FieldByName(key)
			if !f.IsValid() || !f.CanInterface() {
				return nil
			}
			return f.Interface()
		}, true
	}
	return nil, false
}

// ---------------------------------------------------------------------------
// Validate

func (st *specState) specValidate(n *Node, dest reflect.Value, path string) {
	switch n.Kind {
	case KSlice:
		defer st.posts(n, dest, path, false)
		if dest.Len() == 0 {
			if n.DefClass > 0 {
				d := n.defaultValue()
				cp := reflect.MakeSlice(dest.Type(), d.Len(), d.Len())
				reflect.Copy(cp, d)
				dest.Set(cp)
			} else if !n.Req {
				return
			} else {
				st.add(path, "required", "slice")
				return
			}
		}
		for i := 0; i < dest.Len(); i++ {
			st.specValidate(n.Elem, dest.Index(i), fmt.Sprintf("%s[%d]", path, i))
		}
		st.runTests(n, dest, path)
	case KStruct:
		defer st.posts(n, dest, path, false)
		fs := sortedFields(n)
		var order []int
		if len(fs) >= 2 {
			order = st.nextOrder(len(fs))
		} else {
			order = []int{0}[:len(fs)]
		}
		for _, idx := range order {
			f := fs[idx]
			key := fieldKeyFor(f, "")
			st.specValidate(f.N, dest.FieldByName(goFieldName(f.Key)), joinPath(path, key))
		}
		st.runTests(n, dest, path)
	case KPtr:
		if dest.IsNil() {
			if n.Req {
				st.add(path, "not_nil", n.DType())
			}
			return
		}
		st.specValidate(n.Elem, dest.Elem(), path)
	default:
		defer st.posts(n, dest, path, false)
		catching := n.Catch && !n.NoCatch
		if dest.IsZero() {
			if n.DefClass > 0 {
				dest.Set(n.defaultValue())
			} else if !n.Req {
				return
			} else {
				if catching {
					dest.Set(reflect.ValueOf(primValue(n.Kind, VCatch)))
					return
				}
				st.add(path, "required", n.DType())
				return
			}
		}
		st.runTests(n, dest, path)
	}
}
