package scen

// C18 — numeric coercion never silently changes a number.
// Schemas {Int, Int32, Int64, Float32, Float64} × source representations ×
// boundary magnitudes; oracle: exact big-number arithmetic on the input.

import (
	"reflect"
	"fmt"
	"math"
	"math/big"
	"net/http"
	"net/http/httptest"
	"strconv"
	"strings"

	z "github.com/Oudwins/zog"
	"github.com/Oudwins/zog/parsers/zjson"
	"github.com/Oudwins/zog/zhttp"
	"zogverif/mc"
	"zogverif/zh"
)

var c18Magnitudes = []string{
	"0", "1", "-1", "7", "100", "-100",
	"32767", "32768", "65536",
	"16777216", "16777217",
	"2147483647", "2147483648", "2147483649", "-2147483647", "-2147483648", "-2147483649",
	"3000000000", "-3000000000", "4294967296", "4294967297",
	"9007199254740991", "9007199254740992", "9007199254740993", "-9007199254740993",
	"9223372036854775807", "9223372036854775808", "9223372036854775809", "9223372036854777856",
	"-9223372036854775807", "-9223372036854775808", "-9223372036854775809", "-9223372036854777856",
	"10000000000000000000", "-10000000000000000000", "18446744073709551616", "18446744073709551615", "18446744073709551611", "18446744071562067968",
	"340282346638528859811704183484516925440",  // MaxFloat32
	"340282346638528897590636046441678635008",  // next float64 above MaxFloat32
	"340282356779733661637539395458142568448",  // halfway to 2^128: rounds to +Inf in float32
	"-340282356779733661637539395458142568448",
	"1e39", "-1e39", "1e300", "-1e300",
	"0.5", "-0.5", "1.9", "-1.9", "0.1", "2147483647.5", "2147483648.5", "-2147483648.5", "-2147483649.5",
	"1e-46", "5e-324",
	// fractions one unit in the last place below an integer (what decimal arithmetic such as 19.99*100 produces)
	"2.9999999999999996", "-2.9999999999999996", "0.9999999999999999", "1998.9999999999998", "999999.9999999999", "-0.9999999999999999",
}

var c18Odd = []string{" 1 ", "0x10", "1_000", "+5", "-0", "1.0", "1e3", "1E3", "1e400", "-1e400", "NaN", "Inf", "-Inf", "+Inf", "infinity", "0b11", "0o17", "١", "1,000", "1.", ".5", "1e", "--1",
	"010", "0123", "-0755", "00017777777777", "08", "007", "0010.50", "00", "-00",
	// decimal digits of other scripts (zero on a 16-aligned code point: full-width, Arabic-Indic, Thai; not aligned: Devanagari, Bengali, Tamil, mathematical bold)
	"１２", "١٢", "๑๒", "१२", "१२३", "১০", "-૨૧", "१.२", "௧e௨", "𝟐𝟑", "1२",
	// whole numbers written with a zero fraction, the integer part ending in zeros
	"10.0", "1200.0", "-20.0", "100.00", "3000000000.0", "5.00", "0.0", "10.", "-0.0"}

// exact value of an odd string under the reading a user would expect, if any
func c18OddValue(s string) (*big.Rat, string) {
	switch s {
	case " 1 ":
		return big.NewRat(1, 1), ""
	case "0x10":
		return big.NewRat(16, 1), ""
	case "1_000", "1e3", "1E3", "1,000":
		return big.NewRat(1000, 1), ""
	case "+5":
		return big.NewRat(5, 1), ""
	case "-0":
		return big.NewRat(0, 1), ""
	case "1.0", "1.":
		return big.NewRat(1, 1), ""
	case ".5":
		return big.NewRat(1, 2), ""
	case "0b11":
		return big.NewRat(3, 1), ""
	case "0o17":
		return big.NewRat(15, 1), ""
	case "1e400":
		r, _ := new(big.Rat).SetString("1e400")
		return r, ""
	case "-1e400":
		r, _ := new(big.Rat).SetString("-1e400")
		return r, ""
	case "010", "10.0", "10.":
		return big.NewRat(10, 1), ""
	case "1200.0":
		return big.NewRat(1200, 1), ""
	case "-20.0":
		return big.NewRat(-20, 1), ""
	case "100.00":
		return big.NewRat(100, 1), ""
	case "3000000000.0":
		return big.NewRat(3000000000, 1), ""
	case "5.00":
		return big.NewRat(5, 1), ""
	case "0.0", "-0.0":
		return big.NewRat(0, 1), ""
	case "１２", "١٢", "๑๒", "१२", "1२":
		return big.NewRat(12, 1), ""
	case "१२३":
		return big.NewRat(123, 1), ""
	case "১০":
		return big.NewRat(10, 1), ""
	case "-૨૧":
		return big.NewRat(-21, 1), ""
	case "१.२":
		return big.NewRat(6, 5), ""
	case "௧e௨":
		return big.NewRat(100, 1), ""
	case "𝟐𝟑":
		return big.NewRat(23, 1), ""
	case "0123":
		return big.NewRat(123, 1), ""
	case "-0755":
		return big.NewRat(-755, 1), ""
	case "00017777777777":
		return big.NewRat(17777777777, 1), ""
	case "08":
		return big.NewRat(8, 1), ""
	case "007":
		return big.NewRat(7, 1), ""
	case "0010.50":
		return big.NewRat(21, 2), ""
	case "00", "-00":
		return big.NewRat(0, 1), ""
	case "NaN":
		return nil, "nan"
	case "Inf", "+Inf", "infinity":
		return nil, "+inf"
	case "-Inf":
		return nil, "-inf"
	}
	return nil, "garbage"
}

type c18Input struct {
	repr    string
	val     any      // Go value handed to zog (for json/form: the text)
	exact   *big.Rat // exact value of the input, nil if special
	special string   // "nan", "+inf", "-inf", "garbage"
	desc    string
}

func ratOfFloat(f float64) (*big.Rat, string) {
	if math.IsNaN(f) {
		return nil, "nan"
	}
	if math.IsInf(f, 1) {
		return nil, "+inf"
	}
	if math.IsInf(f, -1) {
		return nil, "-inf"
	}
	r := new(big.Rat)
	r.SetFloat64(f)
	return r, ""
}

// c18Inputs renders magnitude m in every source representation that can express it.
func c18Inputs(m string) []c18Input {
	var out []c18Input
	r, ok := new(big.Rat).SetString(m)
	if !ok {
		panic("bad magnitude " + m)
	}
	if r.IsInt() {
		n := r.Num()
		if n.IsInt64() {
			v := n.Int64()
			out = append(out, c18Input{"int64", v, r, "", fmt.Sprintf("int64(%d)", v)})
			out = append(out, c18Input{"int", int(v), r, "", fmt.Sprintf("int(%d)", v)})
			if v >= math.MinInt32 && v <= math.MaxInt32 {
				out = append(out, c18Input{"int32", int32(v), r, "", fmt.Sprintf("int32(%d)", v)})
			}
		}
	}
	if r.IsInt() && r.Sign() >= 0 {
		// unsigned Go values (what a counter, an id or a size read from another API is typed as)
		n := r.Num()
		if n.IsUint64() {
			u := n.Uint64()
			out = append(out, c18Input{"uint64", u, r, "", fmt.Sprintf("uint64(%d)", u)})
			out = append(out, c18Input{"uint", uint(u), r, "", fmt.Sprintf("uint(%d)", u)})
			if u <= math.MaxUint32 {
				out = append(out, c18Input{"uint32", uint32(u), r, "", fmt.Sprintf("uint32(%d)", u)})
			}
		}
	}
	bf := new(big.Float).SetPrec(4000).SetRat(r)
	f64, _ := bf.Float64()
	fr, fs := ratOfFloat(f64)
	out = append(out, c18Input{"float64", f64, fr, fs, fmt.Sprintf("float64(%v)", f64)})
	f32, _ := bf.Float32()
	fr32, fs32 := ratOfFloat(float64(f32))
	out = append(out, c18Input{"float32", f32, fr32, fs32, fmt.Sprintf("float32(%v)", f32)})
	// decimal string: exact
	dec := m
	if strings.ContainsAny(m, "eE") {
		dec = r.FloatString(0)
		if !r.IsInt() {
			dec = bf.Text('f', 400)
			dec = strings.TrimRight(dec, "0")
		}
		// decimal expansion may be inexact for tiny numbers; recompute exact value from the text
	}
	dr, ok := new(big.Rat).SetString(dec)
	if ok {
		out = append(out, c18Input{"decstring", dec, dr, "", fmt.Sprintf("%q", dec)})
		out = append(out, c18Input{"form", dec, dr, "", fmt.Sprintf("form v=%s", dec)})
		// a JSON number denotes the IEEE double the decoder produces (encoding/json, like JavaScript)
		jf, _ := new(big.Float).SetPrec(4000).SetRat(dr).Float64()
		if jr, js := ratOfFloat(jf); js == "" {
			out = append(out, c18Input{"json", dec, jr, "", fmt.Sprintf("json {\"v\": %s}", dec)})
		}
	}
	// exponent string of the nearest float64
	if fs == "" {
		es := strconv.FormatFloat(f64, 'e', -1, 64)
		er, ok := new(big.Rat).SetString(es)
		if ok {
			out = append(out, c18Input{"expstring", es, er, "", fmt.Sprintf("%q", es)})
			out = append(out, c18Input{"jsonexp", es, fr, "", fmt.Sprintf("json {\"v\": %s}", es)})
		}
	}
	return out
}

func c18Specials() []c18Input {
	var out []c18Input
	for _, f := range []float64{math.NaN(), math.Inf(1), math.Inf(-1)} {
		_, s := ratOfFloat(f)
		out = append(out, c18Input{"float64", f, nil, s, fmt.Sprintf("float64(%v)", f)})
		out = append(out, c18Input{"float32", float32(f), nil, s, fmt.Sprintf("float32(%v)", f)})
	}
	for _, s := range c18Odd {
		r, sp := c18OddValue(s)
		out = append(out, c18Input{"oddstring", s, r, sp, fmt.Sprintf("%q", s)})
		out = append(out, c18Input{"oddform", s, r, sp, fmt.Sprintf("form v=%s", s)})
	}
	return out
}

// truncToward0 returns the integer part of r.
func truncToward0(r *big.Rat) *big.Int {
	q := new(big.Int).Quo(r.Num(), r.Denom()) // Quo truncates toward zero
	return q
}

type c18Kind struct {
	name string
	bits int  // for ints
	flt  bool // float kinds
}

// c18Expected decides whether the observed destination (as exact rat / special) is acceptable without an issue.
func c18Acceptable(k c18Kind, in c18Input, got any) (bool, string) {
	if in.exact == nil {
		switch in.special {
		case "garbage":
			return false, "unparseable text must yield a coerce issue"
		case "nan", "+inf", "-inf":
			if !k.flt {
				return false, "NaN/Inf has no integer value: must yield a coerce issue"
			}
			var g float64
			switch v := got.(type) {
			case float64:
				g = v
			case float32:
				g = float64(v)
			}
			if in.special == "nan" && math.IsNaN(g) || in.special == "+inf" && math.IsInf(g, 1) || in.special == "-inf" && math.IsInf(g, -1) {
				return true, ""
			}
			return false, "special float value changed"
		}
	}
	if !k.flt {
		t := truncToward0(in.exact)
		lo := new(big.Int).Neg(new(big.Int).Lsh(big.NewInt(1), uint(k.bits-1)))
		hi := new(big.Int).Sub(new(big.Int).Lsh(big.NewInt(1), uint(k.bits-1)), big.NewInt(1))
		if t.Cmp(lo) < 0 || t.Cmp(hi) > 0 {
			return false, fmt.Sprintf("value %s is outside the destination range [%s,%s]: must yield a coerce issue", t, lo, hi)
		}
		var g int64
		switch v := got.(type) {
		case int:
			g = int64(v)
		case int32:
			g = int64(v)
		case int64:
			g = v
		}
		if big.NewInt(g).Cmp(t) != 0 {
			return false, fmt.Sprintf("expected %s (truncation toward zero of the exact input)", t)
		}
		return true, ""
	}
	bf := new(big.Float).SetPrec(4000).SetRat(in.exact)
	if k.name == "Float64" {
		want, _ := bf.Float64()
		if math.IsInf(want, 0) {
			return false, "value beyond float64 range must yield a coerce issue"
		}
		if got.(float64) == want {
			return true, ""
		}
		return false, fmt.Sprintf("expected nearest float64 %v", want)
	}
	// Float32: accept direct rounding or rounding through float64
	w1, _ := bf.Float32()
	f64, _ := bf.Float64()
	w2 := float32(f64)
	if math.IsInf(float64(w1), 0) && math.IsInf(float64(w2), 0) {
		return false, "value beyond float32 range must yield a coerce issue (not +-Inf)"
	}
	g := got.(float32)
	if (g == w1 && !math.IsInf(float64(w1), 0)) || (g == w2 && !math.IsInf(float64(w2), 0)) {
		return true, ""
	}
	return false, fmt.Sprintf("expected nearest float32 %v", w1)
}

func c18Run[T int | int32 | int64 | float32 | float64](k c18Kind, mk func() *z.NumberSchema[T], inputs []c18Input) mc.Scenario {
	return func(x *mc.X) *mc.Outcome {
		zh.Reset()
		zh.Install(x, zh.PoolLIFO, zh.OrderSorted)
		withTest := x.Bool("upperBoundTest")
		in := inputs[x.Choose(len(inputs), "input")]
		place := 0
		switch in.repr {
		case "json", "jsonexp", "form", "oddform":
		default:
			place = x.Choose(4, "placement") // 0 top level, 1 element of a typed slice, 2 element of []any, 3 value of a typed map
		}
		s := mk()
		if withTest {
			s = s.LT(T(100))
		}
		var dest T
		var codes []string
		func() {
			switch in.repr {
			case "json", "jsonexp":
				var d struct{ V T }
				m := z.Struct(z.Schema{"v": s}).Parse(zjson.Decode(strings.NewReader(`{"v": `+in.val.(string)+`}`)), &d)
				dest = d.V
				for k, l := range m {
					if k != "$first" {
						for _, i := range l {
							codes = append(codes, i.Code)
						}
					}
				}
			case "form", "oddform":
				var d struct{ V T }
				req := httptest.NewRequest(http.MethodPost, "/", strings.NewReader("v="+urlEscape(in.val.(string))))
				req.Header.Set("Content-Type", "application/x-www-form-urlencoded")
				m := z.Struct(z.Schema{"v": s}).Parse(zhttp.Request(req), &d)
				dest = d.V
				for k, l := range m {
					if k != "$first" {
						for _, i := range l {
							codes = append(codes, i.Code)
						}
					}
				}
			default:
				collect := func(m z.ZogIssueMap) {
					for k, l := range m {
						if k != "$first" {
							for _, i := range l {
								codes = append(codes, i.Code)
							}
						}
					}
				}
				switch place {
				case 0:
					for _, i := range s.Parse(in.val, &dest) {
						codes = append(codes, i.Code)
					}
				case 1, 2:
					// the only element of a list: a statically typed Go slice of the input's own type, or []any
					var list any = []any{in.val}
					if place == 1 {
						sl := reflect.MakeSlice(reflect.SliceOf(reflect.TypeOf(in.val)), 1, 1)
						sl.Index(0).Set(reflect.ValueOf(in.val))
						list = sl.Interface()
					}
					var d []T
					collect(z.Slice(s).Parse(list, &d))
					if len(d) == 1 {
						dest = d[0]
					} else if len(codes) == 0 {
						codes = append(codes, "coerce") // nothing was stored and nothing reported: not this property's business
					}
				case 3:
					// a value of a statically typed map
					mp := reflect.MakeMap(reflect.MapOf(reflect.TypeOf(""), reflect.TypeOf(in.val)))
					mp.SetMapIndex(reflect.ValueOf("v"), reflect.ValueOf(in.val))
					var d struct{ V T }
					collect(z.Struct(z.Schema{"v": s}).Parse(mp.Interface(), &d))
					dest = d.V
				}
			}
		}()
		coerce := false
		required := false
		for _, c := range codes {
			if c == "coerce" {
				coerce = true
			}
			if c == "required" || c == "invalid_json" || c == "invalid_form" {
				required = true
			}
		}
		out := &mc.Outcome{Traces: 1, Nontrivial: true}
		out.Sig = fmt.Sprintf("%s|%s|%d|coerce=%v|codes=%d", k.name, in.repr, place, coerce, len(codes))
		out.Sample = map[string]any{"schema": k.name, "input": in.desc, "repr": in.repr, "placement": place, "issue_codes": codes, "dest": fmt.Sprint(dest)}
		if coerce || required {
			return out // a coerce issue is always an acceptable answer for C18
		}
		ok, why := c18Acceptable(k, in, any(dest))
		if !ok {
			class := "wrong-value"
			if strings.Contains(why, "range") {
				class = "out-of-range"
			} else if strings.Contains(why, "NaN") || strings.Contains(why, "special") {
				class = "nan-inf"
			} else if strings.Contains(why, "unparseable") {
				class = "garbage-accepted"
			}
			out.Viol = append(out.Viol, &mc.Violation{
				Key:      fmt.Sprintf("C18:%s:%s:%s%s", k.name, in.repr, class, []string{"", ":in-typed-slice", ":in-list", ":in-typed-map"}[place]),
				What:     fmt.Sprintf("%s schema, input %s: no coerce issue but destination is %v — %s", k.name, in.desc, dest, why),
				Expected: why,
				Observed: fmt.Sprintf("dest=%v issues=%v", dest, codes),
			})
		}
		return out
	}
}

func urlEscape(s string) string {
	var sb strings.Builder
	for i := 0; i < len(s); i++ {
		c := s[i]
		if (c >= 'a' && c <= 'z') || (c >= 'A' && c <= 'Z') || (c >= '0' && c <= '9') || c == '.' || c == '-' || c == '_' {
			sb.WriteByte(c)
		} else {
			fmt.Fprintf(&sb, "%%%02X", c)
		}
	}
	return sb.String()
}

func init() {
	Register(&Prop{
		ID:    "C18",
		Rule:  "one execution = one (numeric schema, source representation, magnitude, with/without upper-bound test) case from the full product; every case is non-trivial (a coercion is attempted); distinct = distinct (schema, representation, coerce-issue?, #issues) signatures",
		Floor: 30,
		Bound: func(tier string) string {
			return fmt.Sprintf("full product: 5 schemas x %d magnitudes x every representation that can express them (int,int32,int64,float32,float64,decimal string,exponent string,JSON number,form string) + NaN/Inf + %d odd strings, x {no test, LT(100)} x placement of Go-native inputs {top level, only element of a typed slice of the input's own type, of []any, value of a typed map}", len(c18Magnitudes), len(c18Odd))
		},
		Assumptions: []string{
			"a coerce (or required) issue is always an acceptable answer; only silent results are compared with exact arithmetic",
			"in-range rounding to the nearest float64/float32 counts as the same number (weaker reading)",
			"a JSON number denotes the IEEE double that encoding/json decodes it to (integers beyond 2^53 in JSON text are compared after that decoding)",
		},
		Items: func(tier string) []Item {
			var inputs []c18Input
			for _, m := range c18Magnitudes {
				inputs = append(inputs, c18Inputs(m)...)
			}
			inputs = append(inputs, c18Specials()...)
			return []Item{
				{Name: "Int", MaxDevs: -1, Run: c18Run(c18Kind{"Int", 64, false}, func() *z.NumberSchema[int] { return z.Int() }, inputs)},
				{Name: "Int32", MaxDevs: -1, Run: c18Run(c18Kind{"Int32", 32, false}, func() *z.NumberSchema[int32] { return z.Int32() }, inputs)},
				{Name: "Int64", MaxDevs: -1, Run: c18Run(c18Kind{"Int64", 64, false}, func() *z.NumberSchema[int64] { return z.Int64() }, inputs)},
				{Name: "Float32", MaxDevs: -1, Run: c18Run(c18Kind{"Float32", 0, true}, func() *z.NumberSchema[float32] { return z.Float32() }, inputs)},
				{Name: "Float64", MaxDevs: -1, Run: c18Run(c18Kind{"Float64", 0, true}, func() *z.NumberSchema[float64] { return z.Float64() }, inputs)},
			}
		},
	})
}
