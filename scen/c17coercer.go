package scen

// C17 (continued): WithCoercer replaces coercion for its own schema — for every schema kind, for every
// representation of a present input (also one that already has the destination's type or kind), given at
// construction, applied to the schema afterwards, or through Ptr. One execution = one (kind, way of installing,
// input representation, placement): the installed coercer is called exactly once with the raw input, its result
// is what the destination holds, and a sibling schema of the same kind without the option is unaffected.

import (
	"fmt"
	"reflect"
	"time"

	z "github.com/Oudwins/zog"
	"zogverif/mc"
	"zogverif/zh"
)

func c17CoercerKindsScenario(x *mc.X) *mc.Outcome {
	zh.Reset()
	zh.Install(x, zh.PoolLIFO, zh.OrderSorted)
	kind := x.Choose(6, "kind")
	how := x.Choose(3, "installed") // 0 at construction, 1 applied to the built schema, 2 applied to Ptr(schema)
	t0 := time.Date(2020, 1, 1, 0, 0, 0, 0, time.UTC)
	markers := []any{"MARK", 4242, 42.5, true, t0, []any{"m1", "m2"}}
	inputs := [][]any{
		{"abc", 7, []any{"x"}},
		{9, "9", 9.0, []any{1}},
		{9.5, "9.5", 9},
		{false, "false", 0},
		{t0.Add(time.Hour), "2021-01-01T00:00:00Z", 12345},
		{[]any{"a", "b"}, []string{"a", "b"}, "a", []any{}},
	}
	in := inputs[kind][x.Choose(len(inputs[kind]), "input")]
	field := x.Bool("as field")
	// what the installed coercer returns: a marker value, or the zero value of the destination type (the node
	// is then Required: presence is decided on the input, the coercer's result is simply what the destination holds)
	zeroResult := x.Bool("coercer returns the zero value")
	if zeroResult {
		markers = []any{"", 0, 0.0, false, time.Time{}, []any{}}
	}
	calls := 0
	var seen any
	co := z.WithCoercer(func(d any) (any, error) { calls++; seen = d; return markers[kind], nil })
	mk := func(withCoercer bool) (z.ZogSchema, reflect.Type) {
		var opts []z.SchemaOption
		if withCoercer && how == 0 {
			opts = append(opts, co)
		}
		var s z.ZogSchema
		var t reflect.Type
		switch kind {
		case 0:
			q := z.String(opts...)
			if zeroResult {
				q.Required()
			}
			s, t = q, reflect.TypeOf("")
		case 1:
			q := z.Int(opts...)
			if zeroResult {
				q.Required()
			}
			s, t = q, reflect.TypeOf(0)
		case 2:
			q := z.Float64(opts...)
			if zeroResult {
				q.Required()
			}
			s, t = q, reflect.TypeOf(0.0)
		case 3:
			q := z.Bool(opts...)
			if zeroResult {
				q.Required()
			}
			s, t = q, reflect.TypeOf(false)
		case 4:
			q := z.Time(opts...)
			if zeroResult {
				q.Required()
			}
			s, t = q, reflect.TypeOf(time.Time{})
		default:
			q := z.Slice(z.String(), opts...)
			if zeroResult {
				q.Required()
			}
			s, t = q, reflect.TypeOf([]string(nil))
		}
		if withCoercer && how == 1 {
			co(s)
		}
		if how == 2 {
			p := z.Ptr(s)
			if withCoercer {
				co(p)
			}
			return p, reflect.PointerTo(t)
		}
		return s, t
	}
	own, ot := mk(true)
	plain, pt := mk(false)
	dt := reflect.StructOf([]reflect.StructField{{Name: "V", Type: ot}, {Name: "W", Type: pt}})
	d := reflect.New(dt)
	var issues []string
	pmsg := func() (msg string) {
		defer func() {
			if r := recover(); r != nil {
				msg = firstLine(fmt.Sprint(r))
			}
		}()
		var m z.ZogIssueMap
		if field {
			m = z.Struct(z.Schema{"v": own, "w": plain}).Parse(map[string]any{"v": in, "w": inputs[kind][0]}, d.Interface())
		} else {
			// top level: through a one-field struct for the schema under test only (the sibling is absent)
			m = z.Struct(z.Schema{"v": own}).Parse(map[string]any{"v": in}, d.Interface())
		}
		for _, k := range sortedKeys(m) {
			if k != "$first" {
				for _, is := range m[k] {
					issues = append(issues, k+"|"+is.Code)
				}
			}
		}
		return ""
	}()
	zh.Reset()
	got := d.Elem().Field(0)
	for got.Kind() == reflect.Pointer && !got.IsNil() {
		got = got.Elem()
	}
	var want any = markers[kind]
	if kind == 5 {
		want = []string{"m1", "m2"}
		if zeroResult {
			want = []string{}
		}
	}
	kinds := []string{"String", "Int", "Float64", "Bool", "Time", "Slice(String)"}
	out := &mc.Outcome{Traces: 1, Nontrivial: true, Sig: fmt.Sprintf("coercer|%d|%d|%T|%v|%v", kind, how, in, field, zeroResult)}
	out.Sample = map[string]any{"kind": kinds[kind], "zero_result": zeroResult, "installed": how, "input": fmt.Sprintf("%T(%v)", in, in), "field": field, "coercer_calls": calls}
	ok := pmsg == "" && calls == 1 && reflect.DeepEqual(seen, in) && len(issues) == 0 && got.IsValid() && got.Kind() != reflect.Pointer && reflect.DeepEqual(got.Interface(), want)
	if field && ok {
		// the sibling without the option was coerced by the stock coercer from its native input
		w := d.Elem().Field(1)
		for w.Kind() == reflect.Pointer && !w.IsNil() {
			w = w.Elem()
		}
		var wantW any = inputs[kind][0]
		if kind == 5 {
			wantW = []string{"a", "b"}
		}
		if !w.IsValid() || w.Kind() == reflect.Pointer || !reflect.DeepEqual(w.Interface(), wantW) {
			ok = false
		}
	}
	if !ok {
		x.Note("%s schema (Required and the coercer returns the zero value: %v), WithCoercer installed %d (0 at construction, 1 applied afterwards, 2 applied to Ptr(schema)), input %T(%v), as field next to a plain sibling=%v", kinds[kind], zeroResult, how, in, in, field)
		out.Viol = append(out.Viol, &mc.Violation{Key: fmt.Sprintf("C17:coercer-own-schema:%s", kinds[kind]), What: "the coercer installed with WithCoercer was not what coerced its own schema's present input (exactly once, raw input in, its result in the destination), or a sibling was affected", Expected: fmt.Sprintf("calls=1 seen=%v dest=%v no issues", in, want), Observed: fmt.Sprintf("panic=%q calls=%d seen=%v dest=%s issues=%v", pmsg, calls, seen, canonNoTypes(d.Elem()), issues)})
	}
	return out
}

// Test options are values the caller owns; a list of them may be longer than what one call is given
// (opts[:1] to one test, opts... to the next). "Options affect only the test they were passed to" — and passing
// them changes nothing in the caller's list. One execution = one pair of tests on one schema kind, the first given
// a prefix of the caller's list, the second the whole list; both behave like tests given fresh copies.
func c17OptionSliceScenario(x *mc.X) *mc.Outcome {
	zh.Reset()
	zh.Install(x, zh.PoolLIFO, zh.OrderSorted)
	first := x.Choose(4, "first test")   // TestFunc on String, TestFunc on Int, Test(z.TestFunc(...)) on String, Min on String
	prefix := x.Choose(3, "prefix length") // how many of the three options the first test is given
	mkOpts := func(shared bool) (a, b []z.TestOption) {
		m1, c2, p3 := z.Message("own message"), z.IssueCode("own_code"), z.IssuePath("own.path")
		if shared {
			all := make([]z.TestOption, 0, 4) // spare capacity behind the three options
			all = append(all, m1, c2, p3)
			return all[:prefix], all
		}
		return []z.TestOption{m1, c2, p3}[:prefix:prefix], []z.TestOption{m1, c2, p3}
	}
	run := func(shared bool) []string {
		a, b := mkOpts(shared)
		var out []string
		add := func(l z.ZogIssueList) {
			for _, is := range l {
				out = append(out, fmt.Sprintf("%s|%s|%s", is.Path, is.Code, is.Message))
			}
		}
		never := func(v any, c z.Ctx) bool { return false }
		switch first {
		case 0:
			s := z.String().TestFunc(never, a...).Min(3, b...)
			for _, in := range []string{"ab", "abcd"} {
				var d string
				add(s.Parse(in, &d))
				out = append(out, "--")
			}
		case 1:
			s := z.Int().TestFunc(never, a...).GT(10, b...)
			for _, in := range []int{5, 50} {
				var d int
				add(s.Parse(in, &d))
				out = append(out, "--")
			}
		case 2:
			s := z.String().Test(z.TestFunc("reusable", never, a...)).Not().Email(b...)
			for _, in := range []string{"a@b.co", "nope"} {
				var d string
				add(s.Parse(in, &d))
				out = append(out, "--")
			}
		default:
			s := z.String().Max(1, a...).Min(3, b...)
			for _, in := range []string{"ab", "abcd", "a"} {
				var d string
				add(s.Parse(in, &d))
				out = append(out, "--")
			}
		}
		return out
	}
	got, want := run(true), run(false)
	zh.Reset()
	out := &mc.Outcome{Traces: 2, Nontrivial: true, Sig: fmt.Sprintf("optslice|%d|%d", first, prefix)}
	out.Sample = map[string]any{"first_test": first, "prefix": prefix, "issues": want}
	if !eqStrings(got, want) {
		x.Note("caller's list of three options (Message, IssueCode, IssuePath) with spare capacity; the first test (%d: 0 String.TestFunc, 1 Int.TestFunc, 2 String.Test(z.TestFunc), 3 String.Max) is given the first %d, the second test the whole list", first, prefix)
		out.Viol = append(out.Viol, &mc.Violation{Key: fmt.Sprintf("C17:options-from-a-shared-list:%d", first), What: "tests given slices of one caller-owned option list do not behave like tests given fresh copies of the same options", Expected: fmt.Sprint(want), Observed: fmt.Sprint(got)})
	}
	return out
}
