package scen

// C11 (continued): "else the global formatter" holds at every public entry point. One execution = one schema
// type's own Parse or Validate method (String, Int, Float64, Bool, Time, Slice, Struct, Ptr, Custom, Preprocess)
// on a failing value, with the process-wide formatter replaced (a custom function; i18n with Spanish as the
// default): the issue's message is the installed formatter's, not the stock English one.

import (
	"fmt"
	"time"

	z "github.com/Oudwins/zog"
	"github.com/Oudwins/zog/conf"
	"github.com/Oudwins/zog/i18n"
	"github.com/Oudwins/zog/i18n/en"
	"github.com/Oudwins/zog/i18n/es"
	"github.com/Oudwins/zog/zconst"
	"zogverif/mc"
	"zogverif/zh"
)

func c11EntryPointsScenario(x *mc.X) *mc.Outcome {
	zh.Reset()
	zh.Install(x, zh.PoolLIFO, zh.OrderSorted)
	global := x.Choose(2, "global formatter") // 0 a custom function, 1 i18n with default language es
	validate := x.Bool("Validate")
	saved := conf.IssueFormatter
	defer func() { conf.IssueFormatter = saved }()
	if global == 0 {
		conf.IssueFormatter = func(e *z.ZogIssue, c z.Ctx) { e.SetMessage("GLOBAL:" + e.Dtype + ":" + e.Code) }
	} else {
		i18n.SetLanguagesErrsMap(map[string]zconst.LangMap{"en": en.Map, "es": es.Map}, "es")
	}
	t0 := time.Date(2020, 1, 1, 0, 0, 0, 0, time.UTC)
	flat := func(m z.ZogIssueMap) (l z.ZogIssueList) {
		for _, k := range sortedKeys(m) {
			if k != "$first" {
				l = append(l, m[k]...)
			}
		}
		return
	}
	type rec struct{ A string }
	entries := []struct {
		name string
		run  func() z.ZogIssueList
	}{
		{"String", func() z.ZogIssueList {
			d := "ab"
			if validate {
				return z.String().Min(5).Validate(&d)
			}
			return z.String().Min(5).Parse("ab", &d)
		}},
		{"Int", func() z.ZogIssueList {
			d := 3
			if validate {
				return z.Int().GT(5).Validate(&d)
			}
			return z.Int().GT(5).Parse(3, &d)
		}},
		{"Float64", func() z.ZogIssueList {
			d := 3.5
			if validate {
				return z.Float64().GT(5).Validate(&d)
			}
			return z.Float64().GT(5).Parse(3.5, &d)
		}},
		{"Bool", func() z.ZogIssueList {
			d := false
			if validate {
				return z.Bool().True().Required().Validate(&d)
			}
			return z.Bool().True().Parse(false, &d)
		}},
		{"Time", func() z.ZogIssueList {
			d := t0.Add(-time.Hour)
			if validate {
				return z.Time().After(t0).Validate(&d)
			}
			return z.Time().After(t0).Parse(t0.Add(-time.Hour), &d)
		}},
		{"Slice", func() z.ZogIssueList {
			d := []string{"a", "b", "c"}
			if validate {
				return flat(z.Slice(z.String()).Max(2).Validate(&d))
			}
			return flat(z.Slice(z.String()).Max(2).Parse([]any{"a", "b", "c"}, &d))
		}},
		{"Struct", func() z.ZogIssueList {
			d := rec{A: "ab"}
			s := z.Struct(z.Schema{"a": z.String().Min(5)})
			if validate {
				return flat(s.Validate(&d))
			}
			return flat(s.Parse(map[string]any{"a": "ab"}, &d))
		}},
		{"Ptr", func() z.ZogIssueList {
			v := 3
			d := &v
			s := z.Ptr(z.Int().GT(5))
			if validate {
				return flat(s.Validate(&d))
			}
			var p *int
			return flat(s.Parse(3, &p))
		}},
		{"Custom", func() z.ZogIssueList {
			d := "ab"
			s := z.CustomFunc(func(p *string, c z.Ctx) bool { return len(*p) >= 5 })
			if validate {
				return s.Validate(&d)
			}
			return s.Parse("ab", &d)
		}},
		{"Preprocess", func() z.ZogIssueList {
			if validate {
				d := "ab"
				return z.Preprocess(func(p *string, c z.Ctx) (string, error) { return *p, nil }, z.String().Min(5)).Validate(&d)
			}
			var d string
			return z.Preprocess(func(s string, c z.Ctx) (string, error) { return s, nil }, z.String().Min(5)).Parse("ab", &d)
		}},
	}
	e := entries[x.Choose(len(entries), "entry point")]
	var issues z.ZogIssueList
	pmsg := func() (msg string) {
		defer func() {
			if r := recover(); r != nil {
				msg = firstLine(fmt.Sprint(r))
			}
		}()
		issues = e.run()
		return ""
	}()
	zh.Reset()
	mode := map[bool]string{false: "Parse", true: "Validate"}[validate]
	out := &mc.Outcome{Traces: 1, Nontrivial: true, Sig: fmt.Sprintf("entry|%s|%s|%d", e.name, mode, global)}
	bad := ""
	if pmsg != "" || len(issues) == 0 {
		bad = fmt.Sprintf("panic=%q, %d issues", pmsg, len(issues))
	}
	for _, is := range issues {
		want := "GLOBAL:" + is.Dtype + ":" + is.Code
		if global == 1 {
			want = renderTemplate(langTemplate(es.Map, is.Dtype, is.Code), is.Params)
		}
		if is.Message != want {
			bad = fmt.Sprintf("message %q, the installed formatter gives %q", is.Message, want)
		}
	}
	out.Sample = map[string]any{"entry_point": e.name + "." + mode, "global": global, "issues": issueCodes(issues)}
	if bad != "" {
		x.Note("%s schema's own %s method; process-wide formatter %d (0 a custom function, 1 i18n with default language es)", e.name, mode, global)
		out.Viol = append(out.Viol, &mc.Violation{Key: "C11:entry-point-formatter:" + e.name + "." + mode, What: "an issue produced through this entry point is not worded by the installed process-wide formatter", Expected: "the installed formatter's message on every issue", Observed: bad})
	}
	return out
}
