package scen

// Preprocess is transparent: Parse through Preprocess(fn, S) is Parse through S of what fn returned.
//
// The wrapped schema must treat the function's output exactly as it treats that value supplied directly as
// input — same absence rule (only nil / blank text is absent in Parse; 0, false, an empty list are present),
// same tests, same defaults, same destination. One execution = one (output type and wrapped schema, modifier
// of the wrapped node, output value, placement); the call through Preprocess is compared with the call of a
// freshly built copy of the wrapped schema on the output (pointers unwrapped, as the library documents by
// accepting pointer outputs). Each property reports the classes of difference it speaks about.

import (
	"fmt"
	"reflect"
	"strings"

	z "github.com/Oudwins/zog"
	"zogverif/mc"
	"zogverif/zh"
)

type preRec struct {
	A int
	S string
}

type preWrapCase struct {
	name    string
	outputs []any                                    // what the function returns (looked up by input text)
	build   func(mod int) z.ZogSchema                // the wrapped schema, built fresh; mod: 0 plain, 1 Required/NotNil, 2 Default
	wrap    func(inner z.ZogSchema, outs []any) z.ZogSchema // Preprocess(fn, inner) with fn: "k<i>" -> outs[i]
	dtype   reflect.Type
}

// preBlankIdx: which output the functions return for a blank input text (set by the scenario).
var preBlankIdx int

func preIdx(s string) int {
	if strings.TrimSpace(s) == "" {
		return preBlankIdx // the function decides what blank text means, not the library
	}
	var i int
	fmt.Sscanf(s, "k%d", &i)
	return i
}

func preCases() []preWrapCase {
	i0, i5, in3 := 0, 5, -3
	e, one, neg := []int{}, []int{4}, []int{4, 0, -1}
	return []preWrapCase{
		{"string->int, Int.GT(0)", []any{0, 5, -3}, func(mod int) z.ZogSchema {
			s := z.Int().GT(0)
			switch mod {
			case 1:
				s.Required()
			case 2:
				s.Default(7)
			}
			return s
		}, func(inner z.ZogSchema, outs []any) z.ZogSchema {
			return z.Preprocess(func(d string, c z.Ctx) (int, error) { return outs[preIdx(d)].(int), nil }, inner)
		}, reflect.TypeOf(0)},
		{"string->*int, Ptr(Int.GT(0))", []any{&i0, &i5, &in3}, func(mod int) z.ZogSchema {
			in := z.Int().GT(0)
			if mod == 2 {
				in.Default(7)
			}
			s := z.Ptr(in)
			if mod == 1 {
				s.NotNil()
			}
			return s
		}, func(inner z.ZogSchema, outs []any) z.ZogSchema {
			return z.Preprocess(func(d string, c z.Ctx) (*int, error) { return outs[preIdx(d)].(*int), nil }, inner)
		}, reflect.TypeOf((*int)(nil))},
		{"string->string, String.Min(2)", []any{"", "  ", "a", "abc"}, func(mod int) z.ZogSchema {
			s := z.String().Min(2)
			switch mod {
			case 1:
				s.Required()
			case 2:
				s.Default("dflt")
			}
			return s
		}, func(inner z.ZogSchema, outs []any) z.ZogSchema {
			return z.Preprocess(func(d string, c z.Ctx) (string, error) { return outs[preIdx(d)].(string), nil }, inner)
		}, reflect.TypeOf("")},
		{"string->bool, Bool.True()", []any{false, true}, func(mod int) z.ZogSchema {
			s := z.Bool().True()
			switch mod {
			case 1:
				s.Required()
			case 2:
				s.Default(true)
			}
			return s
		}, func(inner z.ZogSchema, outs []any) z.ZogSchema {
			return z.Preprocess(func(d string, c z.Ctx) (bool, error) { return outs[preIdx(d)].(bool), nil }, inner)
		}, reflect.TypeOf(false)},
		{"string->[]int, Slice(Int.GT(0)).Min(1)", []any{[]int(nil), e, one, neg}, func(mod int) z.ZogSchema {
			s := z.Slice(z.Int().GT(0)).Min(1)
			switch mod {
			case 1:
				s.Required()
			case 2:
				s.Default([]int{9, 9})
			}
			return s
		}, func(inner z.ZogSchema, outs []any) z.ZogSchema {
			return z.Preprocess(func(d string, c z.Ctx) ([]int, error) { return outs[preIdx(d)].([]int), nil }, inner)
		}, reflect.TypeOf([]int(nil))},
		{"string->[]string, Slice(String.Min(2))", []any{[]string{"ab", " ", ""}, []string{"a"}, []string{"abc", "de"}}, func(mod int) z.ZogSchema {
			in := z.String().Min(2)
			switch mod {
			case 1:
				in.Required()
			case 2:
				in.Default("dflt")
			}
			return z.Slice(in)
		}, func(inner z.ZogSchema, outs []any) z.ZogSchema {
			return z.Preprocess(func(d string, c z.Ctx) ([]string, error) { return outs[preIdx(d)].([]string), nil }, inner)
		}, reflect.TypeOf([]string(nil))},
		{"string->*[]int, Ptr(Slice(Int).Min(1))", []any{&e, &one}, func(mod int) z.ZogSchema {
			s := z.Ptr(z.Slice(z.Int()).Min(1))
			if mod == 1 {
				s.NotNil()
			}
			return s
		}, func(inner z.ZogSchema, outs []any) z.ZogSchema {
			return z.Preprocess(func(d string, c z.Ctx) (*[]int, error) { return outs[preIdx(d)].(*[]int), nil }, inner)
		}, reflect.TypeOf((*[]int)(nil))},
		{"string->record, Struct{a: Int.GT(0), s: String.Min(2)}", []any{preRec{}, preRec{A: 5, S: "abc"}, preRec{A: 0, S: " "}, preRec{A: -3, S: "a"}}, func(mod int) z.ZogSchema {
			a, s := z.Int().GT(0), z.String().Min(2)
			switch mod {
			case 1:
				a.Required()
				s.Required()
			case 2:
				a.Default(7)
				s.Default("dflt")
			}
			return z.Struct(z.Schema{"a": a, "s": s})
		}, func(inner z.ZogSchema, outs []any) z.ZogSchema {
			return z.Preprocess(func(d string, c z.Ctx) (preRec, error) { return outs[preIdx(d)].(preRec), nil }, inner)
		}, reflect.TypeOf(preRec{})},
	}
}

func preUnwrap(v any) any {
	rv := reflect.ValueOf(v)
	for rv.Kind() == reflect.Pointer {
		rv = rv.Elem()
	}
	return rv.Interface()
}

// preRun parses data with schema s at the placement; returns issues ("key|code|message") and the rendered destination.
func preRun(s z.ZogSchema, data any, dt reflect.Type, place int) (iss []string, dest string, panicked string) {
	defer func() {
		if r := recover(); r != nil {
			panicked = firstLine(fmt.Sprint(r))
		}
	}()
	var m z.ZogIssueMap
	var d reflect.Value
	switch place {
	case 0: // field of a struct
		st := reflect.StructOf([]reflect.StructField{{Name: "V", Type: dt}, {Name: "W", Type: reflect.TypeOf(0)}})
		d = reflect.New(st)
		m = z.Struct(z.Schema{"v": s, "w": z.Int()}).Parse(map[string]any{"v": data, "w": 1}, d.Interface())
	case 1: // element of a slice
		d = reflect.New(reflect.SliceOf(dt))
		m = z.Slice(s).Parse([]any{data, data}, d.Interface())
	}
	for _, k := range sortedKeys(m) {
		if k == "$first" {
			continue
		}
		for _, is := range m[k] {
			iss = append(iss, k+"|"+is.Code+"|"+is.Message)
		}
	}
	return iss, canonNoTypes(d.Elem()), ""
}

func preprocScenario(prop string, accept map[string]bool) mc.Scenario {
	cases := preCases()
	return func(x *mc.X) *mc.Outcome {
		zh.Reset()
		zh.Install(x, zh.PoolLIFO, zh.OrderSorted)
		c := cases[x.Choose(len(cases), "wrapped schema")]
		mod := x.Choose(3, "modifier")
		oi := x.Choose(len(c.outputs), "output")
		place := x.Choose(2, "placement")
		out := c.outputs[oi]
		// the text handed to the function: a key naming the output, or blank text (which the function maps to the same output)
		raw := []string{fmt.Sprintf("k%d", oi), "", "  "}[x.Choose(3, "input text")]
		preBlankIdx = oi
		gotI, gotD, gotP := preRun(c.wrap(c.build(mod), c.outputs), raw, c.dtype, place)
		wantI, wantD, wantP := preRun(c.build(mod), preUnwrap(out), c.dtype, place)
		zh.Reset()
		o := &mc.Outcome{Traces: 2, Nontrivial: len(wantI) == 0, Sig: fmt.Sprintf("preproc|%s|%d|%d|%d|%v", c.name, mod, oi, place, wantI)}
		o.Sample = map[string]any{"schema": c.name, "modifier(0 plain,1 required,2 default)": mod, "output": canonNoTypes(reflect.ValueOf(out)), "placement(0 field,1 element)": place, "issues": wantI, "dest": wantD}
		class := ""
		switch {
		case gotP != wantP:
			class = "panic"
		case len(gotI) == 0 && len(wantI) > 0:
			class = "clean-despite-violation"
		case !eqStrings(gotI, wantI):
			class = "issues"
		case gotD != wantD:
			class = "destination"
		}
		if class != "" && accept[class] {
			x.Note("Preprocess(%s), wrapped node modifier %d (0 plain, 1 Required/NotNil, 2 Default), input text %q, the function returned %s, placement %d (0 struct field, 1 slice element)", c.name, mod, raw, canonNoTypes(reflect.ValueOf(out)), place)
			o.Viol = append(o.Viol, &mc.Violation{
				Key:      fmt.Sprintf("%s:preprocess-not-transparent:%s:%s", prop, class, strings.SplitN(c.name, ",", 2)[0]),
				What:     "Parse through Preprocess(fn, S) differs from Parse through S of the value fn returned",
				Expected: fmt.Sprintf("panic=%q issues=%v dest=%s", wantP, wantI, wantD),
				Observed: fmt.Sprintf("panic=%q issues=%v dest=%s", gotP, gotI, gotD),
			})
		}
		return o
	}
}

// Ptr(Preprocess(fn, S)): the pointer is decided on the raw input (present: allocate), everything below it on
// what fn returned — so the pointee must hold exactly what S leaves when it parses fn's output, with S's issues.
func preprocBehindPtrScenario(prop string, accept map[string]bool) mc.Scenario {
	cases := preCases()
	return func(x *mc.X) *mc.Outcome {
		zh.Reset()
		zh.Install(x, zh.PoolLIFO, zh.OrderSorted)
		var plain []preWrapCase
		for _, c := range cases {
			if c.dtype.Kind() != reflect.Pointer {
				plain = append(plain, c)
			}
		}
		c := plain[x.Choose(len(plain), "wrapped schema")]
		mod := x.Choose(3, "modifier")
		oi := x.Choose(len(c.outputs), "output")
		preBlankIdx = oi
		out := c.outputs[oi]
		run := func(s z.ZogSchema, data any, dt reflect.Type) (iss []string, dest string, pmsg string) {
			defer func() {
				if r := recover(); r != nil {
					pmsg = firstLine(fmt.Sprint(r))
				}
			}()
			st := reflect.StructOf([]reflect.StructField{{Name: "V", Type: dt}})
			d := reflect.New(st)
			m := z.Struct(z.Schema{"v": s}).Parse(map[string]any{"v": data}, d.Interface())
			for _, k := range sortedKeys(m) {
				if k != "$first" {
					for _, is := range m[k] {
						iss = append(iss, k+"|"+is.Code+"|"+is.Message)
					}
				}
			}
			v := d.Elem().Field(0)
			if v.Kind() == reflect.Pointer {
				if v.IsNil() {
					return iss, "<nil pointer>", ""
				}
				v = v.Elem()
			}
			return iss, canonNoTypes(v), ""
		}
		gotI, gotD, gotP := run(z.Ptr(c.wrap(c.build(mod), c.outputs)), fmt.Sprintf("k%d", oi), reflect.PointerTo(c.dtype))
		wantI, wantD, wantP := run(c.build(mod), out, c.dtype)
		zh.Reset()
		o := &mc.Outcome{Traces: 2, Nontrivial: len(wantI) == 0, Sig: fmt.Sprintf("preproc-ptr|%s|%d|%d|%v", c.name, mod, oi, wantI)}
		o.Sample = map[string]any{"schema": "Ptr(Preprocess(" + c.name + "))", "modifier": mod, "output": canonNoTypes(reflect.ValueOf(out)), "issues": wantI, "pointee": wantD}
		class := ""
		switch {
		case gotP != wantP:
			class = "panic"
		case len(gotI) == 0 && len(wantI) > 0:
			class = "clean-despite-violation"
		case !eqStrings(gotI, wantI):
			class = "issues"
		case gotD != wantD:
			class = "destination"
		}
		if class != "" && accept[class] {
			x.Note("Ptr(Preprocess(%s)) as a field, wrapped node modifier %d (0 plain, 1 Required, 2 Default), raw input k%d (present), the function returned %s", c.name, mod, oi, canonNoTypes(reflect.ValueOf(out)))
			o.Viol = append(o.Viol, &mc.Violation{
				Key:      fmt.Sprintf("%s:preprocess-behind-pointer:%s:%s", prop, class, strings.SplitN(c.name, ",", 2)[0]),
				What:     "below Ptr(Preprocess(fn, S)) the pointee is not what S leaves when it parses the value fn returned",
				Expected: fmt.Sprintf("panic=%q issues=%v pointee=%s", wantP, wantI, wantD),
				Observed: fmt.Sprintf("panic=%q issues=%v pointee=%s", gotP, gotI, gotD),
			})
		}
		return o
	}
}

func preprocPtrItem(prop string, accept ...string) Item {
	acc := map[string]bool{}
	for _, a := range accept {
		acc[a] = true
	}
	return Item{Name: "preprocess-behind-pointer", MaxDevs: -1, Run: preprocBehindPtrScenario(prop, acc)}
}

func preprocItem(prop string, accept ...string) Item {
	acc := map[string]bool{}
	for _, a := range accept {
		acc[a] = true
	}
	return Item{Name: "preprocess-transparent", MaxDevs: -1, Run: preprocScenario(prop, acc)}
}

const preprocRule = "Preprocess is transparent: for 8 (output type, wrapped schema) pairs (int, *int, string, bool, []int, []string, *[]int, record) × wrapped-node modifier {plain, Required/NotNil, Default} × every listed output (zero values, blank text, empty and nil lists, failing and passing values) × input text {a key, empty, blanks} × placement {struct field, slice element}, Parse through Preprocess(fn, S) is compared with Parse of a fresh S on the value fn returned (issues with messages, destination)"
