package scen

// C05 (continued): the table node × {absent, valid, failing} × mode under every sequence of up to four builder
// calls from {Required(), Optional(), Catch(a), Catch(b), Default(d)} — a schema is what its LAST calls say,
// whatever was called before them. Reference: required = last of Required/Optional, catch = last Catch,
// default = last Default; absent ⇒ default, else untouched if optional, else catch value without an issue if
// catching, else one `required` issue; failing ⇒ catch value without an issue if catching, else one issue.

import (
	"fmt"
	"time"

	z "github.com/Oudwins/zog"
	"zogverif/mc"
	"zogverif/zh"
)

type c05Built struct {
	parse    func(in any) (z.ZogIssueList, string)
	validate func(class int) (z.ZogIssueList, string) // 0 zero value, 1 valid, 2 failing
	in       [3]any                                   // absent, valid, failing
	show     [5]string                                // zero, valid, a, b, d
}

var c05T0 = time.Date(2024, 3, 4, 5, 6, 7, 0, time.UTC)

func c05Build(kind int, ops []int) c05Built {
	switch kind {
	case 0:
		s := z.String().Min(3)
		for _, o := range ops {
			switch o {
			case 0:
				s.Required()
			case 1:
				s.Optional()
			case 2:
				s.Catch("catchA")
			case 3:
				s.Catch("catchB")
			case 4:
				s.Default("deflt")
			}
		}
		vals := [3]string{"", "valid", "x"}
		return c05Built{
			parse:    func(in any) (z.ZogIssueList, string) { var d string; l := s.Parse(in, &d); return l, fmt.Sprintf("%q", d) },
			validate: func(c int) (z.ZogIssueList, string) { d := vals[c]; l := s.Validate(&d); return l, fmt.Sprintf("%q", d) },
			in:       [3]any{nil, "valid", "x"},
			show:     [5]string{`""`, `"valid"`, `"catchA"`, `"catchB"`, `"deflt"`},
		}
	case 1:
		s := z.Int().GT(5)
		for _, o := range ops {
			switch o {
			case 0:
				s.Required()
			case 1:
				s.Optional()
			case 2:
				s.Catch(100)
			case 3:
				s.Catch(200)
			case 4:
				s.Default(50)
			}
		}
		vals := [3]int{0, 10, 1}
		return c05Built{
			parse:    func(in any) (z.ZogIssueList, string) { var d int; l := s.Parse(in, &d); return l, fmt.Sprint(d) },
			validate: func(c int) (z.ZogIssueList, string) { d := vals[c]; l := s.Validate(&d); return l, fmt.Sprint(d) },
			in:       [3]any{nil, 10, 1},
			show:     [5]string{"0", "10", "100", "200", "50"},
		}
	case 2:
		s := z.Bool().True()
		for _, o := range ops {
			switch o {
			case 0:
				s.Required()
			case 1:
				s.Optional()
			case 2:
				s.Catch(true)
			case 3:
				s.Catch(true)
			case 4:
				s.Default(true)
			}
		}
		// a bool has one failing value and it is the zero value: only Parse can present it
		vals := [3]bool{false, true, false}
		return c05Built{
			parse:    func(in any) (z.ZogIssueList, string) { var d bool; l := s.Parse(in, &d); return l, fmt.Sprint(d) },
			validate: func(c int) (z.ZogIssueList, string) { d := vals[c]; l := s.Validate(&d); return l, fmt.Sprint(d) },
			in:       [3]any{nil, true, false},
			show:     [5]string{"false", "true", "true", "true", "true"},
		}
	default:
		a, b, d0, ok, bad := c05T0.Add(time.Hour), c05T0.Add(2*time.Hour), c05T0.Add(3*time.Hour), c05T0.Add(4*time.Hour), c05T0.Add(-time.Hour)
		s := z.Time().After(c05T0)
		for _, o := range ops {
			switch o {
			case 0:
				s.Required()
			case 1:
				s.Optional()
			case 2:
				s.Catch(a)
			case 3:
				s.Catch(b)
			case 4:
				s.Default(d0)
			}
		}
		vals := [3]time.Time{{}, ok, bad}
		f := func(t time.Time) string { return t.UTC().Format(time.RFC3339) }
		return c05Built{
			parse:    func(in any) (z.ZogIssueList, string) { var d time.Time; l := s.Parse(in, &d); return l, f(d) },
			validate: func(c int) (z.ZogIssueList, string) { d := vals[c]; l := s.Validate(&d); return l, f(d) },
			in:       [3]any{nil, ok, bad},
			show:     [5]string{f(time.Time{}), f(ok), f(a), f(b), f(d0)},
		}
	}
}

func c05BuilderSequenceScenario(x *mc.X) *mc.Outcome {
	zh.Reset()
	zh.Install(x, zh.PoolLIFO, zh.OrderSorted)
	kind := x.Choose(4, "kind") // String.Min, Int.GT, Bool.True, Time.After
	n := x.Choose(5, "calls")
	ops := make([]int, n)
	names := []string{"Required()", "Optional()", "Catch(a)", "Catch(b)", "Default(d)"}
	desc := []string{"String().Min(3)", "Int().GT(5)", "Bool().True()", "Time().After(t0)"}[kind]
	for i := range ops {
		ops[i] = x.Choose(5, "call")
		desc += "." + names[ops[i]]
	}
	mode := x.Choose(2, "mode")
	class := x.Choose(3, "input") // absent, valid, failing
	out := &mc.Outcome{Traces: 1, Nontrivial: n > 0, Sig: fmt.Sprintf("builders|%d|%v|%d|%d", kind, ops, mode, class)}
	if kind == 2 && class == 2 && mode == 1 {
		out.Sig = "n/a"
		return out
	}
	required, catch, def := false, 0, false // catch: 0 none, 2 a, 3 b
	for _, o := range ops {
		switch o {
		case 0:
			required = true
		case 1:
			required = false
		case 2, 3:
			catch = o
		case 4:
			def = true
		}
	}
	b := c05Build(kind, ops)
	var issues z.ZogIssueList
	var dest string
	if mode == 0 {
		issues, dest = b.parse(b.in[class])
	} else {
		issues, dest = b.validate(class)
	}
	zh.Reset()
	var codes []string
	for _, is := range issues {
		codes = append(codes, is.Code)
	}
	wantIssue, wantDest := "", ""
	switch class {
	case 0:
		switch {
		case def:
			wantDest = b.show[4]
		case !required:
			wantDest = b.show[0]
		case catch != 0:
			wantDest = b.show[catch]
		default:
			wantIssue = "required"
		}
	case 1:
		wantDest = b.show[1]
	default:
		if catch != 0 {
			wantDest = b.show[catch]
		} else {
			wantIssue = []string{"min", "gt", "eq", "after"}[kind]
		}
	}
	out.Sample = map[string]any{"schema": desc, "mode": mode, "input": []string{"absent", "valid", "failing"}[class], "issues": codes, "dest": dest}
	bad := ""
	if wantIssue != "" {
		if len(codes) != 1 || codes[0] != wantIssue {
			bad = fmt.Sprintf("expected exactly one %s issue, got %v (destination %s)", wantIssue, codes, dest)
		}
	} else if len(codes) != 0 {
		bad = fmt.Sprintf("expected no issue and destination %s, got %v", wantDest, codes)
	} else if dest != wantDest {
		bad = fmt.Sprintf("expected destination %s, got %s", wantDest, dest)
	}
	if bad != "" {
		x.Note("schema %s; %s of an %s value", desc, []string{"Parse", "Validate"}[mode], []string{"absent", "valid", "failing"}[class])
		out.Viol = append(out.Viol, &mc.Violation{Key: fmt.Sprintf("C05:builder-sequence:%s:%s", []string{"String", "Int", "Bool", "Time"}[kind], []string{"absent", "valid", "failing"}[class]), What: "a schema built by a sequence of Required / Optional / Catch / Default calls does not behave as its last calls say", Expected: "see note", Observed: bad})
	}
	return out
}
