package scen

// C05 — Catch replaces any failure of its own node, and only of its own node.
// Core space restricted to cases that contain at least one catching
// primitive. Oracles: (a) own node — no issue from the catcher; its
// destination is the catch value iff one of {missing required, coercion
// failure, failed test} happened, else the parsed value (taken from the
// reference model, node-local); (b) non-interference, differential — the
// identical case with every catching node replaced by the same node without
// Catch gives identical issues at all other nodes and identical values at all
// other destinations.

import (
	"fmt"
	"reflect"
	"strings"

	z "github.com/Oudwins/zog"
	"zogverif/mc"
	"zogverif/zh"
)

type catcherPos struct {
	n    *Node
	path string
}

// maskCatchers walks two destinations in parallel and returns canonical
// renderings with the catching nodes' own leaves masked, plus the leaves.
func collectCatchers(n *Node, v reflect.Value, path string, out *[]string, leaves *[]string) {
	switch n.Kind {
	case KPtr:
		if v.IsNil() {
			*out = append(*out, path+"=nilptr")
			return
		}
		collectCatchers(n.Elem, v.Elem(), path, out, leaves)
	case KStruct:
		for _, f := range n.Fields {
			collectCatchers(f.N, v.FieldByName(goFieldName(f.Key)), joinPath(path, f.Key), out, leaves)
		}
		*out = append(*out, path+".ZZextra="+v.FieldByName("ZZextra").String())
	case KSlice:
		if v.IsNil() {
			*out = append(*out, path+"=nilslice")
			return
		}
		*out = append(*out, fmt.Sprintf("%s.len=%d", path, v.Len()))
		for i := 0; i < v.Len(); i++ {
			collectCatchers(n.Elem, v.Index(i), fmt.Sprintf("%s[%d]", path, i), out, leaves)
		}
	default:
		if n.Catch {
			*leaves = append(*leaves, path+"="+canonValue(v))
			return
		}
		*out = append(*out, path+"="+canonValue(v))
	}
}

func hasCatch(n *Node) bool {
	if n.Catch {
		return true
	}
	if n.Elem != nil && hasCatch(n.Elem) {
		return true
	}
	for _, f := range n.Fields {
		if hasCatch(f.N) {
			return true
		}
	}
	return false
}

// catcherIssue: would issue `is` be one the catching node itself produces?
func catcherOwnIssue(n *Node, is Iss, catchPaths map[string]*Node) bool {
	// a test declared with IssuePath files its issue under that path, wherever the node is
	for _, c := range catchPaths {
		for _, t := range c.Tests {
			if t.Path != "" && t.Path == is.Path && t.Code == is.Code && is.Dtype == c.DType() {
				return true
			}
		}
	}
	c, ok := catchPaths[is.Path]
	if !ok {
		return false
	}
	if is.Dtype != c.DType() {
		return false
	}
	if is.Code == "required" || is.Code == "coerce" {
		return true
	}
	for _, t := range c.Tests {
		if t.Code == is.Code {
			return true
		}
	}
	return false
}

// catcherPaths lists the issue paths of catching primitives for the given input shape (walks the spec destination).
func catcherPaths(n *Node, v reflect.Value, path string, m map[string]*Node) {
	switch n.Kind {
	case KPtr:
		// the catcher may not have been reached (nil pointer): its path is still the pointer's path
		if v.IsNil() {
			walkStaticCatch(n.Elem, path, m)
			return
		}
		catcherPaths(n.Elem, v.Elem(), path, m)
	case KStruct:
		for _, f := range n.Fields {
			catcherPaths(f.N, v.FieldByName(goFieldName(f.Key)), joinPath(path, f.Key), m)
		}
	case KSlice:
		for i := 0; i < v.Len(); i++ {
			catcherPaths(n.Elem, v.Index(i), fmt.Sprintf("%s[%d]", path, i), m)
		}
		// boxing/other lengths in the real run: also register generic indices 0..3
		for i := v.Len(); i < 4; i++ {
			walkStaticCatch(n.Elem, fmt.Sprintf("%s[%d]", path, i), m)
		}
	default:
		if n.Catch {
			m[path] = n
		}
	}
}

func walkStaticCatch(n *Node, path string, m map[string]*Node) {
	switch n.Kind {
	case KPtr:
		walkStaticCatch(n.Elem, path, m)
	case KStruct:
		for _, f := range n.Fields {
			walkStaticCatch(f.N, joinPath(path, f.Key), m)
		}
	case KSlice:
		for i := 0; i < 4; i++ {
			walkStaticCatch(n.Elem, fmt.Sprintf("%s[%d]", path, i), m)
		}
	default:
		if n.Catch {
			m[path] = n
		}
	}
}

func c05Scenario(a *Alpha, ns NamedSkel, focus []string, elems int) mc.Scenario {
	fm := focusMap(focus)
	return func(x *mc.X) *mc.Outcome {
		zh.Reset()
		c := BuildCase(x, a, ns.S, fm, elems)
		for u := range fm {
			if !c.Touched[u] {
				return &mc.Outcome{Sig: "redundant"}
			}
		}
		if !hasCatch(c.Root) {
			return &mc.Outcome{Sig: "nocatch"}
		}
		var pre reflect.Value
		if a.Mode == 1 {
			pre = deepCopy(c.Dest.Elem())
		}
		withCatch := runRealOn(x, c, c.Root, pre, zh.OrderFree, false)
		// replay the same visit orders for the twin and the model
		twinRoot := cloneNode(c.Root, func(n *Node) {
			if n.Catch {
				n.NoCatch = true
			}
		})
		twin := runRealWithOrders(x, c, twinRoot, pre, withCatch.Orders)
		// reference model (node-local semantics) for the own-node oracle
		st := &specState{orders: withCatch.Orders}
		md := reflect.New(c.Root.GoType())
		if a.Mode == 0 {
			fillSentinel(md.Elem(), c.Root)
			st.specParse(c.Root, c.Data, md.Elem(), "")
		} else {
			md.Elem().Set(deepCopy(pre))
			st.specValidate(c.Root, md.Elem(), "")
		}
		out := &mc.Outcome{Traces: 2, Nontrivial: true}
		out.Sig = fmt.Sprintf("%s|%d|%v|%v", ns.Name, a.Mode, withCatch.Obs.IssueStrings(), twin.Obs.IssueStrings())
		out.LazySample = func() any {
			return map[string]any{"case": c.Describe(), "orders": withCatch.Orders, "issues_with_catch": withCatch.Obs.IssueStrings(), "issues_without_catch": twin.Obs.IssueStrings(), "dest_with_catch": canonValue(withCatch.Dest.Elem())}
		}
		note := func() {
			d := c.Describe()
			x.Note("schema: %v", d["schema"])
			x.Note("mode: %v input/value: %v%v", d["mode"], d["input"], d["value"])
			x.Note("visit orders: %v", withCatch.Orders)
			x.Note("dest with catch:    %s", canonValue(withCatch.Dest.Elem()))
			x.Note("dest without catch: %s", canonValue(twin.Dest.Elem()))
		}
		mode := []string{"Parse", "Validate"}[a.Mode]
		if withCatch.Obs.Panic != "" || twin.Obs.Panic != "" {
			note()
			out.Viol = append(out.Viol, &mc.Violation{Key: "C05:panic:" + mode, What: "panic", Observed: withCatch.Obs.Panic + " / " + twin.Obs.Panic})
			return out
		}
		cp := map[string]*Node{}
		catcherPaths(c.Root, md.Elem(), "", cp)
		// (a) own node: no issue produced by a catching node
		for _, is := range withCatch.Obs.Issues {
			if catcherOwnIssue(c.Root, is, cp) {
				note()
				out.Viol = append(out.Viol, &mc.Violation{Key: "C05:own-issue:" + mode + ":" + is.Code, What: "a node with Catch contributed an issue", Expected: "no issue at " + is.Path, Observed: is.String()})
				return out
			}
		}
		// (b) differential: issues elsewhere identical
		var twinOther []string
		for _, is := range twin.Obs.Issues {
			if !catcherOwnIssue(c.Root, is, cp) {
				twinOther = append(twinOther, is.String())
			}
		}
		wi := withCatch.Obs.IssueStrings()
		if !eqStrings(wi, twinOther) {
			note()
			out.Viol = append(out.Viol, &mc.Violation{
				Key:      "C05:interference-issues:" + mode + ":" + diffKey(twinOther, wi),
				What:     "issues of non-catching nodes differ from the same schema without Catch",
				Expected: fmt.Sprintf("without catch (own issues of catchers removed): %v", twinOther),
				Observed: fmt.Sprintf("with catch: %v", wi),
			})
			return out
		}
		// destinations of all other nodes identical
		var o1, o2, l1, l2, ls []string
		collectCatchers(c.Root, withCatch.Dest.Elem(), "", &o1, &l1)
		collectCatchers(c.Root, twin.Dest.Elem(), "", &o2, &l2)
		if !eqStrings(o1, o2) {
			note()
			out.Viol = append(out.Viol, &mc.Violation{Key: "C05:interference-dest:" + mode, What: "values of other nodes differ from the same schema without Catch", Expected: strings.Join(o2, " "), Observed: strings.Join(o1, " ")})
			return out
		}
		// (a) own value == model's node-local prediction (catch value iff own failure, else parsed value)
		var os []string
		collectCatchers(c.Root, md.Elem(), "", &os, &ls)
		if eqStrings(o1, os) && !eqStrings(l1, ls) {
			note()
			out.Viol = append(out.Viol, &mc.Violation{Key: "C05:own-value:" + mode, What: "a catching node's destination is not (catch value iff its own failure, else its parsed value)", Expected: strings.Join(ls, " "), Observed: strings.Join(l1, " ")})
		}
		return out
	}
}

func init() {
	Register(&Prop{
		ID:    "C05",
		Rule:  "one execution = one core case containing ≥1 catching primitive, run twice on the real code (as is; every Catch removed) plus the node-local reference model; string nodes carry the built-in tests Max(5) and the negated Not().Contains(\"2\"); the built-in test t1 of every node is declared with IssuePath(alias@node); the custom test of Int nodes is a free-form test function that reports two issues when it fails; enumeration as C02 (≤k focus units over full alphabets incl. catcher inputs {ok, missing+required, uncoercible, fails t1, fails both}, all visit orders, both modes); every counted case is non-trivial; distinct = distinct (skeleton, mode, issues with catch, issues without catch)",
		Floor: 50,
		Bound: func(tier string) string {
			k, e := coreK(tier)
			return thoroughPrefix(tier) + fmt.Sprintf("k=%d focus units, %d elements per slice, all visit orders, both modes; catchers at struct fields, slice elements, behind pointers, in struct-in-slice", k, e)
		},
		Assumptions: []string{
			"own-node value oracle uses the reference model's node-local rule; the non-interference oracle is purely differential (no model)",
			"PostTransforms are not part of this space",
		},
		Items: func(tier string) []Item {
			items := coreItems(tier, c05Scenario, func(a *Alpha) { a.NegStr = true; a.PathT1 = true; a.DoubleT2 = true }, []int{0, 1}, 0)
			// every primitive catching by default: two deviating nodes among catching neighbours within k=2
			for _, it := range coreItemsFiltered(tier, c05Scenario, func(a *Alpha) { a.Lite = true; a.CatchAll = true }, []int{0, 1}, 2, nil) {
				it.Name = "catching-neighbours/" + it.Name
				items = append(items, it)
			}
			// "its destination is exactly v": the catch value of THIS node, also after a value copy of it was given another
			items = append(items, Item{Name: "value-copies-of-catching-schemas", MaxDevs: -1, Run: reKey("C05", "C17", c17ValueCopyScenario)})
			items = append(items, Item{Name: "builder-call-sequences", MaxDevs: -1, Run: c05BuilderSequenceScenario})
			return append(items, Item{Name: "catching-node-behind-preprocess", MaxDevs: -1, Run: c05PreprocessScenario})
		},
	})
}

// ---------------------------------------------------------------------------
// A catching primitive behind Preprocess, as slice elements and as struct fields: the failure of the
// Preprocess function itself (an error, a wrongly typed input) is not the wrapped node's failure and is
// reported at the element's path, whatever a neighbouring element's catching node did before.

type c05Pre struct {
	A int
	B int
}

func c05PreprocessScenario(x *mc.X) *mc.Outcome {
	zh.Reset()
	zh.Install(x, zh.PoolLIFO, zh.OrderFree)
	mode := x.Choose(2, "container") // 0 slice of 2..3 elements, 1 struct with two such fields
	mk := func() z.ZogSchema {
		return z.Preprocess(func(s string, ctx z.Ctx) (int, error) {
			if s == "err" {
				return 0, fmt.Errorf("preprocess refused %q", s)
			}
			return len(s), nil
		}, z.Int().GT(2).Catch(-7))
	}
	// element classes: ok (len 3), caught (len 1 fails GT(2) -> catch), preprocess error, wrongly typed input
	classes := []struct {
		name  string
		in    any
		issue string // "" none
		val   int
	}{{"ok", "abc", "", 3}, {"caught", "a", "", -7}, {"preprocess-error", "err", "custom", 0}, {"wrong-type", 12, "coerce", 0}}
	n := 2
	if mode == 0 {
		n = 2 + x.Choose(2, "len")
	}
	var idx []int
	for i := 0; i < n; i++ {
		idx = append(idx, x.Choose(len(classes), fmt.Sprintf("el%d", i)))
	}
	var issues z.ZogIssueMap
	var got []int
	var keys []string
	if mode == 0 {
		var in []any
		for i, c := range idx {
			in = append(in, classes[c].in)
			keys = append(keys, fmt.Sprintf("[%d]", i))
		}
		var d []int
		issues = z.Slice(mk()).Parse(in, &d)
		got = d
	} else {
		keys = []string{"a", "b"}
		var d c05Pre
		issues = z.Struct(z.Schema{"a": mk(), "b": mk()}).Parse(map[string]any{"a": classes[idx[0]].in, "b": classes[idx[1]].in}, &d)
		got = []int{d.A, d.B}
	}
	zh.Reset()
	out := &mc.Outcome{Traces: 1, Nontrivial: true}
	var want, have []string
	for i, c := range idx {
		if classes[c].issue != "" {
			want = append(want, keys[i])
		}
		if len(issues[keys[i]]) > 0 {
			have = append(have, keys[i])
		}
	}
	out.Sig = fmt.Sprintf("pre|%d|%v", mode, idx)
	out.Sample = map[string]any{"container": mode, "elements": idx, "issue_keys": have, "dest": fmt.Sprint(got)}
	if !eqStrings(want, have) {
		x.Note("container %d (0 slice, 1 struct) of Preprocess(string->int, Int.GT(2).Catch(-7)); element classes %v (0 ok, 1 caught by the wrapped node, 2 preprocess error, 3 wrongly typed input)", mode, idx)
		out.Viol = append(out.Viol, &mc.Violation{Key: fmt.Sprintf("C05:preprocess-neighbour:%d", mode), What: "the failure of a Preprocess function next to a catching node is not reported exactly where it happened", Expected: fmt.Sprint(want), Observed: fmt.Sprint(have)})
		return out
	}
	// what was reported for a neighbour is that neighbour's issue, whole: filed under its path, saying so itself,
	// with the code and a message of its own failure — whatever a catching node swallowed before or after it
	for i := range idx {
		for _, is := range issues[keys[i]] {
			if is.Path != keys[i] || is.Code == "gt" || is.Message == "" {
				x.Note("container %d (0 slice, 1 struct) of Preprocess(string->int, Int.GT(2).Catch(-7)); element classes %v (0 ok, 1 caught by the wrapped node, 2 preprocess error, 3 wrongly typed input)", mode, idx)
				out.Viol = append(out.Viol, &mc.Violation{Key: fmt.Sprintf("C05:preprocess-neighbour-issue:%d", mode), What: "the issue reported for a node next to a catching node is not that node's own issue any more", Expected: fmt.Sprintf("path=%s, a code other than the swallowed test's (gt), a message", keys[i]), Observed: fmt.Sprintf("path=%s code=%s message=%q", is.Path, is.Code, is.Message)})
				return out
			}
		}
	}
	for i, c := range idx {
		if classes[c].issue == "" && i < len(got) && got[i] != classes[c].val {
			x.Note("element classes %v", idx)
			out.Viol = append(out.Viol, &mc.Violation{Key: fmt.Sprintf("C05:preprocess-value:%d", mode), What: "a catching node behind Preprocess holds neither its parsed value nor its catch value", Expected: fmt.Sprint(classes[c].val), Observed: fmt.Sprint(got[i])})
			return out
		}
	}
	return out
}
