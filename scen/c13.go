package scen

// C13 — Parse and Validate agree on fully populated values.
// Core skeletons × fully populated values × ≤k focus units × all visit
// orders. Relational oracle: Validate(&copy(v)) and Parse(toMap(v), &fresh)
// report the same (path, code, type, message) issues and leave equal values.

import (
	"fmt"
	"reflect"
	"sort"
	"strings"

	z "github.com/Oudwins/zog"
	"github.com/Oudwins/zog/conf"
	"zogverif/mc"
	"zogverif/zh"
)

// toMap renders a destination value as the input it would be decoded from.
func toMap(n *Node, v reflect.Value) any {
	switch n.Kind {
	case KPtr:
		if v.IsNil() {
			return nil
		}
		return toMap(n.Elem, v.Elem())
	case KStruct:
		m := map[string]any{}
		for _, f := range n.Fields {
			m[fieldKeyFor(f, "")] = toMap(f.N, v.FieldByName(goFieldName(f.Key)))
		}
		return m
	case KSlice:
		l := make([]any, v.Len())
		for i := range l {
			l[i] = toMap(n.Elem, v.Index(i))
		}
		return l
	}
	return v.Interface()
}

func issueTuples(o *Obs) []string {
	out := make([]string, len(o.Issues))
	for i, is := range o.Issues {
		out[i] = fmt.Sprintf("%s|%s|%s|%s", is.Path, is.Code, is.Dtype, is.Msg)
	}
	sort.Strings(out)
	return out
}

func c13Scenario(a *Alpha, ns NamedSkel, focus []string, elems int) mc.Scenario {
	fm := focusMap(focus)
	return func(x *mc.X) *mc.Outcome {
		zh.Reset()
		c := BuildCase(x, a, ns.S, fm, elems)
		for u := range fm {
			if !c.Touched[u] {
				return &mc.Outcome{Sig: "redundant"}
			}
		}
		value := deepCopy(c.Dest.Elem())
		data := toMap(c.Root, value)
		// Validate in place
		rv := runRealOn(x, c, c.Root, value, zh.OrderFree, false)
		// Parse the same value presented as a map into a fresh destination, same visit orders
		pc := *c
		pa := *a
		pa.Mode = 0
		pc.Alpha = &pa
		pc.Data = data
		rr := &realRun{Rec: &Recorder{Light: true}}
		{
			zh.Reset()
			schema := BuildZog(c.Root, rr.Rec)
			rr.Dest = reflect.New(c.Root.GoType())
			zh.Install(x, zh.PoolLIFO, zh.OrderSorted)
			installReplayOrders(rv.Orders)
			rr.Obs = RunParse(schema, data, rr.Dest)
			zh.Reset()
		}
		out := &mc.Outcome{Traces: 2, Nontrivial: c.NDev > 0}
		vi, pi := issueTuples(rv.Obs), issueTuples(rr.Obs)
		out.Sig = fmt.Sprintf("%s|%v", ns.Name, vi)
		out.LazySample = func() any {
			return map[string]any{"schema": c.Root.Describe(), "value": canonValue(value), "validate_issues": vi, "parse_issues": pi}
		}
		note := func() {
			x.Note("schema: %s", c.Root.Describe())
			x.Note("value: %s", canonValue(value))
			x.Note("as map: %#v", data)
			x.Note("visit orders: %v", rv.Orders)
		}
		if rv.Obs.Panic != "" || rr.Obs.Panic != "" {
			note()
			out.Viol = append(out.Viol, &mc.Violation{Key: "C13:panic", What: "panic", Expected: rv.Obs.Panic, Observed: rr.Obs.Panic})
			return out
		}
		if !eqStrings(vi, pi) {
			note()
			out.Viol = append(out.Viol, &mc.Violation{Key: "C13:issues:" + diffKey4(vi, pi), What: "Validate(&v) and Parse(toMap(v)) report different issues (path|code|type|message)", Expected: fmt.Sprintf("validate: %v", vi), Observed: fmt.Sprintf("parse: %v", pi)})
			return out
		}
		// resulting values: masked ZZextra (Parse starts from a zero destination, never writes it)
		vv, pv := stripExtra(canonPlain(rv.Dest.Elem())), stripExtra(canonPlain(rr.Dest.Elem()))
		if vv != pv {
			note()
			out.Viol = append(out.Viol, &mc.Violation{Key: "C13:values", What: "Validate and Parse leave different values", Expected: "validate: " + vv, Observed: "parse: " + pv})
		}
		return out
	}
}

// canonPlain renders values only: Parse allocates every pointee afresh, so sharing between pointers of the validated
// value is not something the two modes can agree on; the values they leave are.
func canonPlain(v reflect.Value) string {
	c := zh.NewCanon(false)
	c.NoIdentity = true
	c.Val(v, 0)
	return c.String()
}

func diffKey4(a, b []string) string {
	// reuse diffKey's shape on (path|code|type|msg) by mapping to key|path|code|type
	conv := func(l []string) []string {
		out := make([]string, len(l))
		for i, s := range l {
			out[i] = "k|" + s
		}
		return out
	}
	return diffKey(conv(a), conv(b))
}

func stripExtra(s string) string {
	for _, v := range []string{`ZZextra:"§extra"`, `ZZextra:""`} {
		for {
			i := indexOf(s, v)
			if i < 0 {
				break
			}
			s = s[:i] + "ZZextra:_" + s[i+len(v):]
		}
	}
	return s
}

func indexOf(s, sub string) int {
	for i := 0; i+len(sub) <= len(s); i++ {
		if s[i:i+len(sub)] == sub {
			return i
		}
	}
	return -1
}

func init() {
	Register(&Prop{
		ID:    "C13",
		Rule:  "one execution = one fully populated value (every leaf ∈ {passing, failing t1, failing t2, failing both}, never zero or blank; slices of 1–2 elements; pointers set; slices of pointers also with every element being the same pointer) of a core skeleton with ≤k focus units ranging over configuration × value (and, with any one unit deviating, every case again under an installed process-wide formatter; and any one unit over configuration × PostTransforms {none, one that changes the value, one that changes the value followed by a plain one, one returning a *ZogIssue with / without a path of its own, one returning a *ZogIssue followed by one that changes the value} × value), run twice on the real code: Validate in place, and Parse of the value rendered as the map it would be decoded from into a fresh destination, under every field visit order; non-trivial = deviating case; distinct = distinct (skeleton, issue set)",
		Floor: 50,
		Bound: func(tier string) string {
			k, e := coreK(tier)
			return thoroughPrefix(tier) + fmt.Sprintf("k=%d focus units, %d skeletons, %d elements per slice, all visit orders", k, len(coreSkeletons(tier)), e)
		},
		Assumptions: []string{"toMap keys follow zog tag → schema key; leaves are presented with their native Go types", "schemas without Preprocess; PostTransforms return no plain errors (C12 covers those), but may return a *ZogIssue"},
		Items: func(tier string) []Item {
			items := coreItems(tier, c13Scenario, func(a *Alpha) { a.Full = true }, []int{1}, 0)
			// value-changing PostTransforms: any one unit over configuration × PostTransforms × value
			for _, it := range coreItems(tier, c13Scenario, func(a *Alpha) { a.Full = true; a.MutPost = true }, []int{1}, 1) {
				it.Name = "with-posts/" + it.Name
				items = append(items, it)
			}
			// a process-wide formatter installed (conf.IssueFormatter): both modes must use it, at every entry point
			for _, it := range coreItems(tier, c13Scenario, func(a *Alpha) { a.Full = true }, []int{1}, 1) {
				it.Name = "global-formatter/" + it.Name
				inner := it.Run
				it.Run = func(x *mc.X) *mc.Outcome {
					saved := conf.IssueFormatter
					conf.IssueFormatter = func(e *z.ZogIssue, c z.Ctx) { e.SetMessage("installed formatter: " + e.Code + " " + e.Dtype) }
					defer func() { conf.IssueFormatter = saved }()
					return inner(x)
				}
				items = append(items, it)
			}
			// value-changing PostTransforms next to record-level tests that fail (every struct-level test failing by default)
			for _, it := range coreItemsFiltered(tier, c13Scenario, func(a *Alpha) { a.Full = true; a.MutPost = true; a.StructFails = true }, []int{1}, 1, func(ns NamedSkel) bool { return hasStruct(ns.S) }) {
				it.Name = "with-posts-and-failing-record-tests/" + it.Name
				items = append(items, it)
			}
			items = append(items, Item{Name: "custom-schemas", MaxDevs: -1, Run: c13CustomScenario})
			// tagged destinations: the record skeleton with uniform zog tags (plain, and with a comma in the value)
			for _, cfg := range []int{1, 6} {
				fields := recordFields(false)
				sk := recordSkel(FEMap, uniformTags(fields, cfg), false)
				ns := NamedSkel{Name: fmt.Sprintf("record/tags%d", cfg), S: sk}
				units := skelUnits(sk, 2)
				for _, fs := range focusSets(units, 1) {
					a := &Alpha{Tier: tier, Mode: 1, Full: true, MutPost: true}
					items = append(items, Item{Name: fmt.Sprintf("%s/{%s}", ns.Name, strings.Join(fs, ",")), Run: c13Scenario(a, ns, fs, 2), MaxDevs: -1})
				}
			}
			return items
		},
	})
}
