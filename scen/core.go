package scen

// Core framework (DESIGN §3.3): abstract schemas, their translation into real
// zog schemas through the public builder API, reflect-built destination types,
// input construction, recording callbacks and the observation of one call.

import (
	"fmt"
	"reflect"
	"sort"
	"strings"
	"time"

	z "github.com/Oudwins/zog"
	p "github.com/Oudwins/zog/internals"
	"zogverif/mc"
)

type Kind int

const (
	KStr Kind = iota
	KInt
	KFloat
	KBool
	KTime
	KSlice
	KStruct
	KPtr
)

func (k Kind) String() string {
	return [...]string{"Str", "Int", "Float", "Bool", "Time", "Slice", "Struct", "Ptr"}[k]
}

func (k Kind) Prim() bool { return k <= KTime }

func (k Kind) ZogType() string {
	return [...]string{"string", "number", "number", "bool", "time", "slice", "struct", "ptr"}[k]
}

var (
	tValid   = time.Date(2025, 6, 1, 0, 0, 0, 0, time.UTC)
	tAfter   = time.Date(2020, 1, 1, 0, 0, 0, 0, time.UTC)
	tFail1   = time.Date(2019, 6, 1, 0, 0, 0, 0, time.UTC)
	tFail2   = time.Date(2025, 12, 1, 0, 0, 0, 0, time.UTC)
	tFailB   = time.Date(2019, 12, 1, 0, 0, 0, 0, time.UTC)
	tDefault = time.Date(2025, 12, 31, 22, 0, 0, 0, time.FixedZone("def-zone", -2*3600)) // 2026-01-01T00:00:00Z, carried in a zone of its own
	tDefBad  = time.Date(2018, 1, 1, 0, 0, 0, 0, time.UTC)
	tCatch   = time.Date(2001, 2, 3, 5, 5, 6, 0, time.FixedZone("catch-zone", 3600)) // 2001-02-03T04:05:06Z, carried in a zone of its own
	tSentinl = time.Date(1999, 9, 9, 9, 9, 9, 0, time.UTC)
)

// value classes of a primitive
const (
	VValid = iota
	VFail1
	VFail2
	VFailB
	VDefault
	VDefBad
	VCatch
	VSentinel
)

func primValue(k Kind, class int) any {
	switch k {
	case KStr:
		return []string{"ok", "toolong", "ok2", "toolong2", "dflt", "dflttoolong", "CAUGHT", "§"}[class]
	case KInt:
		return []int{4, 104, 5, 105, 44, 144, -7, -999}[class]
	case KFloat:
		return []float64{4.5, 104.5, 7.5, 107.5, 44.5, 144.5, -7.5, -999.5}[class]
	case KBool:
		return []bool{true, false, true, false, true, false, false, false}[class]
	case KTime:
		return []time.Time{tValid, tFail1, tFail2, tFailB, tDefault, tDefBad, tCatch, tSentinl}[class]
	}
	panic("primValue")
}

func primType(k Kind) reflect.Type {
	switch k {
	case KStr:
		return reflect.TypeOf("")
	case KInt:
		return reflect.TypeOf(int(0))
	case KFloat:
		return reflect.TypeOf(float64(0))
	case KBool:
		return reflect.TypeOf(false)
	case KTime:
		return reflect.TypeOf(time.Time{})
	}
	panic("primType")
}

// TestSpec is one test declared on a node. Pred is the zog-free predicate.
type TestSpec struct {
	Code    string
	Path    string // IssuePath option: the test's issue is filed under this path instead of the node's
	Double  bool   // a hand-written test function that reports TWO issues (same code) when its predicate fails
	ViaOld  bool   // a hand-written test function that files its issue through the deprecated Ctx.NewError(path, issue)
	ViaCopy bool   // declared as a copy of a reusable z.Test value whose code (and path) are edited on the copy, then attached with schema.Test
	Builtin bool
	Fails   bool // struct tests: constant verdict
	Pred    func(v reflect.Value) bool
}

// t1: built-in test of the kind; t2: custom TestFunc with IssueCode("t2")
func kindTests(k Kind) (t1, t2 TestSpec) {
	switch k {
	case KStr:
		return TestSpec{Code: "max", Builtin: true, Pred: func(v reflect.Value) bool { return len(v.String()) <= 5 }},
			TestSpec{Code: "t2", Pred: func(v reflect.Value) bool { return !strings.Contains(v.String(), "2") }}
	case KInt:
		return TestSpec{Code: "lt", Builtin: true, Pred: func(v reflect.Value) bool { return v.Int() < 100 }},
			TestSpec{Code: "t2", Pred: func(v reflect.Value) bool { return v.Int()%2 == 0 }}
	case KFloat:
		return TestSpec{Code: "lt", Builtin: true, Pred: func(v reflect.Value) bool { return v.Float() < 100 }},
			TestSpec{Code: "t2", Pred: func(v reflect.Value) bool { f := v.Float(); return f != 7.5 && f != 107.5 }}
	case KBool:
		return TestSpec{Code: "eq", Builtin: true, Pred: func(v reflect.Value) bool { return v.Bool() }},
			TestSpec{Code: "t2", Pred: func(v reflect.Value) bool { return true }}
	case KTime:
		return TestSpec{Code: "after", Builtin: true, Pred: func(v reflect.Value) bool { return v.Interface().(time.Time).After(tAfter) }},
			TestSpec{Code: "t2", Pred: func(v reflect.Value) bool { return v.Interface().(time.Time).Month() != time.December }}
	case KSlice:
		return TestSpec{Code: "min", Builtin: true, Pred: func(v reflect.Value) bool { return v.Len() >= 2 }},
			TestSpec{Code: "t2", Pred: func(v reflect.Value) bool { return v.Len() != 1 }}
	}
	panic("kindTests")
}

type Field struct {
	Key string // schema key (lower-case first letter); Go field name is the key with upper-case first letter
	Tag string // struct tag text
	N   *Node
}

// Node is an abstract schema node.
type Node struct {
	Kind     Kind
	Req      bool // Required / NotNil
	DefClass int  // 0 none, 1 passing default, 2 failing default
	Catch    bool
	Tests    []TestSpec
	NPosts   int
	PostErr  int // 0: none; i>0: post number i returns an error (1-based); negative: returns *ZogIssue
	PostWrap bool // the error returned by post number PostErr is not a ZogIssue but wraps one (%w)
	PostMut  bool // the first post changes the value it is given
	PostMut2 bool // the second post changes the value it is given
	PostNoPath bool // the *ZogIssue returned by post number -PostErr carries no path of its own
	Elem     *Node
	Fields   []*Field
	Pos      string // position label in the skeleton
	NoCatch  bool   // twin of a catching node (C05 differential)
	typ      reflect.Type
}

func (n *Node) DType() string {
	if n.Kind == KPtr {
		return n.Elem.DType()
	}
	return n.Kind.ZogType()
}

func (n *Node) Describe() string {
	var sb strings.Builder
	sb.WriteString(n.Kind.String())
	if n.Kind == KSlice || n.Kind == KPtr {
		sb.WriteString("(" + n.Elem.Describe() + ")")
	}
	if n.Kind == KStruct {
		sb.WriteString("{")
		for i, f := range n.Fields {
			if i > 0 {
				sb.WriteString(", ")
			}
			sb.WriteString(f.Key)
			if f.Tag != "" {
				sb.WriteString("`" + f.Tag + "`")
			}
			sb.WriteString(": " + f.N.Describe())
		}
		sb.WriteString("}")
	}
	if n.Req {
		if n.Kind == KPtr {
			sb.WriteString(".NotNil()")
		} else {
			sb.WriteString(".Required()")
		}
	}
	switch n.DefClass {
	case 1:
		sb.WriteString(".Default(ok)")
	case 2:
		sb.WriteString(".Default(failing)")
	case 3:
		sb.WriteString(".Default(zero value / holding a zero item)")
	case 4:
		sb.WriteString(".Default(empty list)")
	}
	if n.Catch {
		sb.WriteString(".Catch(c)")
	}
	for _, t := range n.Tests {
		if t.Builtin && t.Path != "" {
			sb.WriteString("." + t.Code + "(IssuePath(" + t.Path + "))")
		} else if t.Builtin {
			sb.WriteString("." + t.Code + "()")
		} else if t.Double {
			sb.WriteString(".Test(" + t.Code + ", reports two issues)")
		} else if t.ViaOld {
			sb.WriteString(".Test(" + t.Code + ", filed with ctx.NewError)")
		} else if n.Kind == KStruct {
			sb.WriteString(fmt.Sprintf(".TestFunc(%s,fails=%v)", t.Code, t.Fails))
		} else {
			sb.WriteString(".TestFunc(" + t.Code + ")")
		}
	}
	for i := 0; i < n.NPosts; i++ {
		if n.PostErr == i+1 && n.PostWrap {
			sb.WriteString(".PostTransform(err wrapping a zogissue)")
		} else if (n.PostMut && i == 0) || (n.PostMut2 && i == 1) {
			sb.WriteString(".PostTransform(changes the value)")
		} else if n.PostErr == i+1 {
			sb.WriteString(".PostTransform(err)")
		} else if n.PostErr == -(i+1) && n.PostNoPath {
			sb.WriteString(".PostTransform(zogissue without a path)")
		} else if n.PostErr == -(i + 1) {
			sb.WriteString(".PostTransform(zogissue)")
		} else {
			sb.WriteString(".PostTransform(ok)")
		}
	}
	return sb.String()
}

// GoType is the destination type of the node.
func (n *Node) GoType() reflect.Type {
	if n.typ == nil {
		n.typ = n.goType()
	}
	return n.typ
}

func (n *Node) goType() reflect.Type {
	switch n.Kind {
	case KSlice:
		return reflect.SliceOf(n.Elem.GoType())
	case KPtr:
		return reflect.PointerTo(n.Elem.GoType())
	case KStruct:
		var fs []reflect.StructField
		for _, f := range n.Fields {
			fs = append(fs, reflect.StructField{Name: goFieldName(f.Key), Type: f.N.GoType(), Tag: reflect.StructTag(f.Tag)})
		}
		// a field the schema does not name: must never be written
		fs = append(fs, reflect.StructField{Name: "ZZextra", Type: reflect.TypeOf(""), Tag: `zog:"zzextra"`})
		return reflect.StructOf(fs)
	}
	return primType(n.Kind)
}

// goFieldName: the exported Go field a schema key names (the library capitalises an ASCII first letter; a key that
// starts with a non-ASCII upper-case letter already is the field name).
func goFieldName(key string) string {
	if key[0] >= 'a' && key[0] <= 'z' {
		return strings.ToUpper(key[:1]) + key[1:]
	}
	return key
}

func (n *Node) defaultValue() reflect.Value {
	if n.DefClass == 0 {
		return reflect.Value{}
	}
	if n.Kind.Prim() {
		if n.DefClass == 3 {
			return reflect.Zero(primType(n.Kind)) // a default that is the Go zero value (0, false, "", the zero time) is still a default
		}
		c := VDefault
		if n.DefClass == 2 {
			c = VDefBad
		}
		return reflect.ValueOf(primValue(n.Kind, c))
	}
	if n.Kind == KSlice {
		if n.DefClass == 4 {
			return reflect.MakeSlice(n.GoType(), 0, 0)
		}
		// passing default: 2 valid elements; failing default: 1 element (fails min and t2)
		cnt := 2
		if n.DefClass == 2 {
			cnt = 1
		}
		s := reflect.MakeSlice(n.GoType(), cnt, cnt)
		for i := 0; i < cnt; i++ {
			fillValid(s.Index(i), n.Elem, VDefault)
		}
		if n.DefClass == 3 && n.Elem.Kind.Prim() && n.Elem.Kind != KStr {
			// second item: the Go zero value, which Parse treats as present (0, false, zero time)
			s.Index(1).Set(reflect.Zero(s.Index(1).Type()))
		}
		return s
	}
	return reflect.Value{}
}

// fillValid stores a valid value of the node's type (used for slice defaults and Validate inputs).
func fillValid(v reflect.Value, n *Node, class int) {
	switch n.Kind {
	case KSlice:
		s := reflect.MakeSlice(n.GoType(), 2, 2)
		fillValid(s.Index(0), n.Elem, class)
		fillValid(s.Index(1), n.Elem, class)
		v.Set(s)
	case KPtr:
		p := reflect.New(n.Elem.GoType())
		fillValid(p.Elem(), n.Elem, class)
		v.Set(p)
	case KStruct:
		for _, f := range n.Fields {
			fillValid(v.FieldByName(goFieldName(f.Key)), f.N, class)
		}
	default:
		v.Set(reflect.ValueOf(primValue(n.Kind, class)))
	}
}

// PreallocPtrs: pre-filled destinations hold non-nil pointers to sentinel-filled pointees (a reused / partially
// updated destination). Parse then writes into the existing pointee; what it does not name stays as it was.
var PreallocPtrs bool

// fillSentinel pre-fills a destination so that "untouched" is observable.
func fillSentinel(v reflect.Value, n *Node) {
	switch n.Kind {
	case KSlice:
		s := reflect.MakeSlice(n.GoType(), 1, 1)
		fillSentinel(s.Index(0), n.Elem)
		v.Set(s)
	case KPtr:
		// nil stays nil — unless the family under way hands Parse a destination whose pointers already point somewhere
		if PreallocPtrs {
			p := reflect.New(v.Type().Elem())
			fillSentinel(p.Elem(), n.Elem)
			v.Set(p)
		}
	case KStruct:
		for _, f := range n.Fields {
			fillSentinel(v.FieldByName(goFieldName(f.Key)), f.N)
		}
		v.FieldByName("ZZextra").SetString("§extra")
	default:
		v.Set(reflect.ValueOf(primValue(n.Kind, VSentinel)))
	}
}

// ---------------------------------------------------------------------------
// recording

type Event struct {
	Addr  uintptr // raw pointer argument (never part of an observation)
	AType reflect.Type
	Who   string // "<pos>.test.<code>" | "<pos>.post<i>"
	Arg   string // canonical rendering of the (dereferenced) argument
	IsPtr bool   // argument was a pointer
	Same  bool   // argument pointer == address of the destination node (filled by the runner when it can tell)
	Nil   bool   // argument was nil / nil pointer
	Ctx   string // values of ctx.Get for the probe keys
}

type Recorder struct {
	Light   bool // only count invocations
	Count   map[string]int
	Events  []Event
	CtxKeys []string
	OnCall  func() // scheduler yield (E4)
}

func (r *Recorder) rec(who string, arg any, ctx z.Ctx) {
	if r.Light {
		if r.Count == nil {
			r.Count = map[string]int{}
		}
		r.Count[who]++
		if r.OnCall != nil {
			r.OnCall()
		}
		return
	}
	e := Event{Who: who}
	rv := reflect.ValueOf(arg)
	if arg == nil {
		e.Nil = true
		e.Arg = "nil"
	} else if rv.Kind() == reflect.Pointer {
		e.IsPtr = true
		e.AType = rv.Type()
		if !rv.IsNil() {
			e.Addr = rv.Pointer()
		}
		if rv.IsNil() {
			e.Nil = true
			e.Arg = "nilptr"
		} else {
			e.Arg = canonValue(rv.Elem())
		}
	} else {
		e.Arg = canonValue(rv)
	}
	if ctx != nil && len(r.CtxKeys) > 0 {
		var parts []string
		for _, k := range r.CtxKeys {
			parts = append(parts, fmt.Sprintf("%s=%v", k, ctx.Get(k)))
		}
		e.Ctx = strings.Join(parts, ",")
	}
	r.Events = append(r.Events, e)
	if r.OnCall != nil {
		r.OnCall()
	}
}

func (r *Recorder) Strings() []string {
	out := make([]string, len(r.Events))
	for i, e := range r.Events {
		out[i] = fmt.Sprintf("%s(arg=%s ptr=%v nil=%v ctx=%s)", e.Who, e.Arg, e.IsPtr, e.Nil, e.Ctx)
	}
	return out
}

// ---------------------------------------------------------------------------
// building the real zog schema through the public API

// mutateValue changes the value behind a PostTransform's pointer argument (never to a zero value).
func mutateValue(ptr any) {
	switch p := ptr.(type) {
	case *string:
		*p = strings.ToUpper(*p) + "!"
	case *int:
		*p = *p*2 + 1
	case *float64:
		*p = *p + 0.5
	case *bool:
		*p = !*p
	case *time.Time:
		*p = p.Add(time.Hour)
	default:
		v := reflect.ValueOf(ptr)
		if v.Kind() == reflect.Pointer && !v.IsNil() && v.Elem().Kind() == reflect.Slice {
			s := v.Elem()
			for i, j := 0, s.Len()-1; i < j; i, j = i+1, j-1 {
				a, b := s.Index(i).Interface(), s.Index(j).Interface()
				s.Index(i).Set(reflect.ValueOf(b))
				s.Index(j).Set(reflect.ValueOf(a))
			}
		}
	}
}

// doubleTest: a test function in the documented free form (it reports through ctx.AddIssue itself), which names
// two reasons when the value is wrong.
func doubleTest(fn z.BoolTFunc, t TestSpec) z.Test {
	return z.Test{IssueCode: t.Code, Func: func(val any, ctx z.Ctx) {
		if !fn(val, ctx) {
			ctx.AddIssue(ctx.Issue().SetCode(t.Code).SetMessage("first reason"))
			// the second one wraps a Go error, as issues built from a failed lookup or parse do
			ctx.AddIssue(ctx.Issue().SetCode(t.Code).SetMessage("second reason").SetError(fmt.Errorf("underlying cause")))
		}
	}}
}

// oldIfaceTest: a hand-written test that files its issue through the deprecated, still exported Ctx.NewError.
func oldIfaceTest(fn z.BoolTFunc, t TestSpec) z.Test {
	return z.Test{IssueCode: t.Code, Func: func(val any, ctx z.Ctx) {
		if !fn(val, ctx) {
			is := ctx.Issue().SetCode(t.Code).SetMessage("filed through the old interface")
			pb := p.PathBuilder{is.Path}
			ctx.NewError(&pb, is)
		}
	}}
}

func specialTest(fn z.BoolTFunc, t TestSpec) (z.Test, bool) {
	switch {
	case t.Double:
		return doubleTest(fn, t), true
	case t.ViaOld:
		return oldIfaceTest(fn, t), true
	case t.ViaCopy:
		return copiedTest(fn, t), true
	}
	return z.Test{}, false
}

// copiedTest: a reusable test built once under a generic code, copied, the copy specialised for this use.
func copiedTest(fn z.BoolTFunc, t TestSpec) z.Test {
	reusable := z.TestFunc("reusable_test_generic_code", fn)
	q := reusable
	q.IssueCode = t.Code
	if t.Path != "" {
		q.IssuePath = t.Path
	}
	return q
}

func pathOpts(t TestSpec) []z.TestOption {
	if t.Path == "" {
		return nil
	}
	return []z.TestOption{z.IssuePath(t.Path)}
}

type errPost struct{ who string }

func (e errPost) Error() string { return "post-error:" + e.who }

// buildLate, when set, collects every node's configuration calls (Required, Default, Catch, tests, PostTransforms,
// NotNil) instead of making them at once: BuildZogLate makes them after the whole schema tree has been composed.
var buildLate *[]func()

// BuildZogLate builds the same schema as BuildZog, but configures every node only after it has been handed to its
// parent's constructor (z.Slice(child), z.Ptr(child), z.Struct{...}): builder methods act on the schema value, so
// the order of composing and configuring must not matter.
func BuildZogLate(n *Node, r *Recorder) z.ZogSchema {
	var q []func()
	buildLate = &q
	s := BuildZog(n, r)
	buildLate = nil
	for _, f := range q {
		f()
	}
	return s
}

// BuildDefFirst makes every node that has both call Default(...) before Required() (set by the "default-then-required" item families).
var BuildDefFirst bool

// BuildLateMode makes every top-level BuildZog a BuildZogLate (set by the "late-config" item families).
var BuildLateMode bool

func BuildZog(n *Node, r *Recorder) z.ZogSchema {
	if BuildLateMode && buildLate == nil {
		return BuildZogLate(n, r)
	}
	cfg := func(f func()) {
		if buildLate != nil {
			*buildLate = append(*buildLate, f)
		} else {
			f()
		}
	}
	who := func(s string) string { return n.Pos + "." + s }
	mkTest := func(t TestSpec, deref bool) (z.BoolTFunc, z.TestOption) {
		_ = deref
		return func(val any, ctx z.Ctx) bool {
			r.rec(who("test."+t.Code), val, ctx)
			if n.Kind == KStruct {
				return !t.Fails
			}
			rv := reflect.ValueOf(val)
			if val == nil {
				return false
			}
			if rv.Kind() == reflect.Pointer {
				if rv.IsNil() {
					return false
				}
				rv = rv.Elem()
			}
			return t.Pred(rv)
		}, z.IssueCode(t.Code)
	}
	mkPost := func(i int) z.PostTransform {
		return func(ptr any, ctx z.Ctx) error {
			r.rec(who(fmt.Sprintf("post%d", i+1)), ptr, ctx)
			if (n.PostMut && i == 0) || (n.PostMut2 && i == 1) {
				mutateValue(ptr)
			}
			if n.PostErr == i+1 {
				if n.PostWrap {
					return fmt.Errorf("%s: %w", who(fmt.Sprintf("post%d", i+1)), &z.ZogIssue{Code: "inner_issue", Path: "inner.path", Message: "issue of a nested execution"})
				}
				return errPost{who(fmt.Sprintf("post%d", i+1))}
			}
			if n.PostErr == -(i + 1) {
				if n.PostNoPath {
					return &z.ZogIssue{Code: "post_issue", Message: "from post"}
				}
				return &z.ZogIssue{Code: "post_issue", Path: "custom.path", Message: "from post"}
			}
			return nil
		}
	}
	switch n.Kind {
	case KStr:
		s := z.String()
		cfg(func() {
		if n.Req && !BuildDefFirst {
			s.Required()
		}
		if n.DefClass > 0 {
			s.Default(n.defaultValue().Interface().(string))
		}
		if n.Req && BuildDefFirst {
			s.Required()
		}
		if n.Catch && !n.NoCatch {
			s.Catch(primValue(KStr, VCatch).(string))
		}
		for _, t := range n.Tests {
			if t.Builtin && t.Code == "not_contained" {
				s.Not().Contains("2", pathOpts(t)...)
			} else if t.Builtin {
				s.Max(5, pathOpts(t)...)
			} else {
				fn, opt := mkTest(t, true)
				if q, ok := specialTest(fn, t); ok {
					s.Test(q)
				} else {
					s.TestFunc(fn, append([]z.TestOption{opt}, pathOpts(t)...)...)
				}
			}
		}
		for i := 0; i < n.NPosts; i++ {
			s.PostTransform(mkPost(i))
		}
		})
		return s
	case KInt:
		s := z.Int()
		cfg(func() {
		if n.Req && !BuildDefFirst {
			s.Required()
		}
		if n.DefClass > 0 {
			s.Default(n.defaultValue().Interface().(int))
		}
		if n.Req && BuildDefFirst {
			s.Required()
		}
		if n.Catch && !n.NoCatch {
			s.Catch(primValue(KInt, VCatch).(int))
		}
		for _, t := range n.Tests {
			if t.Builtin {
				s.LT(100, pathOpts(t)...)
			} else {
				fn, opt := mkTest(t, true)
				if q, ok := specialTest(fn, t); ok {
					s.Test(q)
				} else {
					s.TestFunc(fn, append([]z.TestOption{opt}, pathOpts(t)...)...)
				}
			}
		}
		for i := 0; i < n.NPosts; i++ {
			s.PostTransform(mkPost(i))
		}
		})
		return s
	case KFloat:
		s := z.Float64()
		cfg(func() {
		if n.Req && !BuildDefFirst {
			s.Required()
		}
		if n.DefClass > 0 {
			s.Default(n.defaultValue().Interface().(float64))
		}
		if n.Req && BuildDefFirst {
			s.Required()
		}
		if n.Catch && !n.NoCatch {
			s.Catch(primValue(KFloat, VCatch).(float64))
		}
		for _, t := range n.Tests {
			if t.Builtin {
				s.LT(100, pathOpts(t)...)
			} else {
				fn, opt := mkTest(t, true)
				if q, ok := specialTest(fn, t); ok {
					s.Test(q)
				} else {
					s.TestFunc(fn, append([]z.TestOption{opt}, pathOpts(t)...)...)
				}
			}
		}
		for i := 0; i < n.NPosts; i++ {
			s.PostTransform(mkPost(i))
		}
		})
		return s
	case KBool:
		s := z.Bool()
		cfg(func() {
		if n.Req && !BuildDefFirst {
			s.Required()
		}
		if n.DefClass > 0 {
			s.Default(n.defaultValue().Interface().(bool))
		}
		if n.Req && BuildDefFirst {
			s.Required()
		}
		if n.Catch && !n.NoCatch {
			s.Catch(primValue(KBool, VCatch).(bool))
		}
		for _, t := range n.Tests {
			if t.Builtin {
				s.True()
			} else {
				fn, opt := mkTest(t, true)
				if q, ok := specialTest(fn, t); ok {
					s.Test(q)
				} else {
					s.TestFunc(fn, append([]z.TestOption{opt}, pathOpts(t)...)...)
				}
			}
		}
		for i := 0; i < n.NPosts; i++ {
			s.PostTransform(mkPost(i))
		}
		})
		return s
	case KTime:
		s := z.Time()
		cfg(func() {
		if n.Req && !BuildDefFirst {
			s.Required()
		}
		if n.DefClass > 0 {
			s.Default(n.defaultValue().Interface().(time.Time))
		}
		if n.Req && BuildDefFirst {
			s.Required()
		}
		if n.Catch && !n.NoCatch {
			s.Catch(tCatch)
		}
		for _, t := range n.Tests {
			if t.Builtin {
				s.After(tAfter, pathOpts(t)...)
			} else {
				fn, opt := mkTest(t, true)
				if q, ok := specialTest(fn, t); ok {
					s.Test(q)
				} else {
					s.TestFunc(fn, append([]z.TestOption{opt}, pathOpts(t)...)...)
				}
			}
		}
		for i := 0; i < n.NPosts; i++ {
			s.PostTransform(mkPost(i))
		}
		})
		return s
	case KSlice:
		s := z.Slice(BuildZog(n.Elem, r))
		cfg(func() {
		if n.Req && !BuildDefFirst {
			s.Required()
		}
		if n.DefClass > 0 {
			s.Default(n.defaultValue().Interface())
		}
		if n.Req && BuildDefFirst {
			s.Required()
		}
		for _, t := range n.Tests {
			if t.Builtin {
				s.Min(2, pathOpts(t)...)
			} else {
				fn, opt := mkTest(t, false)
				if q, ok := specialTest(fn, t); ok {
					s.Test(q)
				} else {
					s.TestFunc(fn, append([]z.TestOption{opt}, pathOpts(t)...)...)
				}
			}
		}
		for i := 0; i < n.NPosts; i++ {
			s.PostTransform(mkPost(i))
		}
		})
		return s
	case KPtr:
		s := z.Ptr(BuildZog(n.Elem, r))
		cfg(func() {
		if n.Req {
			s.NotNil()
		}
		})
		return s
	case KStruct:
		sc := z.Schema{}
		for _, f := range n.Fields {
			sc[f.Key] = BuildZog(f.N, r)
		}
		s := z.Struct(sc)
		cfg(func() {
		for _, t := range n.Tests {
			fn, opt := mkTest(t, false)
			if t.Double {
				s.Test(doubleTest(fn, t))
			} else if t.ViaCopy {
				s.Test(copiedTest(fn, t))
			} else {
				s.TestFunc(fn, append([]z.TestOption{opt}, pathOpts(t)...)...)
			}
		}
		for i := 0; i < n.NPosts; i++ {
			s.PostTransform(mkPost(i))
		}
		})
		return s
	}
	panic("BuildZog")
}

// ---------------------------------------------------------------------------
// observation of one real call

type Iss struct {
	Key   string // map key (or "" for list results)
	Path  string
	Code  string
	Dtype string
	Msg   string
}

func (i Iss) String() string { return fmt.Sprintf("%s|%s|%s|%s", i.Key, i.Path, i.Code, i.Dtype) }

type Obs struct {
	Panic     string
	Nil       bool  // result was nil
	Issues    []Iss // every entry except $first, sorted
	First     *Iss
	FirstSame bool // $first is (pointer-)identical to one of the other entries
	Dest      string
	Log       []string
	RawMap    z.ZogIssueMap
	RawList   z.ZogIssueList
}

func (o *Obs) IssueStrings() []string {
	out := make([]string, len(o.Issues))
	for i, is := range o.Issues {
		out[i] = is.String()
	}
	return out
}

func (o *Obs) Sig() string {
	return fmt.Sprintf("panic=%q nil=%v issues=%v first=%v", o.Panic, o.Nil, o.IssueStrings(), o.First != nil)
}

func obsFromMap(m z.ZogIssueMap) *Obs {
	o := &Obs{Nil: m == nil, RawMap: m}
	for k, l := range m {
		if k == "$first" {
			if len(l) > 0 {
				f := l[0]
				o.First = &Iss{Key: k, Path: f.Path, Code: f.Code, Dtype: f.Dtype, Msg: f.Message}
				for k2, l2 := range m {
					if k2 == "$first" {
						continue
					}
					for _, i2 := range l2 {
						if i2 == f {
							o.FirstSame = true
						}
					}
				}
			}
			continue
		}
		for _, i := range l {
			o.Issues = append(o.Issues, Iss{Key: k, Path: i.Path, Code: i.Code, Dtype: i.Dtype, Msg: i.Message})
		}
	}
	sort.Slice(o.Issues, func(a, b int) bool { return o.Issues[a].String() < o.Issues[b].String() })
	return o
}

func obsFromList(l z.ZogIssueList) *Obs {
	o := &Obs{Nil: l == nil, RawList: l}
	for _, i := range l {
		o.Issues = append(o.Issues, Iss{Key: "", Path: i.Path, Code: i.Code, Dtype: i.Dtype, Msg: i.Message})
	}
	return o
}

func canonValue(v reflect.Value) string {
	c := zhCanon()
	c.Val(v, 0)
	return c.String()
}

// RunParse executes schema.Parse(data, destPtr) on the real implementation.
func RunParse(s z.ZogSchema, data any, destPtr reflect.Value, opts ...z.ExecOption) (o *Obs) {
	defer func() {
		if r := recover(); r != nil {
			if he, ok := r.(mc.HarnessError); ok {
				panic(he)
			}
			o = &Obs{Panic: fmt.Sprint(r)}
		}
	}()
	switch sc := s.(type) {
	case *z.StructSchema:
		return obsFromMap(sc.Parse(data, destPtr.Interface(), opts...))
	case *z.SliceSchema:
		return obsFromMap(sc.Parse(data, destPtr.Interface(), opts...))
	case *z.PointerSchema:
		return obsFromMap(sc.Parse(data, destPtr.Interface(), opts...))
	case *z.StringSchema[string]:
		return obsFromList(sc.Parse(data, destPtr.Interface().(*string), opts...))
	case *z.NumberSchema[int]:
		return obsFromList(sc.Parse(data, destPtr.Interface().(*int), opts...))
	case *z.NumberSchema[float64]:
		return obsFromList(sc.Parse(data, destPtr.Interface().(*float64), opts...))
	case *z.NumberSchema[int32]:
		return obsFromList(sc.Parse(data, destPtr.Interface().(*int32), opts...))
	case *z.NumberSchema[int64]:
		return obsFromList(sc.Parse(data, destPtr.Interface().(*int64), opts...))
	case *z.NumberSchema[float32]:
		return obsFromList(sc.Parse(data, destPtr.Interface().(*float32), opts...))
	case *z.BoolSchema[bool]:
		return obsFromList(sc.Parse(data, destPtr.Interface().(*bool), opts...))
	case *z.TimeSchema:
		return obsFromList(sc.Parse(data, destPtr.Interface().(*time.Time), opts...))
	}
	panic(mc.HarnessError{Msg: fmt.Sprintf("RunParse: unsupported schema %T", s)})
}

func RunValidate(s z.ZogSchema, destPtr reflect.Value, opts ...z.ExecOption) (o *Obs) {
	defer func() {
		if r := recover(); r != nil {
			if he, ok := r.(mc.HarnessError); ok {
				panic(he)
			}
			o = &Obs{Panic: fmt.Sprint(r)}
		}
	}()
	switch sc := s.(type) {
	case *z.StructSchema:
		return obsFromMap(sc.Validate(destPtr.Interface(), opts...))
	case *z.SliceSchema:
		return obsFromMap(sc.Validate(destPtr.Interface(), opts...))
	case *z.PointerSchema:
		return obsFromMap(sc.Validate(destPtr.Interface(), opts...))
	case *z.StringSchema[string]:
		return obsFromList(sc.Validate(destPtr.Interface().(*string), opts...))
	case *z.NumberSchema[int]:
		return obsFromList(sc.Validate(destPtr.Interface().(*int), opts...))
	case *z.NumberSchema[float64]:
		return obsFromList(sc.Validate(destPtr.Interface().(*float64), opts...))
	case *z.BoolSchema[bool]:
		return obsFromList(sc.Validate(destPtr.Interface().(*bool), opts...))
	case *z.TimeSchema:
		return obsFromList(sc.Validate(destPtr.Interface().(*time.Time), opts...))
	}
	panic(mc.HarnessError{Msg: fmt.Sprintf("RunValidate: unsupported schema %T", s)})
}

// deepCopy returns an independent copy of v (slices, pointers, structs; maps are not used in destinations).
// Sharing inside v is preserved: two pointers to one object are copied to two pointers to one new object.
func deepCopy(v reflect.Value) reflect.Value {
	return deepCopyMemo(v, map[uintptr]reflect.Value{})
}

func deepCopyMemo(v reflect.Value, memo map[uintptr]reflect.Value) reflect.Value {
	out := reflect.New(v.Type()).Elem()
	switch v.Kind() {
	case reflect.Slice:
		if v.IsNil() {
			return out
		}
		s := reflect.MakeSlice(v.Type(), v.Len(), v.Len())
		for i := 0; i < v.Len(); i++ {
			s.Index(i).Set(deepCopyMemo(v.Index(i), memo))
		}
		out.Set(s)
	case reflect.Pointer:
		if v.IsNil() {
			return out
		}
		if p, ok := memo[v.Pointer()]; ok {
			out.Set(p)
			return out
		}
		p := reflect.New(v.Type().Elem())
		memo[v.Pointer()] = p
		p.Elem().Set(deepCopyMemo(v.Elem(), memo))
		out.Set(p)
	case reflect.Struct:
		if v.Type() == primType(KTime) {
			out.Set(v)
			return out
		}
		for i := 0; i < v.NumField(); i++ {
			out.Field(i).Set(deepCopyMemo(v.Field(i), memo))
		}
	default:
		out.Set(v)
	}
	return out
}
