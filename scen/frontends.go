package scen

// Front-end rendering (DESIGN §3.7): one abstract record (the Go-map input
// built by the case builder) is rendered as a Go map, JSON text through
// zjson, a zhttp JSON body, a form body, a query string, or environment
// variables. The renderer knows the documented key rule and the documented
// representational differences and nothing else.

import (
	"testing/iotest"
	"encoding/json"
	"fmt"
	"io"
	"net/http"
	"net/http/httptest"
	"net/url"
	"os"
	"sort"
	"strconv"
	"strings"
	"time"

	"github.com/Oudwins/zog/parsers/zjson"
	"github.com/Oudwins/zog/zenv"
	"github.com/Oudwins/zog/zhttp"
)

type FrontEnd int

const (
	FEMap FrontEnd = iota
	FEJSON
	FEHTTPJSON
	FEForm
	FEQuery
	FEEnv
	FEHTTPJSONStream // zhttp JSON body of unknown length (chunked upload: ContentLength == -1)
	FEJSONFramed     // zjson.Decode on a seekable reader positioned AFTER a frame header the caller has already consumed
	feCount
)

func (fe FrontEnd) String() string {
	return [...]string{"gomap", "zjson", "zhttp-json", "zhttp-form", "zhttp-query", "zenv", "zhttp-json-stream", "zjson-framed"}[fe]
}

func (fe FrontEnd) SourceTag() string {
	return [...]string{"", "json", "json", "form", "query", "env", "json", "json"}[fe]
}

func (fe FrontEnd) Flat() bool { return fe >= FEForm && fe <= FEEnv }

type Rendered struct {
	MkData      func() any // fresh input for one Parse call
	Src         any        // what the reference model reads: *specSrc or a plain Go value
	Cleanup     func()
	Desc        string
	Expressible bool
	Why         string
}

func scalarString(v any) (string, bool) {
	switch t := v.(type) {
	case string:
		return t, true
	case int:
		return strconv.Itoa(t), true
	case float64:
		return strconv.FormatFloat(t, 'f', -1, 64), true
	case bool:
		return strconv.FormatBool(t), true
	case time.Time:
		return t.Format(time.RFC3339Nano), true
	}
	return "", false
}

// flatten renders a Go-map record into one flat namespace of string lists.
// ok=false if the record is not expressible (nil list elements, nested lists, key collisions).
func flatten(root *Node, m map[string]any, tag string, out url.Values) (bool, string) {
	for _, f := range sortedFields(root) {
		key := fieldKeyFor(f, tag)
		// a list sent only under "key[]" (see bracketVariant): rendered under exactly that parameter name
		if alt, ok := m[key+"[]"].([]any); ok && !strings.HasSuffix(key, "[]") {
			for _, e := range alt {
				if s, ok := scalarString(e); ok && s != "" {
					out[key+"[]"] = append(out[key+"[]"], s)
				}
			}
		}
		v, present := m[key]
		if !present || v == nil {
			continue // a flat source cannot say "null": render as missing
		}
		n := f.N
		behindPtr := false
		for n.Kind == KPtr {
			n = n.Elem
			behindPtr = true
		}
		switch n.Kind {
		case KStruct:
			if behindPtr {
				return false, "a present optional record (Ptr(Struct)) is not expressible in a flat source: nothing marks the record itself as present"
			}
			sub, ok := v.(map[string]any)
			if !ok {
				return false, "a nested record given as a scalar has no meaning in a flat source"
			}
			if ok, why := flatten(n, sub, tag, out); !ok {
				return false, why
			}
		case KSlice:
			switch l := v.(type) {
			case []any:
				if len(l) == 0 {
					return false, "empty list is not expressible in a flat source"
				}
				for _, e := range l {
					s, ok := scalarString(e)
					if !ok || (s == "" && len(l) < 2) {
						// (a parameter repeated with blank values IS a list of blanks; a single blank value reads as "")
						return false, "nil list elements, and a single empty-string element, are not expressible in a flat source"
					}
					out[key] = append(out[key], s)
				}
			default:
				s, ok := scalarString(v)
				if !ok {
					return false, "list value not expressible"
				}
				if s == "" {
					continue // an empty scalar for a list field is absent; a flat source says so by omitting the key
				}
				out[key] = append(out[key], s)
			}
		default:
			s, ok := scalarString(v)
			if !ok {
				return false, "value not expressible as a string"
			}
			if _, dup := out[key]; dup {
				return false, "key collision in flat namespace"
			}
			out[key] = append(out[key], s)
		}
	}
	return true, ""
}

// flatGet is the documented url.Values view: repeated or []-suffixed → list, single → string, missing → absent.
func flatGet(vals url.Values) func(key string) any {
	return func(key string) any {
		l := vals[key]
		if strings.HasSuffix(key, "[]") && len(key) > 2 {
			if len(l) == 0 {
				return "" // missing: absent
			}
			return append([]string(nil), l...)
		}
		if len(l) > 1 {
			return append([]string(nil), l...)
		}
		if len(l) == 1 {
			return l[0]
		}
		return ""
	}
}

// flatRecordKeys: the resolved keys of the record-typed fields of root (at any depth) and of all other fields.
func flatRecordKeys(root *Node, tag string) (recs, others []string) {
	var walk func(n *Node)
	walk = func(n *Node) {
		for _, f := range n.Fields {
			k := fieldKeyFor(f, tag)
			e := f.N
			for e.Kind == KPtr {
				e = e.Elem
			}
			if e.Kind == KStruct {
				if k != "" {
					recs = append(recs, k)
				}
				walk(e)
			} else if k != "" {
				others = append(others, k)
			}
		}
	}
	if root.Kind == KStruct {
		walk(root)
	}
	return
}

// Render presents the Go-map record `input` (keys already resolved for fe's source tag) through front end fe.
func Render(fe FrontEnd, root *Node, input any) *Rendered {
	r := &Rendered{Expressible: true, Cleanup: func() {}}
	tag := fe.SourceTag()
	m, isMap := input.(map[string]any)
	switch fe {
	case FEMap:
		r.MkData = func() any { return input }
		r.Src = input
		r.Desc = fmt.Sprintf("Go map %#v", input)
	case FEJSON, FEHTTPJSON, FEHTTPJSONStream, FEJSONFramed:
		if !isMap {
			r.Expressible, r.Why = false, "top level is not a record"
			return r
		}
		text, err := json.Marshal(m)
		if err != nil {
			r.Expressible, r.Why = false, err.Error()
			return r
		}
		var view map[string]any
		if err := json.Unmarshal(text, &view); err != nil {
			r.Expressible, r.Why = false, err.Error()
			return r
		}
		r.Src = &specSrc{tag: tag, m: view}
		r.Desc = fmt.Sprintf("%s %s", fe, text)
		if fe == FEJSONFramed {
			r.MkData = func() any {
				rd := strings.NewReader("HDR:0042\n" + string(text))
				hdr := make([]byte, 9)
				io.ReadFull(rd, hdr) // the caller has read its own frame header; the document starts here
				return zjson.Decode(rd)
			}
		} else if fe == FEJSON {
			// environment answer "short read": the document arrives one byte per Read
			r.MkData = func() any { return zjson.Decode(iotest.OneByteReader(strings.NewReader(string(text)))) }
		} else if fe == FEHTTPJSONStream {
			r.MkData = func() any {
				// a chunked upload: the body arrives in two pieces, the first one a single byte
				body := io.MultiReader(strings.NewReader(string(text[:1])), strings.NewReader(string(text[1:])))
				req := httptest.NewRequest(http.MethodPost, "/", io.NopCloser(body))
				req.Header.Set("Content-Type", "application/json; charset=utf-8")
				return zhttp.Request(req)
			}
		} else {
			r.MkData = func() any {
				req := httptest.NewRequest(http.MethodPost, "/", strings.NewReader(string(text)))
				req.Header.Set("Content-Type", "application/json")
				return zhttp.Request(req)
			}
		}
	case FEForm, FEQuery, FEEnv:
		if !isMap {
			r.Expressible, r.Why = false, "top level is not a record"
			return r
		}
		vals := url.Values{}
		if ok, why := flatten(root, m, tag, vals); !ok {
			r.Expressible, r.Why = false, why
			return r
		}
		// parameters that name nothing the schema declares — spelled like qualified names of the nested records
		// ("n.note", "n[note]", and for the environment "N_<sibling key>") — are noise: every flat source carries them
		recKeys, sibKeys := flatRecordKeys(root, tag)
		withStrays := url.Values{}
		for k, l := range vals {
			withStrays[k] = l
		}
		for _, k := range recKeys {
			if fe != FEEnv {
				withStrays[k+".zzstray"] = []string{"stray"}
				withStrays[k+"[zzstray]"] = []string{"stray"}
			} else {
				for _, sk := range sibKeys {
					name := strings.ToUpper(k) + "_" + sk
					if _, taken := vals[name]; !taken && name != "" && !strings.ContainsAny(name, "=\x00") {
						withStrays[name] = []string{"stray"}
					}
				}
			}
		}
		if fe == FEEnv {
			// variables whose names differ from an unset field's key only by letter case are other variables
			declared := map[string]bool{}
			for _, k := range append(append([]string{}, recKeys...), sibKeys...) {
				declared[k] = true
			}
			for _, sk := range sibKeys {
				if _, set := vals[sk]; set || strings.ContainsAny(sk, "=\x00") {
					continue
				}
				for _, name := range []string{strings.ToUpper(sk), strings.ToLower(sk)} {
					if _, taken := withStrays[name]; !taken && name != sk && !declared[name] {
						withStrays[name] = []string{"stray"}
					}
				}
			}
		}
		enc := withStrays.Encode()
		switch fe {
		case FEForm:
			r.Src = &specSrc{flat: true, tag: tag, get: flatGet(vals)}
			r.Desc = "form body " + enc
			r.MkData = func() any {
				req := httptest.NewRequest(http.MethodPost, "/", strings.NewReader(enc))
				req.Header.Set("Content-Type", "application/x-www-form-urlencoded")
				return zhttp.Request(req)
			}
		case FEQuery:
			r.Src = &specSrc{flat: true, tag: tag, get: flatGet(vals)}
			r.Desc = "query " + enc
			r.MkData = func() any {
				req := httptest.NewRequest(http.MethodGet, "/?"+enc, nil)
				return zhttp.Request(req)
			}
		case FEEnv:
			env := map[string]string{}
			var keys []string
			for k, l := range withStrays {
				if len(l) != 1 {
					r.Expressible, r.Why = false, "a list of several values is not expressible in the environment"
					return r
				}
				if strings.ContainsAny(k, "=\x00") || k == "" {
					r.Expressible, r.Why = false, "key not usable as a variable name"
					return r
				}
				env[k] = l[0]
				keys = append(keys, k)
			}
			sort.Strings(keys)
			r.Src = &specSrc{flat: true, tag: tag, get: func(key string) any { return strings.TrimSpace(env[key]) }}
			r.Desc = fmt.Sprintf("environment %v", env)
			r.MkData = func() any {
				for _, k := range keys { // a fixed definition order (C09 enumerates the others)
					os.Setenv(k, env[k])
				}
				return zenv.NewDataProvider()
			}
			r.Cleanup = func() {
				for k := range env {
					os.Unsetenv(k)
				}
			}
		}
	}
	return r
}

// ---------------------------------------------------------------------------
// record skeletons with tag configurations

type tagCfg struct {
	field string
	cfg   int // 0 none, 1 zog, 2 source, 3 both, 4 source tag with [] suffix (lists in form/query), 5 a foreign library's tag whose key ends in the source tag name, 6 zog tag whose value contains a comma
}

func tagText(fe FrontEnd, key string, cfg int) string {
	src := fe.SourceTag()
	var parts []string
	switch cfg {
	case 1:
		parts = append(parts, fmt.Sprintf(`zog:"z_%s"`, key))
	case 2:
		if src != "" {
			parts = append(parts, fmt.Sprintf(`%s:"%s_%s"`, src, src, key))
		}
	case 3:
		if src != "" {
			parts = append(parts, fmt.Sprintf(`%s:"%s_%s"`, src, src, key))
		}
		parts = append(parts, fmt.Sprintf(`zog:"z_%s"`, key))
	case 4:
		if src != "" {
			parts = append(parts, fmt.Sprintf(`%s:"%s_%s[]"`, src, src, key))
		}
	case 5:
		// e.g. conform:"trim", protojson:"msgId", dotenv:"X": none of these is the source tag or the zog tag
		parts = append(parts, fmt.Sprintf(`x%s:"foreign_%s" proto%s:"other_%s" xzog:"foreignzog_%s"`, src, key, src, key, key))
	case 6:
		parts = append(parts, fmt.Sprintf(`zog:"z_%s,omitempty"`, key))
	case 8:
		// the field carries the tags of OTHER sources only (a struct shared between a JSON API, an HTML form and the
		// environment): none of them names the field for this source
		for _, other := range []string{"json", "form", "query", "env"} {
			if other != src {
				parts = append(parts, fmt.Sprintf(`%s:"%s_%s"`, other, other, key))
			}
		}
	case 7:
		// the tag renames the field to the SCHEMA KEY OF A SIBLING (a rotation of the names within each record):
		// every document then holds, under each field's schema key, a value that belongs to another field
		name := src
		if name == "" {
			name = "zog"
		}
		parts = append(parts, fmt.Sprintf(`%s:"%s"`, name, tagRotation[key]))
	}
	return strings.Join(parts, " ")
}

// tagRotation: within each record of the skeletons, field k is renamed to the schema key of the next field.
var tagRotation = map[string]string{
	"s": "i", "i": "l", "l": "n", "n": "s", // record
	"s2": "b2", "b2": "s2", "d": "d", "s3": "i3", "i3": "s3",
	"p": "q", "q": "p", "s4": "i4", "i4": "s4", // record with optional parts (s, p, q, n are rotated below)
}

// recordSkel builds the record skeleton with the given tag configuration for front end fe.
func recordSkel(fe FrontEnd, tags map[string]int, deep bool) *Skel {
	var inner *Skel
	if deep {
		inner = ss("s2", sp(KStr), "b2", sp(KBool), "d", ss("s3", sp(KStr), "i3", sp(KInt)))
	} else {
		inner = ss("s2", sp(KStr), "b2", sp(KBool))
	}
	s := ss("s", sp(KStr), "i", sp(KInt), "l", sl(sp(KStr)), "n", inner)
	if tags[shapeKey] == 1 {
		// record variant with optional parts behind pointers: a record, a leaf, and a direct record next to them
		s = ss("s", sp(KStr), "p", sr(ss("s4", sp(KStr), "i4", sp(KInt))), "q", sr(sp(KInt)), "n", ss("s2", sp(KStr)))
	}
	var apply func(s *Skel)
	apply = func(s *Skel) {
		for i := range s.Fields {
			f := &s.Fields[i]
			f.Tag = tagText(fe, f.Key, tags[f.Key])
			if tags[f.Key] == 7 && tags[shapeKey] == 1 {
				// record with optional parts: s -> p -> q -> n -> s
				if r, ok := map[string]string{"s": "p", "p": "q", "q": "n", "n": "s"}[f.Key]; ok {
					name := fe.SourceTag()
					if name == "" {
						name = "zog"
					}
					f.Tag = fmt.Sprintf(`%s:"%s"`, name, r)
				}
			}
			x := f.S
			for x.Kind == KPtr || x.Kind == KSlice {
				x = x.Elem
			}
			if x.Kind == KStruct {
				apply(x)
			}
		}
	}
	apply(s)
	s.label("")
	return s
}

// shapeKey in a tag assignment selects the record variant (it names no field).
const shapeKey = "§shape"

func recordFieldsPtr() []string { return []string{"s", "p", "s4", "i4", "q", "n", "s2"} }

func recordFields(deep bool) []string {
	if deep {
		return []string{"s", "i", "l", "n", "s2", "b2", "d", "s3", "i3"}
	}
	return []string{"s", "i", "l", "n", "s2", "b2"}
}

// tagVariants: every assignment with ≤k fields deviating from "no tag".
func tagVariants(fields []string, k int, withBracket bool) []map[string]int {
	var out []map[string]int
	var rec func(start int, cur map[string]int)
	rec = func(start int, cur map[string]int) {
		cp := map[string]int{}
		for a, b := range cur {
			cp[a] = b
		}
		out = append(out, cp)
		if len(cur) == k {
			return
		}
		for i := start; i < len(fields); i++ {
			cfgs := []int{1, 2, 3, 5, 6}
			if withBracket && fields[i] == "l" {
				cfgs = append(cfgs, 4)
			}
			for _, c := range cfgs {
				cur[fields[i]] = c
				rec(i+1, cur)
				delete(cur, fields[i])
			}
		}
	}
	rec(0, map[string]int{})
	return out
}

// hasBracketTag: does the assignment give some field a source tag with a "[]" suffix (configuration 4)?
func hasBracketTag(tags map[string]int) bool {
	for k, v := range tags {
		if k != shapeKey && v == 4 {
			return true
		}
	}
	return false
}

func uniformTags(fields []string, cfg int) map[string]int {
	m := map[string]int{}
	for _, f := range fields {
		m[f] = cfg
	}
	return m
}

func tagsString(m map[string]int) string {
	var ks []string
	for k, v := range m {
		ks = append(ks, fmt.Sprintf("%s=%d", k, v))
	}
	sort.Strings(ks)
	return strings.Join(ks, ",")
}
