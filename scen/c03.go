package scen

// C03 — on success the destination holds the documented coercion of the input.
// Leaf kind × input representation × coercer option × placement, full
// product; oracle: documented coercion table (specCoerce), frame condition on
// untouched destinations.

import (
	"fmt"
	"reflect"
	"strings"
	"time"

	z "github.com/Oudwins/zog"
	"github.com/Oudwins/zog/conf"
	"zogverif/mc"
	"zogverif/zh"
)

type c03Kind struct {
	name   string
	base   Kind
	dest   reflect.Type
	mk     func(opts ...z.SchemaOption) z.ZogSchema
	conv   func(v any) (any, bool) // documented base value -> destination type (false: out of range)
	custom any                     // value a custom coercer returns (already of the type the schema asserts)
	setGlobal func(c conf.CoercerFunc) func()
}

func c03Kinds() []c03Kind {
	id := func(v any) (any, bool) { return v, true }
	return []c03Kind{
		{"String", KStr, reflect.TypeOf(""), func(o ...z.SchemaOption) z.ZogSchema { return z.String(o...) }, id, "COERCED",
			func(c conf.CoercerFunc) func() { old := conf.Coercers.String; conf.Coercers.String = c; return func() { conf.Coercers.String = old } }},
		{"Int", KInt, reflect.TypeOf(0), func(o ...z.SchemaOption) z.ZogSchema { return z.Int(o...) }, id, 4242,
			func(c conf.CoercerFunc) func() { old := conf.Coercers.Int; conf.Coercers.Int = c; return func() { conf.Coercers.Int = old } }},
		{"Int32", KInt, reflect.TypeOf(int32(0)), func(o ...z.SchemaOption) z.ZogSchema { return z.Int32(o...) }, func(v any) (any, bool) {
			n := v.(int)
			return int32(n), int(int32(n)) == n
		}, int32(4242), func(c conf.CoercerFunc) func() { old := conf.Coercers.Int; conf.Coercers.Int = c; return func() { conf.Coercers.Int = old } }},
		{"Int64", KInt, reflect.TypeOf(int64(0)), func(o ...z.SchemaOption) z.ZogSchema { return z.Int64(o...) }, func(v any) (any, bool) { return int64(v.(int)), true }, int64(4242), func(c conf.CoercerFunc) func() { old := conf.Coercers.Int; conf.Coercers.Int = c; return func() { conf.Coercers.Int = old } }},
		{"Float64", KFloat, reflect.TypeOf(0.0), func(o ...z.SchemaOption) z.ZogSchema { return z.Float64(o...) }, id, 42.5,
			func(c conf.CoercerFunc) func() { old := conf.Coercers.Float64; conf.Coercers.Float64 = c; return func() { conf.Coercers.Float64 = old } }},
		{"Float32", KFloat, reflect.TypeOf(float32(0)), func(o ...z.SchemaOption) z.ZogSchema { return z.Float32(o...) }, func(v any) (any, bool) { return float32(v.(float64)), true }, float32(42.5), func(c conf.CoercerFunc) func() { old := conf.Coercers.Float64; conf.Coercers.Float64 = c; return func() { conf.Coercers.Float64 = old } }},
		{"Bool", KBool, reflect.TypeOf(false), func(o ...z.SchemaOption) z.ZogSchema { return z.Bool(o...) }, id, true,
			func(c conf.CoercerFunc) func() { old := conf.Coercers.Bool; conf.Coercers.Bool = c; return func() { conf.Coercers.Bool = old } }},
		{"Time", KTime, reflect.TypeOf(time.Time{}), func(o ...z.SchemaOption) z.ZogSchema { return z.Time(o...) }, id, time.Date(2000, 1, 2, 3, 4, 5, 0, time.UTC),
			func(c conf.CoercerFunc) func() { old := conf.Coercers.Time; conf.Coercers.Time = c; return func() { conf.Coercers.Time = old } }},
	}
}

// input representations (Go, JSON-decoded and form values)
func c03Inputs(k Kind) []any {
	common := []any{"1", "0", "42", "-7", "3.5", "on", "off", "true", "false", "t", "T", "True", "TRUE", "f", "F", "FALSE", "False", "test", "abc",
		1, 0, 42, -7, int32(5), int64(6), float32(2.5), 3.5, 3.0, -2.9, true, false,
		"2024-01-02T03:04:05Z", "2024-01-02T03:04:05+02:00", "2024-01-02", "02/01/2024", "2024-01-02 03:04", 1700000000, int64(1700000000), 1.7e9,
		time.Date(2024, 5, 6, 7, 8, 9, 0, time.UTC), []byte("hi"), []any{"x"}, map[string]any{"a": 1}, uint(3), "1e3", " 5 ", "+5", "5.0", "x y",
		// text that is not valid UTF-8 (Latin-1 bytes, a truncated rune) and text with control bytes: a string is its bytes
		"caf\xe9", "\xe2\x82", "a\x00b", "tab\there",
		// single-precision and double-precision values that are not dyadic fractions, and large magnitudes (their %v text is the shortest that round-trips at their own precision)
		float32(0.1), float32(19.99), float32(1e10), float32(16777217), 0.1, 19.99, 1e21, 123456789.125}
	return common
}

var c03Layouts = []string{"2006-01-02", "02/01/2006", "2006-01-02 15:04", time.RFC3339}

// c03Documented: the coercion the documentation defines for (kind, option, input); ok=false: no documented coercion.
func c03Documented(k c03Kind, opt int, in any) (any, bool) {
	switch {
	case opt == 1 || opt == 2 || opt == 3: // WithCoercer / global override / through Ptr: the custom coercer's result
		return k.custom, true
	case opt >= 4: // Time.Format(layout i) / FormatFunc
		switch v := in.(type) {
		case time.Time:
			return v, true
		case string:
			layout := c03Layouts[(opt-4)%len(c03Layouts)]
			t, err := time.Parse(layout, v)
			if err != nil {
				return nil, false
			}
			return t, true
		case int:
			return time.Unix(int64(v), 0), true
		case int64:
			return time.Unix(v, 0), true
		}
		return nil, false
	}
	v, ok := specCoerce(k.base, in)
	if !ok {
		return nil, false
	}
	return k.conv(v)
}

func c03Options(k c03Kind) int {
	n := 4 // default, WithCoercer, global override, WithCoercer applied through Ptr
	if k.name == "Time" {
		n += len(c03Layouts) + 1 // Time.Format(layout) ×3, Time.FormatFunc
	}
	return n
}

func eqVal(a, b any) bool {
	if ta, ok := a.(time.Time); ok {
		tb, ok2 := b.(time.Time)
		return ok2 && ta.Equal(tb)
	}
	return reflect.DeepEqual(a, b)
}

func c03Scenario(ki int) mc.Scenario {
	kinds := c03Kinds()
	k := kinds[ki]
	inputs := c03Inputs(k.base)
	return func(x *mc.X) *mc.Outcome {
		zh.Reset()
		zh.Install(x, zh.PoolLIFO, zh.OrderFree)
		opt := x.Choose(c03Options(k), "coercerOption")
		if (opt == 2) && k.setGlobal == nil {
			return &mc.Outcome{Sig: "n/a"}
		}
		place := x.Choose(6, "placement") // 0 top, 1 struct field, 2 slice element, 3 behind pointer, 4 struct in slice, 5 pointer field in struct (pre-allocated)
		if opt == 3 && place != 3 && place != 5 {
			return &mc.Outcome{Sig: "n/a"} // "through Ptr" needs a pointer schema
		}
		in := inputs[x.Choose(len(inputs), "input")]
		custom := func(data any) (any, error) { return k.custom, nil }
		if k.name == "Int32" || k.name == "Int64" || k.name == "Float32" {
			// width adapters wrap the global coercer; a custom coercer given with WithCoercer replaces the adapter as a whole
		}
		// a coercer given to the schema itself (WithCoercer, Time.Format, Time.FormatFunc) wins over a process-wide
		// override of the same kind — installed before the schema is built (so that nothing captured while building can bypass it) and in force while it runs
		globalToo := false
		if (opt == 1 || opt == 3 || opt >= 4) && k.setGlobal != nil {
			globalToo = x.Choose(2, "globalOverrideInstalledToo") == 1
			if globalToo {
				var wrong any
				switch k.base {
				case KStr:
					wrong = "GLOBAL"
				case KInt:
					wrong = 9999
				case KFloat:
					wrong = 99.25
				case KBool:
					wrong = false
				case KTime:
					wrong = time.Date(1999, 9, 9, 9, 9, 9, 0, time.UTC)
				}
				r2 := k.setGlobal(func(data any) (any, error) { return wrong, nil })
				defer r2()
			}
		}
		var restore func()
		var leaf z.ZogSchema
		switch {
		case opt == 0:
			leaf = k.mk()
		case opt == 1:
			leaf = k.mk(z.WithCoercer(custom))
		case opt == 2:
			g := custom
			switch k.name {
			case "Int", "Int32", "Int64":
				// the narrower integer schemas read the process-wide Int coercer when they run and narrow its result
				g = func(data any) (any, error) { return 4242, nil }
			case "Float32":
				g = func(data any) (any, error) { return 42.5, nil }
			}
			restore = k.setGlobal(g)
			leaf = k.mk()
		case opt == 3:
			leaf = k.mk()
		case opt >= 4 && opt < 4+len(c03Layouts):
			leaf = z.Time(z.Time.Format(c03Layouts[opt-4]))
		default:
			layout := c03Layouts[0]
			leaf = z.Time(z.Time.FormatFunc(func(s string) (time.Time, error) { return time.Parse(layout, s) }))
		}
		if restore != nil {
			defer restore()
		}
		want, documented := c03Documented(k, opt, in)
		absent := parseAbsentSpec(in)
		var schema z.ZogSchema
		var dest reflect.Value
		var data any
		var leafOf func() (reflect.Value, bool) // destination leaf after the call (false: not allocated)
		var frame func() string                 // "" if untouched parts are intact
		switch place {
		case 0:
			schema, dest, data = leaf, reflect.New(k.dest), in
			leafOf = func() (reflect.Value, bool) { return dest.Elem(), true }
			frame = func() string { return "" }
		case 1, 5:
			var f z.ZogSchema = leaf
			ft := k.dest
			if place == 5 {
				p := z.Ptr(leaf)
				if opt == 3 {
					z.WithCoercer(custom)(p)
				}
				f, ft = p, reflect.PointerTo(k.dest)
			} else if opt == 3 {
				return &mc.Outcome{Sig: "n/a"}
			}
			schema = z.Struct(z.Schema{"f": f, "g": z.String(), "h": z.Ptr(z.Int())})
			st := reflect.StructOf([]reflect.StructField{{Name: "F", Type: ft}, {Name: "G", Type: reflect.TypeOf("")}, {Name: "H", Type: reflect.TypeOf((*int)(nil))}, {Name: "Extra", Type: reflect.TypeOf("")}})
			dest = reflect.New(st)
			dest.Elem().Field(1).SetString("§g")
			dest.Elem().Field(3).SetString("§extra")
			var pre reflect.Value
			if place == 5 {
				pre = reflect.New(k.dest)
				dest.Elem().Field(0).Set(pre)
			}
			data = map[string]any{"f": in, "unknown": "zz"}
			leafOf = func() (reflect.Value, bool) {
				fv := dest.Elem().Field(0)
				if place == 5 {
					if fv.IsNil() {
						return reflect.Value{}, false
					}
					return fv.Elem(), true
				}
				return fv, true
			}
			frame = func() string {
				e := dest.Elem()
				if e.Field(1).String() != "§g" {
					return "field g (absent optional input) was written: " + e.Field(1).String()
				}
				if !e.Field(2).IsNil() {
					return "pointer field h (absent input) was allocated"
				}
				if e.Field(3).String() != "§extra" {
					return "field Extra (not named by the schema) was written"
				}
				return ""
			}
		case 2:
			if opt == 3 {
				return &mc.Outcome{Sig: "n/a"}
			}
			schema = z.Slice(leaf)
			dest = reflect.New(reflect.SliceOf(k.dest))
			data = []any{in}
			leafOf = func() (reflect.Value, bool) {
				if dest.Elem().Len() != 1 {
					return reflect.Value{}, false
				}
				return dest.Elem().Index(0), true
			}
			frame = func() string {
				if dest.Elem().Len() != 1 {
					return fmt.Sprintf("slice length %d, input length 1", dest.Elem().Len())
				}
				return ""
			}
		case 3:
			p := z.Ptr(leaf)
			if opt == 3 {
				z.WithCoercer(custom)(p)
			}
			schema, dest, data = p, reflect.New(reflect.PointerTo(k.dest)), in
			leafOf = func() (reflect.Value, bool) {
				if dest.Elem().IsNil() {
					return reflect.Value{}, false
				}
				return dest.Elem().Elem(), true
			}
			frame = func() string {
				if absent && !dest.Elem().IsNil() {
					return "absent input allocated the pointer"
				}
				if !absent && dest.Elem().IsNil() {
					return "present input did not allocate the pointer"
				}
				return ""
			}
		case 4:
			if opt == 3 {
				return &mc.Outcome{Sig: "n/a"}
			}
			schema = z.Slice(z.Struct(z.Schema{"f": leaf}))
			st := reflect.StructOf([]reflect.StructField{{Name: "F", Type: k.dest}, {Name: "Extra", Type: reflect.TypeOf("")}})
			dest = reflect.New(reflect.SliceOf(st))
			data = []any{map[string]any{"f": in}, map[string]any{"f": in}}
			leafOf = func() (reflect.Value, bool) {
				if dest.Elem().Len() != 2 {
					return reflect.Value{}, false
				}
				return dest.Elem().Index(1).Field(0), true
			}
			frame = func() string {
				if dest.Elem().Len() != 2 {
					return fmt.Sprintf("slice length %d, input length 2", dest.Elem().Len())
				}
				return ""
			}
		}
		obs := RunParse(schema, data, dest)
		zh.Reset()
		out := &mc.Outcome{Traces: 1, Nontrivial: !absent}
		desc := fmt.Sprintf("%s option=%d placement=%d input=%T(%v) process-wide override installed as well=%v", k.name, opt, place, in, in, globalToo)
		success := obs.Panic == "" && len(obs.Issues) == 0
		out.Sig = fmt.Sprintf("%s|%d|%d|%T|succ=%v", k.name, opt, place, in, success)
		out.Sample = map[string]any{"case": desc, "success": success, "documented": documented, "want": fmt.Sprint(want)}
		fail := func(key, what, exp, got string) *mc.Outcome {
			x.Note("case: %s (options: 0 default, 1 WithCoercer, 2 global conf.Coercers override, 3 WithCoercer through Ptr, 4.. Time.Format layouts %v, last FormatFunc)", desc, c03Layouts)
			x.Note("placements: 0 top, 1 struct field, 2 slice element, 3 behind pointer, 4 struct in slice, 5 pre-allocated pointer field")
			out.Viol = append(out.Viol, &mc.Violation{Key: key, What: what, Expected: exp, Observed: got})
			return out
		}
		if obs.Panic != "" {
			return fail("C03:panic:"+k.name, "panic", "", obs.Panic)
		}
		if absent {
			// absent optional input: destination untouched
			if !success {
				return fail("C03:absent-issue:"+k.name, "absent optional input produced an issue", "no issue", fmt.Sprint(obs.IssueStrings()))
			}
			if lf, ok := leafOf(); ok && place != 3 && place != 5 && place != 2 && place != 4 {
				if !lf.IsZero() {
					return fail("C03:absent-written:"+k.name, "absent optional input wrote its destination", "zero value", canonValue(lf))
				}
			}
			if f := frame(); f != "" {
				return fail("C03:frame:"+k.name, f, "untouched", f)
			}
			return out
		}
		if success {
			if !documented {
				return fail(fmt.Sprintf("C03:undocumented-accepted:%s:opt%d", k.name, optClass(opt)), fmt.Sprintf("%s: Parse succeeded although the documented coercion of this input fails", desc), "a coerce issue", fmt.Sprintf("dest=%s", canonValue(dest.Elem())))
			}
			lf, ok := leafOf()
			if !ok {
				return fail("C03:leaf-missing:"+k.name, "destination leaf missing after success", fmt.Sprint(want), canonValue(dest.Elem()))
			}
			if !eqVal(lf.Interface(), want) {
				return fail(fmt.Sprintf("C03:wrong-value:%s:opt%d", k.name, optClass(opt)), fmt.Sprintf("%s: destination does not hold the documented coercion", desc), fmt.Sprintf("%v", want), canonValue(lf))
			}
			if f := frame(); f != "" {
				return fail("C03:frame:"+k.name, f, "untouched", f)
			}
		} else if documented {
			// documented coercions must be accepted (docs parsing table)
			onlyCoerce := true
			for _, is := range obs.Issues {
				if is.Code != "coerce" {
					onlyCoerce = false
				}
			}
			if onlyCoerce {
				return fail(fmt.Sprintf("C03:documented-rejected:%s:opt%d", k.name, optClass(opt)), fmt.Sprintf("%s: documented coercion (to %v) was rejected with a coerce issue", desc, want), fmt.Sprintf("%v", want), strings.Join(obs.IssueStrings(), " "))
			}
		}
		return out
	}
}

func optClass(opt int) int {
	if opt >= 4 {
		return 4
	}
	return opt
}

// slices: length, order, boxing
func c03SliceScenario(x *mc.X) *mc.Outcome {
	zh.Reset()
	zh.Install(x, zh.PoolLIFO, zh.OrderSorted)
	n := x.Choose(4, "len")
	repr := x.Choose(5, "repr") // []any, []string, []int (to strings), scalar (boxed), custom slice coercer
	elems := []string{"a", "b", "c"}[:n]
	var data any
	var want []string
	switch repr {
	case 0:
		l := []any{}
		for _, e := range elems {
			l = append(l, e)
		}
		data, want = l, elems
	case 1:
		data, want = append([]string{}, elems...), elems
	case 2:
		l := []int{}
		for i := range elems {
			l = append(l, i+10)
			want = append(want, fmt.Sprint(i+10))
		}
		data = l
	case 3:
		data, want = "solo", []string{"solo"}
	case 4:
		data, want = "p,q,r", []string{"p", "q", "r"}
	}
	var s *z.SliceSchema
	if repr == 4 {
		s = z.Slice(z.String(), z.WithCoercer(func(d any) (any, error) { return strings.Split(d.(string), ","), nil }))
	} else {
		s = z.Slice(z.String())
	}
	d := []string{"§sentinel"}
	if x.Bool("destination pre-populated with spare capacity") {
		d = append(make([]string, 0, 8), "§old0", "§old1", "§old2", "§old3")
	}
	res := s.Parse(data, &d)
	zh.Reset()
	out := &mc.Outcome{Traces: 1, Nontrivial: true, Sig: fmt.Sprintf("slice|%d|%d", n, repr)}
	out.Sample = map[string]any{"input": fmt.Sprintf("%#v", data), "dest": d}
	if res != nil {
		out.Viol = append(out.Viol, &mc.Violation{Key: "C03:slice-issue", What: "valid slice input produced issues", Observed: fmt.Sprint(res)})
		return out
	}
	if len(want) == 0 {
		want = []string{}
	}
	if len(d) != len(want) || (len(d) > 0 && !reflect.DeepEqual(d, want)) {
		x.Note("input %#v", data)
		out.Viol = append(out.Viol, &mc.Violation{Key: "C03:slice-order-length", What: "slice length/order differs from the input's", Expected: fmt.Sprint(want), Observed: fmt.Sprint(d)})
	}
	return out
}

// c03ReuseScenario: the destination is a function of the input alone — parsing into a destination that
// already holds values (spare capacity, non-nil pointers, populated nested structs) gives what parsing into
// a fresh destination gives, for inputs with absent optional elements.
func c03ReuseScenario(x *mc.X) *mc.Outcome {
	zh.Reset()
	zh.Install(x, zh.PoolLIFO, zh.OrderFree)
	which := x.Choose(3, "schema")
	n := 1 + x.Choose(3, "len")
	absentAt := x.Choose(n+1, "absentIndex") // n = none
	absentKind := x.Choose(3, "absentKind")  // nil, "", missing key (struct elements)
	mkIn := func(i int) any {
		if i == absentAt {
			switch which {
			case 2:
				if absentKind == 2 {
					return map[string]any{"q": i}
				}
				return map[string]any{"name": []any{nil, ""}[absentKind%2], "q": i}
			default:
				return []any{nil, "", "  "}[absentKind]
			}
		}
		switch which {
		case 0:
			return fmt.Sprintf("v%d", i)
		case 1:
			return 10 + i
		default:
			return map[string]any{"name": fmt.Sprintf("n%d", i), "q": i}
		}
	}
	var in []any
	for i := 0; i < n; i++ {
		in = append(in, mkIn(i))
	}
	type E struct {
		Name string
		Q    int
	}
	run := func(pre bool) string {
		switch which {
		case 0:
			s := z.Slice(z.String())
			var d []string
			if pre {
				d = append(make([]string, 0, 8), "old0", "old1", "old2", "old3")
			}
			m := s.Parse(in, &d)
			return fmt.Sprintf("%v %q", m == nil, d)
		case 1:
			s := z.Slice(z.Ptr(z.Int()))
			var d []*int
			if pre {
				a, b, c, e := 1, 2, 3, 4
				d = append(make([]*int, 0, 8), &a, &b, &c, &e)
			}
			m := s.Parse(in, &d)
			var vs []string
			for _, p := range d {
				if p == nil {
					vs = append(vs, "nil")
				} else {
					vs = append(vs, fmt.Sprint(*p))
				}
			}
			return fmt.Sprintf("%v %v", m == nil, vs)
		default:
			s := z.Slice(z.Struct(z.Schema{"name": z.String(), "q": z.Int()}))
			var d []E
			if pre {
				d = append(make([]E, 0, 8), E{"old0", 90}, E{"old1", 91}, E{"old2", 92}, E{"old3", 93})
			}
			m := s.Parse(in, &d)
			return fmt.Sprintf("%v %+v", m == nil, d)
		}
	}
	fresh := run(false)
	reused := run(true)
	zh.Reset()
	out := &mc.Outcome{Traces: 2, Nontrivial: true, Sig: fmt.Sprintf("reuse|%d|%d|%d|%d", which, n, absentAt, absentKind)}
	out.Sample = map[string]any{"input": fmt.Sprintf("%#v", in), "fresh": fresh, "into_populated_destination": reused}
	if fresh != reused {
		x.Note("schema %d (0 Slice(String), 1 Slice(Ptr(Int)), 2 Slice(Struct{name,q})), input %#v", which, in)
		out.Viol = append(out.Viol, &mc.Violation{Key: fmt.Sprintf("C03:dest-not-function-of-input:%d", which), What: "parsing into a destination slice that already holds values gives a different result than parsing into a fresh one (slice length and elements must equal the input's; absent elements are zero / nil)", Expected: fresh, Observed: reused})
	}
	return out
}

func init() {
	Register(&Prop{
		ID:    "C03",
		Rule:  "full product: leaf kind {String, Int, Int32, Int64, Float64, Float32, Bool, Time} × 49 input representations (Go native of every width, decimal/exponent/bool/time strings, unix seconds, JSON-typed float64, []byte, lists, maps) × coercer option {default, WithCoercer, global conf.Coercers override, WithCoercer applied through Ptr, Time.Format ×4 layouts incl. RFC3339, Time.FormatFunc; the schema-level options also with a process-wide override of the same kind installed at the same time} × placement {top, struct field, slice element, behind pointer, struct in slice, pre-allocated pointer field}; plus slices of length 0..3 in 5 representations; plus destination independence: every core case with one focus unit parsed into two differently pre-filled destinations (different sentinels, slices with spare capacity); plus the whole destination against the reference model: every core case (hand-picked skeletons and the shape grammar of two-field structs) with ≤2 focus units, all visit orders, on success the destination must equal the model's node for node (leaves, allocated and nil pointers, slice lengths, untouched sentinels), also when the destination's pointers already point to populated values; non-trivial = present input; distinct = distinct (kind, option, placement, input type, success)",
		Floor: 100,
		Bound: func(tier string) string { return "full product (both tiers)" },
		Assumptions: []string{
			"documented coercion table: docs parsing table + DESIGN Appendix A (scen/core_spec.go specCoerce); success on an input whose documented coercion fails is a violation, and so is a coerce issue on an input whose coercion is documented",
			"absent optional inputs leave the destination untouched; fields not named by the schema are never written",
		},
		Items: func(tier string) []Item {
			var items []Item
			for i, k := range c03Kinds() {
				items = append(items, Item{Name: k.name, MaxDevs: -1, Run: c03Scenario(i)})
			}
			items = append(items, Item{Name: "slices", MaxDevs: -1, Run: c03SliceScenario})
			items = append(items, Item{Name: "slices-into-populated-destination", MaxDevs: -1, Run: c03ReuseScenario})
			// destination independence over the core skeletons (any one unit over its full alphabet, all visit orders)
			items = append(items, coreItems(tier, c03IndependenceScenario, nil, []int{0}, 1)...)
			// the whole destination against the reference model (any two units over their alphabets, all visit orders)
			for _, it := range coreItems(tier, c03ModelDestScenario, nil, []int{0}, 2) {
				it.Name = "model-dest/" + it.Name
				items = append(items, it)
			}
			// the same against a destination whose pointers already point to populated values (any one unit deviating)
			for _, it := range coreItemsFiltered(tier, c03ModelDestScenario, nil, []int{0}, 1, func(ns NamedSkel) bool { return hasPtr(ns.S) }) {
				inner := it.Run
				it.Name = "model-dest-into-populated-pointers/" + it.Name
				it.Run = func(x *mc.X) *mc.Outcome {
					PreallocPtrs = true
					defer func() { PreallocPtrs = false }()
					return inner(x)
				}
				items = append(items, it)
			}
			items = append(items, preprocItem("C03", "destination", "panic"))
			// "...of every Go/JSON/form representation": the record through all eight front ends, untagged and
			// source-tagged, any one unit over the front-end alphabets; reported here: a rendering that yields the same
			// issues as the Go map but another destination
			rf := recordFields(false)
			for _, cfg := range []int{0, 2} {
				tv := uniformTags(rf, cfg)
				for _, fs := range focusSets(skelUnits(recordSkel(FEMap, nil, false), 2), 1) {
					items = append(items, Item{Name: fmt.Sprintf("front-ends/uniform%d/focus{%s}", cfg, strings.Join(fs, ",")), MaxDevs: -1, Run: c03FrontEnds(c14Scenario(tier, tv, fs, false, 2))})
				}
			}
			return items
		},
	})
}

func c03FrontEnds(inner mc.Scenario) mc.Scenario {
	return func(x *mc.X) *mc.Outcome {
		out := inner(x)
		var keep []*mc.Violation
		for _, v := range out.Viol {
			if strings.HasPrefix(v.Key, "C14:dest-differ:") {
				v.Key = "C03:front-end:" + strings.TrimPrefix(v.Key, "C14:")
				keep = append(keep, v)
			}
		}
		out.Viol = keep
		return out
	}
}

// ---------------------------------------------------------------------------
// destination independence over the core space: the result of Parse is a function of (schema, input),
// not of what the destination held before. The same case is parsed into two differently pre-filled
// destinations (different sentinel values; slices with 1 element vs 3 elements and spare capacity);
// after replacing every leaf that still holds its own pre-fill by UNTOUCHED the two must be equal.

func fillSentinelB(v reflect.Value, n *Node) {
	switch n.Kind {
	case KSlice:
		s := reflect.MakeSlice(n.GoType(), 3, 8)
		for i := 0; i < 3; i++ {
			fillSentinelB(s.Index(i), n.Elem)
		}
		v.Set(s)
	case KPtr:
	case KStruct:
		for _, f := range n.Fields {
			fillSentinelB(v.FieldByName(goFieldName(f.Key)), f.N)
		}
		v.FieldByName("ZZextra").SetString("§extraB")
	case KStr:
		v.SetString("§B")
	case KInt:
		v.SetInt(-31337)
	case KFloat:
		v.SetFloat(-31337.25)
	case KBool:
		v.SetBool(true)
	case KTime:
		v.Set(reflect.ValueOf(tSentinl.AddDate(1, 1, 1)))
	}
}

// cmpDest walks two destinations of the same case in parallel: every node is either untouched in both
// (still holds its own pre-fill) or holds the same value in both.
func cmpDest(n *Node, va, pa, vb, pb reflect.Value, path string, why *[]string) {
	ua := pa.IsValid() && canonValue(va) == canonValue(pa)
	ub := pb.IsValid() && canonValue(vb) == canonValue(pb)
	if ua && ub {
		return
	}
	zero := func(v reflect.Value) reflect.Value { return reflect.Zero(v.Type()) }
	switch n.Kind {
	case KPtr:
		if va.IsNil() != vb.IsNil() {
			*why = append(*why, fmt.Sprintf("%s: pointer nil in one destination only", path))
			return
		}
		if va.IsNil() {
			return
		}
		cmpDest(n.Elem, va.Elem(), zero(va.Elem()), vb.Elem(), zero(vb.Elem()), path, why)
	case KStruct:
		for _, f := range n.Fields {
			name := goFieldName(f.Key)
			fpa, fpb := reflect.Value{}, reflect.Value{}
			if pa.IsValid() {
				fpa = pa.FieldByName(name)
			}
			if pb.IsValid() {
				fpb = pb.FieldByName(name)
			}
			cmpDest(f.N, va.FieldByName(name), fpa, vb.FieldByName(name), fpb, joinPath(path, f.Key), why)
		}
		ea, eb := va.FieldByName("ZZextra"), vb.FieldByName("ZZextra")
		if pa.IsValid() && pb.IsValid() {
			if (ea.String() == pa.FieldByName("ZZextra").String()) != (eb.String() == pb.FieldByName("ZZextra").String()) {
				*why = append(*why, path+".ZZextra written in one destination only")
			}
		}
	case KSlice:
		if ua != ub {
			// one destination kept its pre-fill, the other was written
			if !(canonValue(va) == canonValue(vb)) {
				*why = append(*why, fmt.Sprintf("%s: %s vs %s", path, canonValue(va), canonValue(vb)))
			}
			return
		}
		if va.Len() != vb.Len() {
			*why = append(*why, fmt.Sprintf("%s: length %d vs %d", path, va.Len(), vb.Len()))
			return
		}
		for i := 0; i < va.Len(); i++ {
			// elements of a written slice have no pre-fill of their own
			cmpDest(n.Elem, va.Index(i), reflect.Value{}, vb.Index(i), reflect.Value{}, fmt.Sprintf("%s[%d]", path, i), why)
		}
	default:
		if canonValue(va) != canonValue(vb) {
			*why = append(*why, fmt.Sprintf("%s: %s vs %s", path, canonValue(va), canonValue(vb)))
		}
	}
}

func c03IndependenceScenario(a *Alpha, ns NamedSkel, focus []string, elems int) mc.Scenario {
	fm := focusMap(focus)
	return func(x *mc.X) *mc.Outcome {
		zh.Reset()
		c := BuildCase(x, a, ns.S, fm, elems)
		for u := range fm {
			if !c.Touched[u] {
				return &mc.Outcome{Sig: "redundant"}
			}
		}
		run := func(fill func(reflect.Value, *Node), orders [][]int) (reflect.Value, reflect.Value, *Obs, [][]int) {
			zh.Reset()
			rec := &Recorder{Light: true}
			schema := BuildZog(c.Root, rec)
			dest := reflect.New(c.Root.GoType())
			fill(dest.Elem(), c.Root)
			pre := deepCopy(dest.Elem())
			var got [][]int
			if orders == nil {
				installOrderRecorder(x, zh.OrderFree, &got)
			} else {
				zh.Install(x, zh.PoolLIFO, zh.OrderSorted)
				installReplayOrders(orders)
				got = orders
			}
			obs := RunParse(schema, c.Data, dest)
			zh.Reset()
			return dest.Elem(), pre, obs, got
		}
		da, pa, oa, orders := run(fillSentinel, nil)
		db, pb, ob, _ := run(fillSentinelB, orders)
		var why []string
		cmpDest(c.Root, da, pa, db, pb, "", &why)
		out := &mc.Outcome{Traces: 2, Nontrivial: c.NDev > 0, Sig: ns.Name + "|" + canonNoTypes(da)}
		out.LazySample = func() any { return map[string]any{"case": c.Describe(), "destination": canonNoTypes(da)} }
		if oa.Panic != ob.Panic || !eqStrings(oa.IssueStrings(), ob.IssueStrings()) || len(why) > 0 {
			d := c.Describe()
			x.Note("schema: %v", d["schema"])
			x.Note("input: %v", d["input"])
			x.Note("visit orders: %v", orders)
			out.Viol = append(out.Viol, &mc.Violation{Key: "C03:dest-depends-on-prefill:" + ns.Name, What: "the result of Parse depends on what the destination held before the call (stale values survive, or untouched parts are overwritten): " + strings.Join(why, "; "), Expected: fmt.Sprintf("%v %s", oa.IssueStrings(), canonNoTypes(da)), Observed: fmt.Sprintf("%v %s", ob.IssueStrings(), canonNoTypes(db))})
		}
		return out
	}
}

// ---------------------------------------------------------------------------
// the whole destination against the reference model over the core space: when Parse reports no
// issues (and the model expects none), every node of the destination — written leaves, allocated
// and nil pointers, slice lengths, untouched sentinels of absent optional nodes and of fields the
// schema does not name — equals the model's destination.

func hasPtr(s *Skel) bool {
	if s == nil {
		return false
	}
	if s.Kind == KPtr {
		return true
	}
	if hasPtr(s.Elem) {
		return true
	}
	for _, f := range s.Fields {
		if hasPtr(f.S) {
			return true
		}
	}
	return false
}

func c03ModelDestScenario(a *Alpha, ns NamedSkel, focus []string, elems int) mc.Scenario {
	fm := focusMap(focus)
	return func(x *mc.X) *mc.Outcome {
		cr := runCore(x, a, ns.S, fm, elems, zh.OrderFree, false)
		if cr.Redundant {
			return &mc.Outcome{Sig: "redundant"}
		}
		c := cr.Case
		out := &mc.Outcome{Traces: 1, Nontrivial: c.NDev > 0}
		if cr.Real.Panic != "" || len(cr.Real.Issues) > 0 || cr.Spec.has() {
			out.Sig = ns.Name + "|issues"
			return out
		}
		got, want := canonNoTypes(c.Dest.Elem()), canonNoTypes(cr.SpecDest.Elem())
		out.Sig = ns.Name + "|" + want
		out.LazySample = func() any { return map[string]any{"case": c.Describe(), "destination": got} }
		if got != want {
			for _, l := range cr.describe() {
				x.Note("%s", l)
			}
			out.Viol = append(out.Viol, &mc.Violation{Key: "C03:dest-differs-from-model:" + ns.Name, What: "Parse reported no issues but the destination is not what the documented coercion of the input gives (a leaf differs, a pointer was allocated or left nil, a slice has another length, or an untouched part was written)", Expected: want, Observed: got})
		}
		return out
	}
}
