package scen

// C12 — user callbacks run at the documented times with the node's own value.
// Recording tests and PostTransforms at every node of every skeleton, both
// modes, ≤k focus units over (configuration × PostTransform configuration ×
// input); oracle: invocation log (who, argument kind/value, ctx values, order,
// count) == reference model, and every pointer argument is the address of a
// node of the destination.

import (
	"net/http"
	"net/http/httptest"
	"strings"
	"github.com/Oudwins/zog/zhttp"
	"fmt"
	"reflect"

	z "github.com/Oudwins/zog"
	"github.com/Oudwins/zog/conf"
	"github.com/Oudwins/zog/i18n"
	"github.com/Oudwins/zog/i18n/en"
	"github.com/Oudwins/zog/i18n/es"
	"github.com/Oudwins/zog/zconst"
	"zogverif/mc"
	"zogverif/zh"
)

// destAddrs collects the addresses (with types) of all nodes of the destination.
func destAddrs(n *Node, v reflect.Value, out map[uintptr][]reflect.Type) {
	if v.CanAddr() {
		p := v.Addr()
		out[p.Pointer()] = append(out[p.Pointer()], p.Type())
	}
	switch n.Kind {
	case KPtr:
		if !v.IsNil() {
			destAddrs(n.Elem, v.Elem(), out)
		}
	case KStruct:
		for _, f := range n.Fields {
			destAddrs(f.N, v.FieldByName(goFieldName(f.Key)), out)
		}
	case KSlice:
		for i := 0; i < v.Len(); i++ {
			destAddrs(n.Elem, v.Index(i), out)
		}
	}
}

func c12Scenario(a *Alpha, ns NamedSkel, focus []string, elems int) mc.Scenario {
	fm := focusMap(focus)
	return func(x *mc.X) *mc.Outcome {
		zh.Reset()
		c := BuildCase(x, a, ns.S, fm, elems)
		for u := range fm {
			if !c.Touched[u] {
				return &mc.Outcome{Sig: "redundant"}
			}
		}
		rec := &Recorder{CtxKeys: []string{"k1", "k2", "k3", "lang"}}
		schema := BuildZog(c.Root, rec)
		var orders [][]int
		installOrderRecorder(x, zh.OrderFree, &orders)
		opts := []z.ExecOption{z.WithCtxValue("k1", "v1"), z.WithCtxValue("k2", 2)}
		ctxStr := "k1=v1,k2=2,k3=<nil>,lang=<nil>"
		if len(focus) <= 1 {
			cv := x.Choose(9, "ctxValues")
			switch cv {
			case 6:
				// what the process did before: a top-level optional record was fed a request whose body cannot be decoded
				// (whatever that execution recycled is what this one is built from)
				var gone *struct{ A string }
				req := httptest.NewRequest(http.MethodPost, "/", strings.NewReader(`{"a":`))
				req.Header.Set("Content-Type", "application/json")
				z.Ptr(z.Struct(z.Schema{"a": z.String()})).Parse(zhttp.Request(req), &gone)
			case 4, 5:
				// i18n installed; the call names a language that is not installed (4) or none (5): messages fall back to the
				// default language, but what callbacks read from the context stays exactly what the call passed
				saved := conf.IssueFormatter
				i18n.SetLanguagesErrsMap(map[string]zconst.LangMap{"en": en.Map, "es": es.Map}, "en")
				defer func() { conf.IssueFormatter = saved }()
				if cv == 4 {
					opts = append(opts, z.WithCtxValue("lang", "fr"))
					ctxStr = "k1=v1,k2=2,k3=<nil>,lang=fr"
				}
			case 1:
				// an earlier call passes values; the call under test passes none and must see none
				var tmp string
				z.String().Parse("prime", &tmp, z.WithCtxValue("k1", "stale"), z.WithCtxValue("k3", "stale3"))
				opts, ctxStr = nil, "k1=<nil>,k2=<nil>,k3=<nil>,lang=<nil>"
			case 7:
				// defaults first, then the caller clears one of them: a later nil for the same key is the value passed last
				opts = []z.ExecOption{z.WithCtxValue("k1", "v1"), z.WithCtxValue("k2", 2), z.WithCtxValue("k3", "default3"), z.WithCtxValue("k2", nil), z.WithCtxValue("k3", nil)}
				ctxStr = "k1=v1,k2=<nil>,k3=<nil>,lang=<nil>"
			case 8:
				// falsy values are values: "", 0 and false are what Get returns, and a nil first is replaced by what follows
				opts = []z.ExecOption{z.WithCtxValue("k1", nil), z.WithCtxValue("k2", 7), z.WithCtxValue("k1", ""), z.WithCtxValue("k2", 0), z.WithCtxValue("k3", false)}
				ctxStr = "k1=,k2=0,k3=false,lang=<nil>"
			case 2:
				// defaults first, then the caller's override of the FIRST key: Get returns exactly the values passed, the later one
				opts = []z.ExecOption{z.WithCtxValue("k1", "default"), z.WithCtxValue("k2", 2), z.WithCtxValue("k1", "v1")}
			case 3:
				// override of a later key, and a single value
				opts = []z.ExecOption{z.WithCtxValue("k2", "default"), z.WithCtxValue("k1", "v1"), z.WithCtxValue("k2", 2), z.WithCtxValue("k2", 2)}
			}
		}
		var real *Obs
		var pre reflect.Value
		if a.Mode == 0 {
			real = RunParse(schema, c.Data, c.Dest, opts...)
		} else {
			pre = deepCopy(c.Dest.Elem())
			real = RunValidate(schema, c.Dest, opts...)
		}
		zh.Reset()
		st := &specState{orders: orders, wantLog: true, ctxStr: ctxStr}
		md := reflect.New(c.Root.GoType())
		if a.Mode == 0 {
			fillSentinel(md.Elem(), c.Root)
			st.specParse(c.Root, c.Data, md.Elem(), "")
		} else {
			md.Elem().Set(pre)
			st.specValidate(c.Root, md.Elem(), "")
		}
		got := rec.Strings()
		out := &mc.Outcome{Traces: 1, Nontrivial: c.NDev > 0}
		out.Sig = fmt.Sprintf("%s|%d|%v", ns.Name, a.Mode, st.log)
		out.LazySample = func() any {
			return map[string]any{"case": c.Describe(), "orders": orders, "callback_log": got, "issues": real.IssueStrings()}
		}
		mode := []string{"Parse", "Validate"}[a.Mode]
		note := func() {
			d := c.Describe()
			x.Note("schema: %v", d["schema"])
			x.Note("mode: %v input/value: %v%v", d["mode"], d["input"], d["value"])
			x.Note("visit orders: %v", orders)
		}
		if real.Panic != "" {
			note()
			out.Viol = append(out.Viol, &mc.Violation{Key: "C12:panic:" + mode + ":" + firstLine(real.Panic), What: "call panicked", Observed: real.Panic})
			return out
		}
		if !eqStrings(st.log, got) {
			note()
			// classify by the first differing entry
			i := 0
			for i < len(st.log) && i < len(got) && st.log[i] == got[i] {
				i++
			}
			w, g := "<end>", "<end>"
			if i < len(st.log) {
				w = st.log[i]
			}
			if i < len(got) {
				g = got[i]
			}
			out.Viol = append(out.Viol, &mc.Violation{
				Key:      "C12:log:" + mode + ":" + c12Class(w, g),
				What:     fmt.Sprintf("callback invocations differ from the specification at entry %d: expected %s, got %s", i, w, g),
				Expected: fmt.Sprint(st.log),
				Observed: fmt.Sprint(got),
			})
			return out
		}
		// pointer arguments must be addresses of destination nodes
		addrs := map[uintptr][]reflect.Type{}
		destAddrs(c.Root, c.Dest.Elem(), addrs)
		for _, e := range rec.Events {
			if !e.IsPtr || e.Nil {
				continue
			}
			ok := false
			for _, t := range addrs[e.Addr] {
				if t == e.AType {
					ok = true
				}
			}
			if !ok {
				note()
				out.Viol = append(out.Viol, &mc.Violation{Key: "C12:ptr-identity:" + mode, What: fmt.Sprintf("callback %s received a pointer that is not the address of a node of the destination", e.Who), Expected: "address of the destination node", Observed: fmt.Sprintf("%s %#x", e.AType, e.Addr)})
				return out
			}
		}
		// issues (including PostTransform errors) as specified
		want := st.sortedFor(c.Root)
		gi := real.IssueStrings()
		if !eqStrings(want, gi) {
			note()
			out.Viol = append(out.Viol, &mc.Violation{Key: "C12:issues:" + mode + ":" + diffKey(want, gi), What: "issues (incl. those wrapping PostTransform errors) differ from the specification", Expected: fmt.Sprint(want), Observed: fmt.Sprint(gi)})
		}
		return out
	}
}

func c12Class(w, g string) string {
	kind := func(s string) string {
		switch {
		case s == "<end>":
			return "none"
		case contains(s, "nil=true"):
			return "nil-arg"
		case contains(s, ".post"):
			return "post"
		default:
			return "test"
		}
	}
	return kind(w) + "->" + kind(g)
}

func init() {
	Register(&Prop{
		ID:    "C12",
		Rule:  "one execution = one core case where every node carries recording tests and PostTransforms; ≤k focus units range over configuration {plain, required, catch, default, two tests} × PostTransform configuration {one, none, two, first errors, second errors, first returns *ZogIssue} × input {valid, missing, failing, uncoercible}, all field visit orders, both modes, with two WithCtxValue keys / with none after an earlier call that passed some / with a key passed twice in one call (the later value counts) / with i18n installed and a language that is not installed, or none, named by the call; the invocation log (callback, argument value, pointer-ness, ctx.Get values, order, count), pointer identity with destination nodes and the issues are compared with the reference model; non-trivial = deviating case; distinct = distinct (skeleton, mode, expected log). plus " + layoutRule,
		Floor: 50,
		Bound: func(tier string) string {
			k, e := coreK(tier)
			return fmt.Sprintf("k=%d focus units, %d skeletons (depth ≤3), %d elements per slice, all visit orders, both modes", k, len(coreSkeletons(tier)), e)
		},
		Assumptions: []string{
			"reference model: PostTransforms run at node exit in declaration order only if the execution has no issue at that moment; first error stops the node's remaining PostTransforms and is reported at the node's path; a returned *ZogIssue is reported (wrapped by struct Parse, as is elsewhere)",
			"Custom and Preprocess schemas are covered by the dedicated items custom/*, preprocess/*",
		},
		Items: func(tier string) []Item {
			items := coreItems(tier, c12Scenario, func(a *Alpha) { a.WithPost = true; a.Lite = true }, []int{0, 1}, 2) // no k=3 triples: the PostTransform dimension already multiplies every unit by 6
			// the same units with the custom test of Int nodes filing its issue through the deprecated Ctx.NewError
			for _, it := range coreItemsFiltered(tier, c12Scenario, func(a *Alpha) { a.WithPost = true; a.Lite = true; a.OldIface = true }, []int{0, 1}, 1, nil) {
				it.Name = "old-interface/" + it.Name
				items = append(items, it)
			}
			items = append(items, c12ExtraItems()...)
			// callbacks get the value of their own node also when the schema object met another destination type before
			items = append(items, layoutItems(tier, "C12", "panic", "issues", "issues-missing", "destination", "callbacks")...)
			return items
		},
	})
}
