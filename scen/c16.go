package scen

// C16 — Pick, Omit, Extend and Merge build independent schemas with set
// semantics. Search over builder histories on ≤3 live schemas; after every
// event every live schema (operands included) must behave on a probe set
// exactly like the hand-built equivalent kept by the reference model (plain
// immutable lists and maps).

import (
	"fmt"
	"reflect"
	"sort"
	"strings"

	z "github.com/Oudwins/zog"
	"zogverif/mc"
	"zogverif/zh"
)

type c16Field struct {
	spec    string // which field schema
	valid   any
	invalid any
	code    string
}

var c16Specs = map[string]c16Field{
	"a":  {"a", "abcdef", "x", "min"},
	"a5": {"a5", "abcdef", "abc", "min"},
	"b":  {"b", 5, -1, "gt"},
	"c":  {"c", true, false, "eq"},
	"d":  {"d", "dd", "d", "min"},
	"e":  {"e", "ee", "e", "min"},
}

func c16Build(spec string) z.ZogSchema {
	switch spec {
	case "a":
		return z.String().Min(3)
	case "a5":
		return z.String().Min(5)
	case "b":
		return z.Int().GT(0)
	case "c":
		return z.Bool().True()
	case "d", "e":
		return z.String().Min(2)
	}
	panic("spec")
}

// model of one live schema
type c16Model struct {
	fields map[string]string // key -> spec
	tests  []int
	posts  []int
}

func (m *c16Model) clone() *c16Model {
	n := &c16Model{fields: map[string]string{}}
	for k, v := range m.fields {
		n.fields[k] = v
	}
	n.tests = append([]int(nil), m.tests...)
	n.posts = append([]int(nil), m.posts...)
	return n
}

func (m *c16Model) String() string {
	var ks []string
	for k, v := range m.fields {
		ks = append(ks, k+":"+v)
	}
	sort.Strings(ks)
	return fmt.Sprintf("{%s tests=%v posts=%v}", strings.Join(ks, ","), m.tests, m.posts)
}

type c16Dest struct {
	A  string
	B  int
	C  bool
	D  string
	E1 string
	E2 string
	E3 string
	E4 string
	E5 string
	E6 string
	E7 string
	E8 string
}

type c16World struct {
	mixin  z.Schema // one Schema value handed to several Extend calls (an operand: must never change)
	live   []*z.StructSchema
	models []*c16Model
	log    *[]string
	nextID int
	paths  map[int]string // IssuePath of the struct-level tests declared through mkTest
}

// c16TestPath: struct-level tests are cross-field tests; three in four file their issue under a field's name
// (IssuePath), whether or not a derived schema still has that field.
func c16TestPath(id int) string {
	paths := []string{"", "a", "b", "c"}
	return paths[(id/2)%4]
}

func (w *c16World) mkTest(id int) z.Test {
	log := w.log
	t := z.TestFunc(fmt.Sprintf("t%d", id), func(v any, ctx z.Ctx) bool {
		*log = append(*log, fmt.Sprintf("t%d", id))
		return id%2 == 0
	})
	t.IssuePath = c16TestPath(id)
	if w.paths == nil {
		w.paths = map[int]string{}
	}
	w.paths[id] = t.IssuePath
	return t
}

func (w *c16World) mkPost(id int) z.PostTransform {
	log := w.log
	return func(p any, ctx z.Ctx) error {
		*log = append(*log, fmt.Sprintf("p%d", id))
		return nil
	}
}

// probe runs schema i on an input built from the model's field set and compares with the model.
func (w *c16World) probe(i int, failing string) (string, string) {
	m := w.models[i]
	data := map[string]any{}
	var wantIssues []string
	for k, spec := range m.fields {
		f := c16Specs[spec]
		if k == failing {
			data[k] = f.invalid
			wantIssues = append(wantIssues, fmt.Sprintf("%s|%s", k, f.code))
		} else {
			data[k] = f.valid
		}
	}
	var wantLog []string
	for _, t := range m.tests {
		wantLog = append(wantLog, fmt.Sprintf("t%d", t))
		if t%2 != 0 {
			key := w.paths[t] // only tests declared through mkTest carry an IssuePath
			if key == "" {
				key = "$root"
			}
			wantIssues = append(wantIssues, fmt.Sprintf("%s|t%d", key, t))
		}
	}
	if len(wantIssues) == 0 {
		for _, p := range m.posts {
			wantLog = append(wantLog, fmt.Sprintf("p%d", p))
		}
	}
	sort.Strings(wantIssues)
	*w.log = (*w.log)[:0]
	var d c16Dest
	var gotIssues []string
	var panicMsg string
	func() {
		defer func() {
			if r := recover(); r != nil {
				if he, ok := r.(mc.HarnessError); ok {
					panic(he)
				}
				panicMsg = fmt.Sprint(r)
			}
		}()
		res := w.live[i].Parse(data, &d)
		for k, l := range res {
			if k == "$first" {
				continue
			}
			for _, is := range l {
				gotIssues = append(gotIssues, fmt.Sprintf("%s|%s", k, is.Code))
			}
		}
	}()
	sort.Strings(gotIssues)
	want := fmt.Sprintf("issues=%v log=%v", wantIssues, wantLog)
	got := fmt.Sprintf("issues=%v log=%v", gotIssues, *w.log)
	if panicMsg != "" {
		got = "PANIC " + panicMsg
	}
	// values of the model's fields must have been parsed (on success)
	if panicMsg == "" && len(gotIssues) == 0 {
		for k, spec := range m.fields {
			f := c16Specs[spec]
			var gv any
			switch k {
			case "a":
				gv = d.A
			case "b":
				gv = d.B
			case "c":
				gv = d.C
			case "d":
				gv = d.D
			default:
				gv = reflect.ValueOf(d).FieldByName(strings.ToUpper(k)).Interface()
			}
			if gv != f.valid {
				got += fmt.Sprintf(" dest.%s=%v", k, gv)
			}
		}
	}
	return want, got
}

func c16Scenario(depth, k, p int) mc.Scenario { return c16ScenarioFiltered(depth, k, p, nil) }

// c16ScenarioFiltered: the same histories over a sub-alphabet of operations (keep == nil: all of them).
func c16ScenarioFiltered(depth, k, p int, keep func(op string) bool) mc.Scenario {
	return func(x *mc.X) *mc.Outcome {
		zh.Reset()
		zh.Install(x, zh.PoolLIFO, zh.OrderSorted)
		var log []string
		w := &c16World{log: &log}
		w.mixin = z.Schema{"b": c16Build("b"), "c": c16Build("c"), "d": c16Build("d")}
		mixinKeys := func() string {
			var ks []string
			for k := range w.mixin {
				ks = append(ks, k)
			}
			sort.Strings(ks)
			return strings.Join(ks, ",")
		}
		mixin0 := mixinKeys()
		// base schema with k tests and p PostTransforms appended one by one (capacities 0,1,2,4)
		base := z.Struct(z.Schema{"a": c16Build("a"), "b": c16Build("b"), "c": c16Build("c")})
		bm := &c16Model{fields: map[string]string{"a": "a", "b": "b", "c": "c"}}
		for i := 0; i < k; i++ {
			id := w.nextID * 2 // base tests pass (even ids)
			w.nextID++
			base.Test(w.mkTest(id))
			bm.tests = append(bm.tests, id)
		}
		for i := 0; i < p; i++ {
			id := w.nextID
			w.nextID++
			base.PostTransform(w.mkPost(id))
			bm.posts = append(bm.posts, id)
		}
		w.live = append(w.live, base)
		w.models = append(w.models, bm)
		hist := []string{fmt.Sprintf("base: Struct{a,b,c} with %d tests, %d posts", k, p)}
		out := &mc.Outcome{Nontrivial: true}
		check := func() bool {
			if now := mixinKeys(); now != mixin0 {
				x.Note("history: %s", strings.Join(hist, " ; "))
				out.Viol = append(out.Viol, &mc.Violation{Key: "C16:operand-modified:" + c16LastOp(hist), What: "the Schema value passed to Extend (an operand) was modified", Expected: "fields " + mixin0, Observed: "fields " + now})
				return false
			}
			for i := range w.live {
				var keys []string
				for kk := range w.models[i].fields {
					keys = append(keys, kk)
				}
				sort.Strings(keys)
				probes := []string{""}
				if len(keys) > 0 {
					probes = append(probes, keys[0])
				}
				for _, failing := range probes {
					want, got := w.probe(i, failing)
					out.Traces++
					if want != got {
						x.Note("history: %s", strings.Join(hist, " ; "))
						x.Note("schema #%d model %s, probe failing field %q", i, w.models[i], failing)
						kind := "log"
						if strings.HasPrefix(got, "PANIC") {
							kind = "panic"
						} else if strings.SplitN(want, " log=", 2)[0] != strings.SplitN(got, " log=", 2)[0] {
							kind = "issues"
						}
						out.Viol = append(out.Viol, &mc.Violation{
							Key:      "C16:" + kind + ":" + c16LastOp(hist),
							What:     fmt.Sprintf("live schema #%d does not behave like its hand-built equivalent after: %s", i, hist[len(hist)-1]),
							Expected: want,
							Observed: got,
						})
						return false
					}
				}
			}
			return true
		}
		if !check() {
			out.Sig = "viol"
			return out
		}
		for step := 0; step < depth; step++ {
			if x.Choose(2, "more") == 0 {
				break
			}
			i := x.Choose(len(w.live), "schema")
			m := w.models[i]
			s := w.live[i]
			type op struct {
				name string
				do   func()
			}
			derive := func(ns *z.StructSchema, nm *c16Model) {
				w.live = append(w.live, ns)
				w.models = append(w.models, nm)
			}
			var ops []op
			canDerive := len(w.live) < 3
			_, hasA := m.fields["a"]
			_, hasB := m.fields["b"]
			_, hasC := m.fields["c"]
			if canDerive {
				if hasA {
					ops = append(ops, op{"Pick(a)", func() {
						nm := m.clone()
						nm.fields = map[string]string{"a": m.fields["a"]}
						derive(s.Pick("a"), nm)
					}})
					ops = append(ops, op{"Omit(a)", func() {
						nm := m.clone()
						delete(nm.fields, "a")
						derive(s.Omit("a"), nm)
					}})
				}
				if hasA && hasB && hasC {
					ops = append(ops, op{"Pick(map{a:true,b:false,c:true})", func() {
						nm := m.clone()
						nm.fields = map[string]string{"a": m.fields["a"], "c": m.fields["c"]}
						derive(s.Pick(map[string]bool{"a": true, "b": false, "c": true}), nm)
					}})
				}
				if hasA && hasB {
					ops = append(ops, op{"Pick(a, map{a:false,b:true})", func() {
						nm := m.clone()
						nm.fields = map[string]string{"a": m.fields["a"], "b": m.fields["b"]}
						derive(s.Pick("a", map[string]bool{"a": false, "b": true}), nm)
					}})
					ops = append(ops, op{"Omit(a, map{a:false}, b)", func() {
						nm := m.clone()
						delete(nm.fields, "a")
						delete(nm.fields, "b")
						derive(s.Omit("a", map[string]bool{"a": false}, "b"), nm)
					}})
				}
				if hasB {
					ops = append(ops, op{"Omit(map{b:true,c:false})", func() {
						nm := m.clone()
						delete(nm.fields, "b")
						derive(s.Omit(map[string]bool{"b": true, "c": false}), nm)
					}})
				}
				// operations that remove / select / add nothing: still a new, independent schema
				ops = append(ops, op{"Omit()", func() { derive(s.Omit(), m.clone()) }})
				ops = append(ops, op{"Omit(zz)", func() { derive(s.Omit("zz"), m.clone()) }})
				// a shared list of names to hide, longer than the schema has fields and mostly naming none of them
				ops = append(ops, op{"Omit(zz, zy, zx, zw, zv, zu)", func() { derive(s.Omit("zz", "zy", "zx", "zw", "zv", "zu"), m.clone()) }})
				if hasA {
					ops = append(ops, op{"Omit(a, zz, zy, zx, zw, zv)", func() {
						nm := m.clone()
						delete(nm.fields, "a")
						derive(s.Omit("a", "zz", "zy", "zx", "zw", "zv"), nm)
					}})
				}
				ops = append(ops, op{"Omit(map{a:false,zz:true})", func() { derive(s.Omit(map[string]bool{"a": false, "zz": true}), m.clone()) }})
				ops = append(ops, op{"Extend({})", func() { derive(s.Extend(z.Schema{}), m.clone()) }})
				if hasA && hasB && hasC && len(m.fields) == 3 {
					ops = append(ops, op{"Pick(a,b,c)", func() { derive(s.Pick("a", "b", "c"), m.clone()) }})
				}
				ops = append(ops, op{"Merge(fresh Struct{})", func() { derive(s.Merge(z.Struct(z.Schema{})), m.clone()) }})
				// a nil field map is a valid field-less schema (z.Struct(nil), an uninitialised z.Schema variable)
				ops = append(ops, op{"Merge(Struct(nil))", func() { derive(s.Merge(z.Struct(nil)), m.clone()) }})
				ops = append(ops, op{"Extend(nil)", func() { derive(s.Extend(nil), m.clone()) }})
				for vi, via := range []string{"Extend({d})", "Omit(zz).Extend({d})", "Extend({}).Merge(Struct{d})", "Merge(Struct(nil)).Extend({d})", "Pick().Extend({d})"} {
					vi := vi
					ops = append(ops, op{"new schema: Struct(nil)." + via, func() {
						nb := z.Struct(nil)
						d := z.Schema{"d": c16Build("d")}
						var ns *z.StructSchema
						switch vi {
						case 0:
							ns = nb.Extend(d)
						case 1:
							ns = nb.Omit("zz").Extend(d)
						case 2:
							ns = nb.Extend(z.Schema{}).Merge(z.Struct(d))
						case 3:
							ns = nb.Merge(z.Struct(nil)).Extend(d)
						default:
							ns = nb.Pick().Extend(d)
						}
						derive(ns, &c16Model{fields: map[string]string{"d": "d"}})
					}})
				}
				ops = append(ops, op{"Extend(shared mixin {b,c,d})", func() {
					nm := m.clone()
					nm.fields["b"], nm.fields["c"], nm.fields["d"] = "b", "c", "d"
					derive(s.Extend(w.mixin), nm)
				}})
				ops = append(ops, op{"Extend({d})", func() {
					nm := m.clone()
					nm.fields["d"] = "d"
					derive(s.Extend(z.Schema{"d": c16Build("d")}), nm)
				}})
				// a key that differs from an existing one only in the case of its first letter: both name the same Go field, and
				// both are fields of the result (exactly the union of the keys)
				ops = append(ops, op{"Extend({A:Min(5)})", func() {
					nm := m.clone()
					nm.fields["A"] = "a5"
					derive(s.Extend(z.Schema{"A": c16Build("a5")}), nm)
				}})
				ops = append(ops, op{"Merge(fresh Struct{A:Min(5)})", func() {
					nm := m.clone()
					nm.fields["A"] = "a5"
					derive(s.Merge(z.Struct(z.Schema{"A": c16Build("a5")})), nm)
				}})
				ops = append(ops, op{"Extend({a:Min(5)})", func() {
					nm := m.clone()
					nm.fields["a"] = "a5"
					derive(s.Extend(z.Schema{"a": c16Build("a5")}), nm)
				}})
				for j := range w.live {
					j := j
					ops = append(ops, op{fmt.Sprintf("Merge(#%d)", j), func() {
						o := w.models[j]
						nm := m.clone()
						for kk, v := range o.fields {
							nm.fields[kk] = v
						}
						nm.tests = append(nm.tests, o.tests...)
						nm.posts = append(nm.posts, o.posts...)
						derive(s.Merge(w.live[j]), nm)
					}})
				}
				// an operand larger than anything else in play (nine fields), one of them redefining "a": later operands win
				ops = append(ops, op{"Merge(fresh nine-field Struct{a:Min(5), e1..e8})", func() {
					sc := z.Schema{"a": c16Build("a5")}
					nm := m.clone()
					nm.fields["a"] = "a5"
					for i := 1; i <= 8; i++ {
						k := fmt.Sprintf("e%d", i)
						sc[k] = c16Build("e")
						nm.fields[k] = "e"
					}
					derive(s.Merge(z.Struct(sc)), nm)
				}})
				for nt := 0; nt <= 1; nt++ {
					nt := nt
					ops = append(ops, op{fmt.Sprintf("Merge(fresh Struct{d} with %d tests)", nt), func() {
						fresh := z.Struct(z.Schema{"d": c16Build("d")})
						nm := m.clone()
						nm.fields["d"] = "d"
						for k := 0; k < nt; k++ {
							id := w.nextID*2 + 1 // failing test: its issue shows whose test ran
							w.nextID++
							log := w.log
							fresh.TestFunc(func(v any, ctx z.Ctx) bool {
								*log = append(*log, fmt.Sprintf("t%d", id))
								return false
							}, z.IssueCode(fmt.Sprintf("t%d", id)))
							nm.tests = append(nm.tests, id)
						}
						fresh.PostTransform(w.mkPost(w.nextID))
						nm.posts = append(nm.posts, w.nextID)
						w.nextID++
						derive(s.Merge(fresh), nm)
					}})
				}
				// several operands in one call; an operand without fields still contributes its tests and transforms
				for j := range w.live {
					j := j
					for _, first := range []bool{true, false} {
						first := first
						ops = append(ops, op{fmt.Sprintf("Merge(#%d and a field-less schema with a failing test and a PostTransform; field-less first=%v)", j, first), func() {
							rules := z.Struct(z.Schema{})
							nm := m.clone()
							o := w.models[j]
							id := w.nextID*2 + 1
							w.nextID++
							log := w.log
							rules.TestFunc(func(v any, ctx z.Ctx) bool {
								*log = append(*log, fmt.Sprintf("t%d", id))
								return false
							}, z.IssueCode(fmt.Sprintf("t%d", id)))
							pid := w.nextID
							w.nextID++
							rules.PostTransform(w.mkPost(pid))
							addOther := func() {
								for kk, v := range o.fields {
									nm.fields[kk] = v
								}
								nm.tests = append(nm.tests, o.tests...)
								nm.posts = append(nm.posts, o.posts...)
							}
							addRules := func() {
								nm.tests = append(nm.tests, id)
								nm.posts = append(nm.posts, pid)
							}
							if first {
								addRules()
								addOther()
								derive(s.Merge(rules, w.live[j]), nm)
							} else {
								addOther()
								addRules()
								derive(s.Merge(w.live[j], rules), nm)
							}
						}})
					}
				}
				if len(w.live) == 2 {
					ops = append(ops, op{"Merge(#0,#1)", func() {
						nm := m.clone()
						for _, j := range []int{0, 1} {
							o := w.models[j]
							for kk, v := range o.fields {
								nm.fields[kk] = v
							}
							nm.tests = append(nm.tests, o.tests...)
							nm.posts = append(nm.posts, o.posts...)
						}
						derive(s.Merge(w.live[0], w.live[1]), nm)
					}})
				}
			}
			ops = append(ops, op{"Test(pass)", func() {
				id := w.nextID * 2
				w.nextID++
				s.Test(w.mkTest(id))
				m.tests = append(m.tests, id)
			}})
			ops = append(ops, op{"TestFunc(fail)", func() {
				id := w.nextID*2 + 1
				w.nextID++
				log := w.log
				s.TestFunc(func(v any, ctx z.Ctx) bool {
					*log = append(*log, fmt.Sprintf("t%d", id))
					return false
				}, z.IssueCode(fmt.Sprintf("t%d", id)))
				m.tests = append(m.tests, id)
			}})
			ops = append(ops, op{"PostTransform", func() {
				id := w.nextID
				w.nextID++
				s.PostTransform(w.mkPost(id))
				m.posts = append(m.posts, id)
			}})
			if keep != nil {
				var kept []op
				for _, o := range ops {
					if keep(o.name) {
						kept = append(kept, o)
					}
				}
				ops = kept
			}
			oi := x.Choose(len(ops), "op")
			hist = append(hist, fmt.Sprintf("#%d.%s", i, ops[oi].name))
			if msg := func() (msg string) {
				defer func() {
					if r := recover(); r != nil {
						msg = firstLine(fmt.Sprint(r))
					}
				}()
				ops[oi].do()
				return ""
			}(); msg != "" {
				x.Note("history: %s", strings.Join(hist, " ; "))
				out.Viol = append(out.Viol, &mc.Violation{Key: "C16:panic:" + c16LastOp(hist), What: "a derivation of a well-formed schema panicked", Expected: "a new schema", Observed: msg})
				break
			}
			if !check() {
				break
			}
		}
		zh.Reset()
		var ms []string
		for _, m := range w.models {
			ms = append(ms, m.String())
		}
		out.Sig = strings.Join(ms, " ")
		out.LazySample = func() any { return map[string]any{"history": hist, "live_schemas": ms} }
		return out
	}
}

func c16LastOp(hist []string) string {
	last := hist[len(hist)-1]
	if i := strings.Index(last, "."); i >= 0 {
		last = last[i+1:]
	}
	if i := strings.Index(last, "("); i >= 0 {
		last = last[:i]
	}
	return last
}

func c16Depth(tier string) int {
	if tier == "thorough" {
		return 5
	}
	return 3
}

func init() {
	Register(&Prop{
		ID:    "C16",
		Rule:  "one execution = one builder history: base Struct{a,b,c} with 0..3 tests and 0..2 PostTransforms appended one by one (capacities 0,1,2,4), then ≤depth events, each applied to any of ≤3 live schemas from {Pick(keys|map), Omit(keys|map), Extend(new field | overriding field | a key differing from an existing one only in the case of its first letter | one shared three-field Schema value reused by every such call | nothing), Merge(other live schema | a fresh one-field schema with 0..1 tests and a PostTransform | a fresh nine-field schema that redefines a field | two operands one of which has no fields but a failing test and a PostTransform, in either position [, more]), Test, TestFunc, PostTransform}; after every event every live schema is probed (all fields valid; first field failing) on the real code and compared with the model's hand-built equivalent (tests run, their order, PostTransforms run, issues, destination). every history is non-trivial; distinct = distinct final model states of all live schemas",
		Floor: 50,
		Bound: func(tier string) string { return fmt.Sprintf("all histories of depth ≤%d over ≤3 live schemas", c16Depth(tier)) },
		Assumptions: []string{
			"reference model: fields as a plain map, tests/posts as immutable lists; later operands win; Merge concatenates in operand order",
			"Pick of a key the operand does not have is misconfiguration and outside the alphabet",
		},
		Items: func(tier string) []Item {
			var items []Item
			for k := 0; k < 4; k++ {
				for p := 0; p < 3; p++ {
					items = append(items, Item{Name: fmt.Sprintf("histories/base-tests=%d,posts=%d", k, p), MaxDevs: -1, Run: c16Scenario(c16Depth(tier), k, p)})
				}
			}
			// longer histories (5 events) over the operations that only derive and append: Pick / Omit / Extend that change
			// nothing, then Test / TestFunc / PostTransform on any live schema — bases with 3 tests and 3 transforms
			// (slices with spare capacity)
			if tier != "thorough" {
				appendOnly := func(op string) bool {
					switch op {
					case "Pick(a,b,c)", "Omit()", "Extend({})", "Test(pass)", "TestFunc(fail)", "PostTransform":
						return true
					}
					return false
				}
				items = append(items, Item{Name: "histories/append-only/base-tests=3,posts=3", MaxDevs: -1, Run: c16ScenarioFiltered(5, 3, 3, appendOnly)})
			}
			items = append(items, Item{Name: "records-through-tagged-front-ends", MaxDevs: -1, Run: c16RecordsScenario})
			items = append(items, Item{Name: "operands-from-a-caller-owned-list", MaxDevs: -1, Run: c16OperandListScenario})
			items = append(items, Item{Name: "names-that-are-not-keys", MaxDevs: -1, Run: c16ForeignNamesScenario})
			return items
		},
	})
}
