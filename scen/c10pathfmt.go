package scen

// C10 (continued): formatters are handed the issue before it is filed and may rewrite it — also its Path
// (prefixing the record's name in a larger document, translating a tag). The returned map must then be keyed
// by the path the issue carries: "an issue is stored under its own path" whatever wrote that path.

import (
	"fmt"
	"sort"
	"strings"

	z "github.com/Oudwins/zog"
	"github.com/Oudwins/zog/conf"
	"zogverif/mc"
	"zogverif/zh"
)

type c10PFAddr struct{ Tags []string }
type c10PFDest struct {
	Name string
	Age  int
	Addr c10PFAddr
}

func c10PathFormatterScenario(x *mc.X) *mc.Outcome {
	zh.Reset()
	zh.Install(x, zh.PoolLIFO, zh.OrderFree)
	how := x.Choose(3, "installed") // 0 WithIssueFormatter, 1 conf.IssueFormatter, 2 a test-level MessageFunc on every test
	mode := x.Choose(2, "mode")
	rewrite := x.Choose(3, "rewrite") // 0 prefix "user.", 1 upper-case, 2 prefix only for list items
	fm := func(e *z.ZogIssue, c z.Ctx) {
		switch rewrite {
		case 0:
			e.Path = "user." + e.Path
		case 1:
			e.Path = strings.ToUpper(e.Path)
		default:
			if strings.HasSuffix(e.Path, "]") {
				e.Path = "item:" + e.Path
			}
		}
		e.SetMessage("rewritten " + e.Code)
	}
	var topts []z.TestOption
	if how == 2 {
		topts = append(topts, z.MessageFunc(fm))
	}
	s := z.Struct(z.Schema{
		"name": z.String().Min(3, topts...),
		"age":  z.Int().GT(5, topts...),
		"addr": z.Struct(z.Schema{"tags": z.Slice(z.String().Min(2, topts...)).Max(1, topts...)}),
	})
	var eopts []z.ExecOption
	if how == 0 {
		eopts = append(eopts, z.WithIssueFormatter(fm))
	}
	if how == 1 {
		saved := conf.IssueFormatter
		conf.IssueFormatter = fm
		defer func() { conf.IssueFormatter = saved }()
	}
	var m z.ZogIssueMap
	pmsg := func() (msg string) {
		defer func() {
			if r := recover(); r != nil {
				msg = firstLine(fmt.Sprint(r))
			}
		}()
		var d c10PFDest
		if mode == 0 {
			m = s.Parse(map[string]any{"name": "ab", "age": 1, "addr": map[string]any{"tags": []any{"ok", "x"}}}, &d, eopts...)
		} else {
			d = c10PFDest{Name: "ab", Age: 1, Addr: c10PFAddr{Tags: []string{"ok", "x"}}}
			m = s.Validate(&d, eopts...)
		}
		return ""
	}()
	zh.Reset()
	var keys []string
	for k := range m {
		keys = append(keys, k)
	}
	sort.Strings(keys)
	out := &mc.Outcome{Traces: 1, Nontrivial: true, Sig: fmt.Sprintf("pathfmt|%d|%d|%d|%v", how, mode, rewrite, keys)}
	out.Sample = map[string]any{"installed": how, "mode": mode, "rewrite": rewrite, "keys": keys}
	bad := pmsg
	if bad == "" {
		bad = c10Invariants(m)
	}
	if bad == "" && len(keys) != 5 { // $first + name, age, addr.tags, addr.tags[1] under their rewritten spellings
		bad = fmt.Sprintf("expected four issue keys and $first, got %v", keys)
	}
	if bad != "" {
		x.Note("formatter installed %d (0 WithIssueFormatter, 1 conf.IssueFormatter, 2 MessageFunc on every test) rewrites the path (%d: 0 prefix user., 1 upper case, 2 prefix for list items only); mode %d", how, rewrite, mode)
		out.Viol = append(out.Viol, &mc.Violation{Key: fmt.Sprintf("C10:path-rewriting-formatter:%d", how), What: "with a formatter that rewrites issue paths the returned map is not keyed by the paths the issues carry", Expected: "every issue under the key equal to its Path", Observed: bad + " " + fmt.Sprint(keys)})
	}
	return out
}
