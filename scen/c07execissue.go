package scen

// C07 (continued): a formatter (execution-level or process-wide) asks its context for a fresh issue
// (`ctx.Issue()`, the documented way to build an additional issue). Whatever earlier calls produced, collected
// or released, that issue starts blank: it carries no path, value, type or parameters of an earlier execution.

import (
	"fmt"

	z "github.com/Oudwins/zog"
	"github.com/Oudwins/zog/conf"
	"zogverif/mc"
	"zogverif/zh"
)

func c07ExecIssueScenario(x *mc.X) *mc.Outcome {
	zh.Reset()
	zh.Install(x, zh.PoolDeviate, zh.OrderSorted)
	history := x.Choose(4, "history") // 0 none, 1 two failing tests collected as list, 2 a record with three issues collected as map, 3 failing tests not collected
	how := x.Choose(2, "installed")  // 0 WithIssueFormatter, 1 conf.IssueFormatter
	add := x.Bool("the formatter files the extra issue")
	switch history {
	case 1, 3:
		var d string
		l := z.String().Min(9, z.Params(map[string]any{"suffix": "w"})).HasSuffix("w").Parse("secret", &d)
		if history == 1 {
			z.Issues.CollectList(l)
		}
	case 2:
		var d struct {
			Name string
			Age  int
			Tags []string
		}
		m := z.Struct(z.Schema{"name": z.String().Min(9), "age": z.Int().GT(50), "tags": z.Slice(z.String().Min(4))}).Parse(map[string]any{"name": "hunter2", "age": 7, "tags": []any{"x"}}, &d)
		z.Issues.CollectMap(m)
	}
	var seen []string
	fm := func(e *z.ZogIssue, c z.Ctx) {
		extra := c.Issue()
		seen = append(seen, fmt.Sprintf("code=%q path=%q value=%v dtype=%q params=%v message=%q err=%v", extra.Code, extra.Path, extra.Value, extra.Dtype, extra.Params, extra.Message, extra.Err))
		e.SetMessage("formatted " + e.Code)
		if add {
			c.AddIssue(extra.SetCode("audit").SetPath("audit").SetMessage("seen"))
		}
	}
	var opts []z.ExecOption
	if how == 0 {
		opts = append(opts, z.WithIssueFormatter(fm))
	} else {
		saved := conf.IssueFormatter
		conf.IssueFormatter = fm
		defer func() { conf.IssueFormatter = saved }()
	}
	var d2 struct{ Nick string }
	var keys []string
	pmsg := func() (msg string) {
		defer func() {
			if r := recover(); r != nil {
				msg = firstLine(fmt.Sprint(r))
			}
		}()
		m := z.Struct(z.Schema{"nick": z.String().Min(5)}).Parse(map[string]any{"nick": "ab"}, &d2, opts...)
		keys = sortedKeys(m)
		return ""
	}()
	zh.Reset()
	out := &mc.Outcome{Traces: 1, Nontrivial: history != 0, Sig: fmt.Sprintf("execissue|%d|%d|%v|%v", history, how, add, keys)}
	out.Sample = map[string]any{"history": history, "installed": how, "files_extra": add, "fresh_issue": seen, "keys": keys}
	blank := `code="" path="" value=<nil> dtype="" params=map[] message="" err=<nil>`
	bad := pmsg
	for _, s := range seen {
		if s != blank {
			bad = s
		}
	}
	if bad == "" && len(seen) == 0 {
		bad = "the formatter was not called"
	}
	if bad != "" {
		x.Note("history %d (0 none, 1 two failing tests collected as list, 2 a record with three issues collected as map, 3 failing tests kept by the caller); formatter installed %d (0 WithIssueFormatter, 1 conf.IssueFormatter); files the extra issue: %v", history, how, add)
		out.Viol = append(out.Viol, &mc.Violation{Key: fmt.Sprintf("C07:fresh-issue-in-formatter:%d", how), What: "an issue a formatter obtained from its context carries data of an earlier execution (or the call failed)", Expected: blank, Observed: bad})
	}
	return out
}
