package scen

// The core enumeration space (DESIGN §3.3): skeletons (tree shapes), units
// (a schema node's configuration together with its input at one position),
// focus sets (which ≤k units range over their full alphabets; the rest stay
// plain), and the construction of (abstract schema, input, destination).

import (
	"time"
	"fmt"
	"math"
	"reflect"
	"sort"
	"strings"

	"zogverif/mc"
	"zogverif/zh"
)

func zhCanon() *zh.Canon { return zh.NewCanon(false) }

// Skel is a tree shape with kinds fixed.
type Skel struct {
	Kind   Kind
	Elem   *Skel
	Fields []SkelField
	Pos    string
	typ    reflect.Type
}

type SkelField struct {
	Key string
	Tag string
	S   *Skel
}

func sp(k Kind) *Skel   { return &Skel{Kind: k} }
func sl(e *Skel) *Skel  { return &Skel{Kind: KSlice, Elem: e} }
func sr(e *Skel) *Skel  { return &Skel{Kind: KPtr, Elem: e} }
func ss(kv ...any) *Skel {
	s := &Skel{Kind: KStruct}
	for i := 0; i < len(kv); i += 2 {
		s.Fields = append(s.Fields, SkelField{Key: kv[i].(string), S: kv[i+1].(*Skel)})
	}
	return s
}

func (s *Skel) label(pos string) {
	s.Pos = pos
	if pos == "" {
		s.Pos = "root"
	}
	switch s.Kind {
	case KSlice:
		s.Elem.label(s.Pos + "[]")
	case KPtr:
		s.Elem.label(s.Pos + "*")
	case KStruct:
		for _, f := range s.Fields {
			f.S.label(s.Pos + "." + f.Key)
		}
	}
}

func (s *Skel) String() string {
	switch s.Kind {
	case KSlice:
		return "Slice(" + s.Elem.String() + ")"
	case KPtr:
		return "Ptr(" + s.Elem.String() + ")"
	case KStruct:
		var parts []string
		for _, f := range s.Fields {
			parts = append(parts, f.Key+":"+f.S.String())
		}
		return "Struct{" + strings.Join(parts, ",") + "}"
	}
	return s.Kind.String()
}

type NamedSkel struct {
	Name string
	S    *Skel
}

func coreSkeletons(tier string) []NamedSkel {
	list := []NamedSkel{
		{"P.Str", sp(KStr)}, {"P.Int", sp(KInt)}, {"P.Float", sp(KFloat)}, {"P.Bool", sp(KBool)}, {"P.Time", sp(KTime)},
		{"S2", ss("f1", sp(KStr), "f2", sp(KInt))},
		{"S3", ss("f1", sp(KStr), "f2", sp(KInt), "f3", sp(KBool))},
		{"S3mix", ss("f1", sp(KStr), "f2", sl(sp(KInt)), "f3", sr(ss("g1", sp(KStr))))},
		{"S2nest", ss("f1", sp(KInt), "f2", ss("g1", sp(KStr), "g2", sp(KBool)))},
		{"L.Str", sl(sp(KStr))},
		{"L.Struct", sl(ss("g1", sp(KStr), "g2", sp(KInt)))},
		{"L.Ptr", sl(sr(sp(KInt)))},
		{"L.L", sl(sl(sp(KStr)))},
		{"R.Str", sr(sp(KStr))},
		{"R.Struct", sr(ss("g1", sp(KStr), "g2", sp(KInt)))},
		{"S2[L(S)]", ss("f1", sp(KStr), "f2", sl(ss("g1", sp(KStr), "g2", sp(KInt))))},
		{"S2[R(S)]", ss("f1", sr(ss("g1", sp(KStr), "g2", sp(KInt))), "f2", sp(KStr))},
		{"L(S[L])", sl(ss("g1", sp(KStr), "g2", sl(sp(KInt))))},
		// keys that are Go identifiers beginning with a non-ASCII upper-case letter (exported as they stand)
		{"S2uni", ss("Émail", sp(KStr), "Ünits", sr(ss("Ñame", sp(KStr))))},
		// pointers below a record / a list that is itself behind a pointer (two pointer hops on one path)
		{"R(S[R])", sr(ss("g1", sr(sp(KStr)), "g2", sp(KInt)))},
		{"R(L(R))", sr(sl(sr(sp(KInt))))},
	}
	if tier == "thorough" {
		list = append(list,
			NamedSkel{"S3b", ss("f1", sp(KTime), "f2", sp(KFloat), "f3", sp(KStr))},
			NamedSkel{"S4", ss("f1", sp(KStr), "f2", sp(KInt), "f3", sl(sp(KStr)), "f4", sr(sp(KBool)))},
			NamedSkel{"S2[S[S]]", ss("f1", ss("g1", sp(KStr), "g2", ss("h1", sp(KInt), "h2", sp(KStr))), "f2", sp(KInt))},
			NamedSkel{"R(L(S))", sr(sl(ss("g1", sp(KStr), "g2", sp(KInt))))},
			NamedSkel{"S2[R(L)]", ss("f1", sr(sl(sp(KStr))), "f2", sp(KTime))},
		)
	}
	for _, ns := range list {
		ns.S.label("")
	}
	return list
}

// Units of a skeleton: "<pos>#<position index path>". Position 0 carries the
// node's configuration together with its input; further positions of a node
// that sits under a slice carry the input only.
func skelUnits(s *Skel, elems int) []string {
	var out []string
	var walk func(s *Skel, posPaths []string)
	walk = func(s *Skel, posPaths []string) {
		for _, pp := range posPaths {
			out = append(out, s.Pos+"#"+pp)
		}
		switch s.Kind {
		case KSlice:
			var next []string
			for _, pp := range posPaths {
				for i := 0; i < elems; i++ {
					next = append(next, pp+"."+fmt.Sprint(i))
				}
			}
			walk(s.Elem, next)
		case KPtr:
			// pointer adds no input position of its own: the element sees the same input
			walk(s.Elem, posPaths)
		case KStruct:
			for _, f := range s.Fields {
				walk(f.S, posPaths)
			}
		}
	}
	walk(s, []string{"0"})
	return out
}

func isFirstPos(pp string) bool {
	for _, c := range strings.Split(pp, ".") {
		if c != "0" {
			return false
		}
	}
	return true
}

// ---------------------------------------------------------------------------
// alphabets

type Alpha struct {
	Tier     string
	Mode     int // 0 Parse, 1 Validate
	NoCatch  bool
	NoDef    bool
	WithPost bool // C12: post-transform configurations are part of the alphabet
	SourceTag string // front ends: the struct tag that names input keys ("" for plain Go maps)
	FE       bool // front-end alphabets (C10, C14): {plain, required, two tests} × {valid, missing, nil, empty, failing, uncoercible}
	Full     bool // C13: fully populated values only (no zero leaf, no empty slice, no nil pointer)
	Lite     bool // reduced configuration/input alphabets (used where another dimension is added)
	DefZero  bool // C04: the Default alphabet has a fourth value, a default equal to the Go zero value
	PathOpt  bool // C02: the test alphabet has a fourth option {t1 with IssuePath("alias"), t2}
	DoubleT2 bool // C05: the custom test of Int nodes is a free-form test function that reports two issues when it fails
	PathT1   bool // C05: the built-in test t1 of every node is declared with IssuePath("alias@<node>")
	NegStr   bool // C05: the second test of a string node is the built-in negated test Not().Contains("2") instead of a TestFunc with the same predicate
	NoBracket bool // the tag assignment already names a list field with a "[]" suffix: no "only under key[]" input class
	StructFails bool // every struct node carries a failing struct-level test unless a focus unit changes that (costs no unit)
	CatchAll bool // reduced alphabets: every primitive node catches unless a focus unit changes that (costs no unit)
	PtrReq   bool // every pointer node is NotNil unless a focus unit makes it optional (so NotNil costs no unit)
	OldIface bool // C12: the custom test of non-catching Int nodes files its issue through the deprecated Ctx.NewError
	MutPost  bool // C13: value-changing PostTransforms are part of the alphabet {none, one changing, changing + plain}
}

// primitive configuration: index 0 is the plain node (optional, no default, no catch, tests {t2}).
func (a *Alpha) primCfgN(k Kind) int {
	if a.FE {
		return 3
	}
	if a.Lite {
		return 7
	}
	n := 2 * 3 * 2 * 3
	if a.PathOpt && k != KBool {
		n = 2 * 4 * 2 * 3
	}
	if a.DefZero {
		n = n / 3 * 4
	}
	if a.NoCatch {
		n /= 2
	}
	return n
}

func (a *Alpha) primCfg(n *Node, idx int) {
	if a.OldIface && n.Kind == KInt {
		defer func() {
			for i := range n.Tests {
				if !n.Tests[i].Builtin && !n.Catch {
					n.Tests[i].ViaOld = true
				}
			}
		}()
	}
	t1, t2 := kindTests(n.Kind)
	if a.NegStr && n.Kind == KStr {
		t2 = TestSpec{Code: "not_contained", Builtin: true, Pred: t2.Pred}
	}
	if a.DoubleT2 && n.Kind == KInt {
		t2.Double = true
	}
	if a.FE {
		n.Tests = []TestSpec{t2}
		switch idx {
		case 1:
			n.Req = true
		case 2:
			n.Tests = []TestSpec{t1, t2}
		}
		return
	}
	if a.Lite {
		n.Tests = []TestSpec{t2}
		if a.CatchAll && !a.NoCatch && (idx == 0 || idx == 2) {
			idx = 2 - idx // catching is the default, the plain node the deviation
		}
		switch idx {
		case 1:
			n.Req = true
		case 2:
			n.Catch = true
		case 3:
			n.DefClass = 1
		case 4:
			n.Tests = []TestSpec{t1, t2}
		case 6:
			n.DefClass = 3 // a default equal to the zero value
		case 5:
			// both tests, the built-in one filed under a path that every node with this configuration shares
			if n.Kind != KBool { // Bool.True() takes no options
				t1.Path = "alias"
			}
			n.Tests = []TestSpec{t1, t2}
		}
		return
	}
	if a.PathT1 && n.Kind != KBool {
		t1.Path = "alias@" + n.Pos // one alias per schema node (elements of a slice share theirs)
	}
	nt := 3
	if a.PathOpt && n.Kind != KBool {
		nt = 4
	}
	ti := idx % nt
	idx /= nt
	n.Req = idx%2 == 1
	idx /= 2
	nd := 3
	if a.DefZero {
		nd = 4 // also: a default equal to the Go zero value
	}
	n.DefClass = idx % nd
	idx /= nd
	if !a.NoCatch {
		n.Catch = idx%2 == 1
	}
	if a.PathOpt && ti == 1 {
		t2.ViaCopy = true // C02: in the two-test configuration the custom test is a specialised copy of a reusable z.Test
	}
	switch ti {
	case 0:
		n.Tests = []TestSpec{t2}
	case 1:
		n.Tests = []TestSpec{t1, t2}
	case 2:
		n.Tests = nil
	case 3:
		// both tests, the built-in one filed under ONE path that all such nodes share: issues of different nodes
		// arrive under the same key, interleaved with issues under other keys
		t1.Path = "alias"
		n.Tests = []TestSpec{t1, t2}
	}
}

// caseVariant: the field's own key is missing from the record, but a key that differs from it only in letter case
// holds this value. Keys are case-sensitive in every front end: the field is absent.
type caseVariant struct{ v any }

// bracketVariant: the list is not sent under the field's key but under that key with a "[]" suffix (the spelling
// some clients use for lists). A field's key is its tag or schema key, nothing else: the field is absent.
type bracketVariant struct{ list []any }

type inClass struct {
	Label   string
	V       any
	Missing bool
}

// failingClass: the one failing value of the reduced alphabets. It fails BOTH tests of the kind (the built-in t1
// and the hand-written t2), so every configuration with a test reports something on it; Bool has no such value
// (its t2 always holds) and keeps the value that fails t1.
func failingClass(k Kind) inClass {
	if k == KBool {
		return inClass{"fail1", primValue(k, VFail1), false}
	}
	return inClass{"failB", primValue(k, VFailB), false}
}

// Parse inputs of a primitive; index 0 is the valid native value.
func (a *Alpha) primParseInputs(k Kind) []inClass {
	valid := primValue(k, VValid)
	if a.FE {
		out := []inClass{{"valid", valid, false}, {"missing", nil, true}, {"nil", nil, false}, {"empty", "", false}, failingClass(k)}
		if k != KStr {
			out = append(out, inClass{"uncoercible", "abc", false})
		} else {
			// ordinary text that spells a missing value in other notations: a present string like any other
			out = append(out, inClass{"the text null", "null", false})
			// ...or a list in another notation: still one string
			out = append(out, inClass{"text that reads as a JSON list", "[1]", false})
			// ...or holds what a shell would expand: text is text
			out = append(out, inClass{"text with a shell-style reference", "a${b}", false})
		}
		out = append(out, inClass{"only-under-a-key-of-other-letter-case", caseVariant{valid}, false})
		return out
	}
	if a.Lite {
		out := []inClass{{"valid", valid, false}, {"missing", nil, true}, failingClass(k)}
		if k != KStr {
			out = append(out, inClass{"uncoercible", "abc", false})
		}
		return out
	}
	out := []inClass{{"valid", valid, false}, {"missing", nil, true}, {"nil", nil, false}, {"empty", "", false}}
	if a.Tier == "thorough" {
		out = append(out, inClass{"spaces", "  ", false}, inClass{"tabnl", "\t\n", false}, inClass{"nbsp", " ", false})
	}
	switch k {
	case KStr:
		// "héllo": 6 bytes, 5 characters — the length tests count bytes (fails Max(5)), whatever the text looks like
		out = append(out, inClass{"alt", 7, false}, inClass{"falsy", "0", false}, inClass{"multi-byte at the bound", "héllo", false})
	case KInt:
		out = append(out, inClass{"alt", "4", false}, inClass{"uncoercible", "abc", false}, inClass{"falsy", 0, false})
	case KFloat:
		out = append(out, inClass{"alt", "4.5", false}, inClass{"uncoercible", "abc", false}, inClass{"falsy", 0.0, false}, inClass{"nan", math.NaN(), false})
	case KBool:
		out = append(out, inClass{"alt", "on", false}, inClass{"uncoercible", "abc", false}, inClass{"falsy", false, false}, inClass{"a number that is neither 0 nor 1", 2, false})
	case KTime:
		out = append(out, inClass{"alt", "2025-06-01T00:00:00Z", false}, inClass{"uncoercible", "notatime", false}, inClass{"falsy", tZero, false})
	}
	out = append(out, inClass{"fail1", primValue(k, VFail1), false})
	if k != KBool {
		if a.Tier == "thorough" {
			out = append(out, inClass{"fail2", primValue(k, VFail2), false})
		}
		out = append(out, inClass{"failB", primValue(k, VFailB), false})
	}
	return out
}

var tZero = reflect.Zero(primType(KTime)).Interface()

// Validate inputs of a primitive (values already in the destination).
func (a *Alpha) primValidateInputs(k Kind) []inClass {
	if a.FE {
		return []inClass{{"valid", primValue(k, VValid), false}, {"zero", reflect.Zero(primType(k)).Interface(), false}, failingClass(k)}
	}
	if a.Full {
		out := []inClass{{"valid", primValue(k, VValid), false}}
		if k != KBool {
			out = append(out, inClass{"fail1", primValue(k, VFail1), false}, inClass{"fail2", primValue(k, VFail2), false}, inClass{"failB", primValue(k, VFailB), false})
		}
		return out
	}
	if a.Lite {
		return []inClass{{"valid", primValue(k, VValid), false}, {"zero", reflect.Zero(primType(k)).Interface(), false}, failingClass(k)}
	}
	out := []inClass{{"valid", primValue(k, VValid), false}, {"zero", reflect.Zero(primType(k)).Interface(), false}, {"fail1", primValue(k, VFail1), false}}
	if k != KBool {
		out = append(out, inClass{"fail2", primValue(k, VFail2), false}, inClass{"failB", primValue(k, VFailB), false})
	}
	if k == KStr {
		out = append(out, inClass{"multi-byte at the bound", "héllo", false})
	}
	if k == KFloat {
		out = append(out, inClass{"nan", math.NaN(), false}) // NaN satisfies no comparison
		out = append(out, inClass{"negzero", math.Copysign(0, -1), false}) // not the Go zero value (its bits are not all zero): present
	}
	if k == KTime {
		// the year-1 instant carried in a Location is not the Go zero value time.Time{}: present, so it is tested
		out = append(out, inClass{"zero-instant-zoned", time.Time{}.In(time.FixedZone("Z1", 3600)), false})
	}
	return out
}

// slice defaults are enumerated only for slices of primitives (a default holding
// struct values is looked up by lower-case schema keys and is not a documented use)
func (a *Alpha) sliceCfgN(elem Kind) int {
	if a.FE {
		return 3
	}
	if a.Lite {
		if elem.Prim() {
			return 5
		}
		return 3
	}
	if !elem.Prim() {
		return 2 * 3
	}
	if a.DefZero {
		return 2 * 3 * 5
	}
	return 2 * 3 * 4
}

func (a *Alpha) sliceCfg(n *Node, idx int, elem Kind) {
	t1, t2 := kindTests(KSlice)
	if a.FE {
		n.Tests = []TestSpec{t2}
		switch idx {
		case 1:
			n.Req = true
		case 2:
			n.Tests = []TestSpec{t1, t2}
		}
		return
	}
	if a.Lite {
		// reduced: plain | required | both tests | passing default | default holding a falsy item
		n.Tests = []TestSpec{t2}
		switch idx {
		case 1:
			n.Req = true
		case 2:
			n.Tests = []TestSpec{t1, t2}
		case 3:
			n.DefClass = 1
		case 4:
			n.DefClass = 3
		}
		return
	}
	ti := idx % 3
	idx /= 3
	n.Req = idx%2 == 1
	idx /= 2
	if elem.Prim() {
		nd := 4 // 3: a default holding a present-but-falsy item (0, false, the zero time)
		if a.DefZero {
			nd = 5 // 4: a default that is an empty, non-nil list (still a default: it wins over Required and is tested)
		}
		n.DefClass = idx % nd
	}
	switch ti {
	case 0:
		n.Tests = []TestSpec{t2}
	case 1:
		n.Tests = []TestSpec{t1, t2}
	case 2:
		n.Tests = nil
	}
}

// slice input shapes (Parse): 0 = list of the default number of elements
const (
	SlList = iota
	SlMissing
	SlNil
	SlEmptyStr
	SlEmptyList
	SlOne
	SlScalar
	slParseN
)

// (Validate): 0 = list, 1 = nil slice, 2 = empty non-nil slice, 3 = one element
const slValidateN = 4

func (a *Alpha) structCfgN() int { return 4 }

func (a *Alpha) structCfg(n *Node, idx int) {
	s1 := TestSpec{Code: "s1"}
	s2 := TestSpec{Code: "s2", Fails: true}
	s3 := TestSpec{Code: "s3", Fails: true}
	if a.StructFails && (idx == 0 || idx == 2) {
		idx = 2 - idx // a failing struct-level test is the default, the passing one the deviation
	}
	switch idx {
	case 0:
		n.Tests = []TestSpec{s1}
	case 1:
		n.Tests = nil
	case 2:
		n.Tests = []TestSpec{s1, s2}
	case 3:
		n.Tests = []TestSpec{s2, s3}
	}
}

// struct input shapes (Parse): 0 map, 1 missing, 2 wrongly typed scalar, 3 empty map
const stParseN = 4

// pointer input shapes (Parse): 0 delegate to element, 1 missing, 2 nil; (Validate): 0 set, 1 nil
const ptParseN = 3

// ---------------------------------------------------------------------------
// case construction

type Case struct {
	Alpha  *Alpha
	Root   *Node
	Data   any  // Parse input (nil when root input is missing)
	Dest   reflect.Value // pointer to destination, pre-filled (Parse: sentinels; Validate: the value)
	Desc   []string
	Absent map[string]bool // "<pos>@<path>" of nodes whose input was absent
	NDev   int             // number of non-default choices taken
	Touched map[string]bool // units that took at least one non-default choice
}

type caseBuilder struct {
	x     *mc.X
	a     *Alpha
	focus map[string]bool
	elems int
	c     *Case
	all   bool
}

func (b *caseBuilder) pick(unit string, what string, n int) int {
	if n <= 1 {
		return 0
	}
	if b.all || b.focus[unit] {
		c := b.x.Choose(n, unit+":"+what)
		if c != 0 {
			b.c.NDev++
			b.c.Touched[unit] = true
		}
		return c
	}
	return 0
}

// buildNode chooses the configuration of every node (configuration belongs to the node's first position).
func (b *caseBuilder) buildNode(s *Skel) *Node {
	n := &Node{Kind: s.Kind, Pos: s.Pos, typ: s.typ}
	unit := s.Pos + "#" + firstPosOf(s, b)
	switch s.Kind {
	case KSlice:
		b.a.sliceCfg(n, b.pick(unit, "cfg", b.a.sliceCfgN(s.Elem.Kind)), s.Elem.Kind)
		n.Elem = b.buildNode(s.Elem)
	case KPtr:
		n.Req = (b.pick(unit, "cfg", 2) == 1) != b.a.PtrReq // PtrReq: NotNil is the default, optional the deviation
		n.Elem = b.buildNode(s.Elem)
	case KStruct:
		b.a.structCfg(n, b.pick(unit, "cfg", b.a.structCfgN()))
		for _, f := range s.Fields {
			n.Fields = append(n.Fields, &Field{Key: f.Key, Tag: f.Tag, N: b.buildNode(f.S)})
		}
	default:
		b.a.primCfg(n, b.pick(unit, "cfg", b.a.primCfgN(s.Kind)))
	}
	if b.a.WithPost {
		b.postCfg(n, unit)
	} else if b.a.MutPost && n.Kind != KPtr && n.Kind != KStruct {
		switch b.pick(unit, "post", 6) {
		case 5:
			n.NPosts, n.PostErr, n.PostMut2 = 2, -1, true // the first returns a *ZogIssue, the second (which must not run) would change the value
		case 1:
			n.NPosts, n.PostMut = 1, true
		case 2:
			n.NPosts, n.PostMut = 2, true
		case 3:
			n.NPosts, n.PostErr = 1, -1 // returns a *ZogIssue that names its own path
		case 4:
			n.NPosts, n.PostErr, n.PostNoPath = 1, -1, true // returns a *ZogIssue without a path
		}
	}
	if s.typ == nil {
		s.typ = n.GoType() // the destination type depends on the skeleton only
	}
	return n
}

func (b *caseBuilder) postCfg(n *Node, unit string) {
	if n.Kind == KPtr {
		return
	}
	// 0: one ok post; 1: none; 2: two ok; 3: first errors (second must not run); 4: second errors; 5: first returns *ZogIssue;
	// 6: first returns an ordinary error that wraps a *ZogIssue (reported like any other error, at the node's path)
	switch b.pick(unit, "post", 8) {
	case 7:
		n.NPosts, n.PostErr, n.PostNoPath = 2, -1, true // first returns a *ZogIssue that carries no path
	case 6:
		n.NPosts, n.PostErr, n.PostWrap = 2, 1, true
	case 0:
		n.NPosts = 1
	case 1:
		n.NPosts = 0
	case 2:
		n.NPosts = 2
	case 3:
		n.NPosts, n.PostErr = 2, 1
	case 4:
		n.NPosts, n.PostErr = 2, 2
	case 5:
		n.NPosts, n.PostErr = 2, -1
	}
}

var depthCache = map[*Skel]int{}

// firstPosOf: position path "0.0…" with one component per enclosing slice (+1).
func firstPosOf(s *Skel, b *caseBuilder) string {
	d := strings.Count(s.Pos, "[]")
	return "0" + strings.Repeat(".0", d)
}

// parseInput builds the Go input for node n at position pp; returns (value, missing).
func (b *caseBuilder) parseInput(n *Node, pp string, path string) (any, bool) {
	unit := n.Pos + "#" + pp
	switch n.Kind {
	case KSlice:
		nShapes := slParseN
		if b.a.FE && !b.a.NoBracket && !strings.HasSuffix(path, "]") && path != "" {
			nShapes++ // front-end alphabets, list that is a record field: also "only under key[]"
		}
		shape := b.pick(unit, "in", nShapes)
		cnt := b.elems
		if shape == slParseN {
			list := make([]any, 0, cnt)
			for i := 0; i < cnt; i++ {
				v, _ := b.parseInput(n.Elem, fmt.Sprintf("%s.%d", pp, i), fmt.Sprintf("%s[%d]", path, i))
				list = append(list, v)
			}
			b.absent(n, path)
			return bracketVariant{list}, false
		}
		switch shape {
		case SlMissing:
			b.absent(n, path)
			return nil, true
		case SlNil:
			b.absent(n, path)
			return nil, false
		case SlEmptyStr:
			b.absent(n, path)
			return "", false
		case SlEmptyList:
			return []any{}, false
		case SlOne:
			cnt = 1
		case SlScalar:
			v, _ := b.parseInput(n.Elem, pp+".0", fmt.Sprintf("%s[0]", path))
			if v == nil || reflect.ValueOf(v).Kind() == reflect.Slice || parseAbsentSpec(v) {
				// scalar boxing needs a present non-slice scalar; otherwise fall back to a one-element list
				return []any{v}, false
			}
			return v, false
		}
		list := make([]any, 0, cnt)
		for i := 0; i < cnt; i++ {
			v, _ := b.parseInput(n.Elem, fmt.Sprintf("%s.%d", pp, i), fmt.Sprintf("%s[%d]", path, i))
			list = append(list, v)
		}
		return list, false
	case KPtr:
		switch b.pick(unit, "in", ptParseN) {
		case 1:
			b.absent(n, path)
			return nil, true
		case 2:
			b.absent(n, path)
			return nil, false
		}
		v, miss := b.parseInput(n.Elem, pp, path)
		if _, cv := v.(caseVariant); cv || miss || parseAbsentSpec(v) {
			b.absent(n, path)
		}
		return v, miss
	case KStruct:
		switch b.pick(unit, "in", stParseN) {
		case 1:
			b.absentTree(n, path)
			return nil, true
		case 2:
			return "x", false
		case 3:
			b.absentTree(n, path)
			return map[string]any{}, false
		}
		m := map[string]any{}
		for _, f := range n.Fields {
			v, miss := b.parseInput(f.N, pp, joinPath(path, f.Key))
			if bv, ok := v.(bracketVariant); ok {
				k := fieldKeyFor(f, b.a.SourceTag)
				if strings.HasSuffix(k, "[]") {
					m[k] = bv.list // the key itself carries the suffix: nothing unusual
				} else {
					m[k+"[]"] = bv.list
				}
				continue
			}
			if cv, ok := v.(caseVariant); ok {
				k := fieldKeyFor(f, b.a.SourceTag)
				alt := strings.ToUpper(k)
				if alt == k {
					alt = strings.ToLower(k)
				}
				if alt != k {
					m[alt] = cv.v
				}
				continue
			}
			if !miss {
				m[fieldKeyFor(f, b.a.SourceTag)] = v
			}
		}
		return m, false
	default:
		ins := b.a.primParseInputs(n.Kind)
		ic := ins[b.pick(unit, "in", len(ins))]
		if cv, ok := ic.V.(caseVariant); ok && (strings.HasSuffix(path, "]") || path == "") {
			return cv.v, false // list items and the root have no key: the class degenerates to the valid value
		}
		if _, cv := ic.V.(caseVariant); cv || ic.Missing || parseAbsentSpec(ic.V) {
			b.absent(n, path)
		}
		return ic.V, ic.Missing
	}
}

func (b *caseBuilder) absent(n *Node, path string) {
	b.c.Absent[n.Pos+"@"+path] = true
}

func (b *caseBuilder) absentTree(n *Node, path string) {
	// every field of an absent record is absent, recursively
	for _, f := range n.Fields {
		b.absent(f.N, joinPath(path, f.Key))
		sub := f.N
		for sub.Kind == KPtr {
			sub = sub.Elem
			b.absent(sub, joinPath(path, f.Key))
		}
		if sub.Kind == KStruct {
			b.absentTree(sub, joinPath(path, f.Key))
		}
	}
}

// validateInput stores the value for node n at position pp into v.
func (b *caseBuilder) validateInput(n *Node, pp string, v reflect.Value, path string) {
	unit := n.Pos + "#" + pp
	switch n.Kind {
	case KSlice:
		cnt := b.elems
		shape := 0
		aliased := false
		if b.a.Full {
			nOpt := 2
			if n.Elem.Kind == KPtr {
				nOpt = 3 // also: every element is the SAME pointer (a value with sharing)
			}
			switch b.pick(unit, "in", nOpt) {
			case 1:
				shape = 3
			case 2:
				aliased = true
			}
		} else {
			shape = b.pick(unit, "in", slValidateN)
		}
		switch shape {
		case 1:
			v.Set(reflect.Zero(v.Type()))
			b.absent(n, path)
			return
		case 2:
			v.Set(reflect.MakeSlice(v.Type(), 0, 0))
			b.absent(n, path)
			return
		case 3:
			cnt = 1
		}
		s := reflect.MakeSlice(v.Type(), cnt, cnt)
		for i := 0; i < cnt; i++ {
			b.validateInput(n.Elem, fmt.Sprintf("%s.%d", pp, i), s.Index(i), fmt.Sprintf("%s[%d]", path, i))
		}
		if aliased {
			for i := 1; i < cnt; i++ {
				s.Index(i).Set(s.Index(0))
			}
		}
		v.Set(s)
	case KPtr:
		if !b.a.Full && b.pick(unit, "in", 2) == 1 {
			v.Set(reflect.Zero(v.Type()))
			b.absent(n, path)
			return
		}
		p := reflect.New(v.Type().Elem())
		b.validateInput(n.Elem, pp, p.Elem(), path)
		v.Set(p)
	case KStruct:
		for _, f := range n.Fields {
			b.validateInput(f.N, pp, v.FieldByName(goFieldName(f.Key)), joinPath(path, f.Key))
		}
		v.FieldByName("ZZextra").SetString("§extra")
	default:
		ins := b.a.primValidateInputs(n.Kind)
		ic := ins[b.pick(unit, "in", len(ins))]
		v.Set(reflect.ValueOf(ic.V))
		if v.IsZero() {
			b.absent(n, path)
		}
	}
}

// BuildCase enumerates one case of skeleton s under focus set `focus`.
func BuildCase(x *mc.X, a *Alpha, s *Skel, focus map[string]bool, elems int) *Case {
	c := &Case{Alpha: a, Absent: map[string]bool{}, Touched: map[string]bool{}}
	b := &caseBuilder{x: x, a: a, focus: focus, elems: elems, c: c}
	c.Root = b.buildNode(s)
	c.Dest = reflect.New(c.Root.GoType())
	if a.Mode == 0 {
		fillSentinel(c.Dest.Elem(), c.Root)
		v, _ := b.parseInput(c.Root, "0", "")
		c.Data = v
	} else {
		b.validateInput(c.Root, "0", c.Dest.Elem(), "")
	}
	return c
}

// focusSets returns all subsets of units of size ≤ k (as sorted name lists).
func focusSets(units []string, k int) [][]string {
	var out [][]string
	var rec func(start int, cur []string)
	rec = func(start int, cur []string) {
		out = append(out, append([]string(nil), cur...))
		if len(cur) == k {
			return
		}
		for i := start; i < len(units); i++ {
			rec(i+1, append(cur, units[i]))
		}
	}
	rec(0, nil)
	sort.SliceStable(out, func(i, j int) bool { return len(out[i]) < len(out[j]) })
	return out
}

func (c *Case) Describe() map[string]any {
	m := map[string]any{"schema": c.Root.Describe(), "mode": []string{"Parse", "Validate"}[c.Alpha.Mode]}
	if c.Alpha.Mode == 0 {
		m["input"] = fmt.Sprintf("%#v", c.Data)
	} else {
		m["value"] = canonValue(c.Dest.Elem())
	}
	return m
}
