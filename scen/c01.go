package scen

// C01 — success means valid. Same space as C02; spec-free oracle: when the
// call returns no issues, the destination is walked with the abstract schema
// and every declared constraint is re-evaluated with zog-free predicates.

import (
	"fmt"
	"reflect"

	"zogverif/mc"
	"zogverif/zh"
)

type c01Walker struct {
	c     *Case
	fails []string
}

func (w *c01Walker) fail(format string, a ...any) {
	w.fails = append(w.fails, fmt.Sprintf(format, a...))
}

// walk re-evaluates node n on the value v found in the destination.
// fromDefault: the value came from an enclosing slice default (inputs do not apply).
func (w *c01Walker) walk(n *Node, v reflect.Value, path string, fromDefault bool) {
	absent := !fromDefault && w.c.Absent[n.Pos+"@"+path]
	switch n.Kind {
	case KPtr:
		if v.IsNil() {
			if n.Req {
				w.fail("NotNil pointer %s at %q is nil after a successful call", n.Pos, path)
			}
			return
		}
		if absent && w.c.Alpha.Mode == 0 {
			// absent input: pointer must not be required; a non-nil destination can only stem from pre-allocation (not used here)
			if n.Req {
				w.fail("NotNil pointer %s at %q had no input yet the call succeeded", n.Pos, path)
			}
			return
		}
		w.walk(n.Elem, v.Elem(), path, fromDefault)
	case KStruct:
		for _, f := range n.Fields {
			w.walk(f.N, v.FieldByName(goFieldName(f.Key)), joinPath(path, f.Key), fromDefault)
		}
		for _, t := range n.Tests {
			if t.Fails {
				w.fail("struct %s at %q declares test %s which cannot pass, yet the call succeeded", n.Pos, path, t.Code)
			}
		}
	case KSlice:
		if absent {
			if n.DefClass == 0 {
				if n.Req {
					w.fail("required slice %s at %q was absent yet the call succeeded", n.Pos, path)
				}
				return // absent optional: not tested
			}
			fromDefault = true
		}
		for i := 0; i < v.Len(); i++ {
			w.walk(n.Elem, v.Index(i), fmt.Sprintf("%s[%d]", path, i), fromDefault)
		}
		for _, t := range n.Tests {
			if !t.Pred(v) {
				w.fail("slice %s at %q holds %s which violates its test %s", n.Pos, path, canonValue(v), t.Code)
			}
		}
	default:
		if absent {
			if n.DefClass == 0 {
				if n.Req && !n.Catch {
					w.fail("required %s %s at %q was absent yet the call succeeded", n.Kind, n.Pos, path)
				}
				return
			}
		}
		if n.Catch && reflect.DeepEqual(v.Interface(), primValue(n.Kind, VCatch)) {
			return // documented exemption: a catching node may hold its catch value
		}
		for _, t := range n.Tests {
			if !t.Pred(v) {
				w.fail("%s %s at %q holds %s which violates its test %s", n.Kind, n.Pos, path, canonValue(v), t.Code)
			}
		}
	}
}

func c01Scenario(a *Alpha, ns NamedSkel, focus []string, elems int) mc.Scenario {
	fm := focusMap(focus)
	return func(x *mc.X) *mc.Outcome {
		cr := runCore(x, a, ns.S, fm, elems, zh.OrderFree, false)
		if cr.Redundant {
			return &mc.Outcome{Sig: "redundant"}
		}
		success := cr.Real.Panic == "" && len(cr.Real.Issues) == 0
		out := &mc.Outcome{Traces: 1, Nontrivial: cr.Case.NDev > 0 && success}
		out.Sig = fmt.Sprintf("%s|%d|succ=%v|%s", ns.Name, a.Mode, success, cr.Case.Root.Describe())
		out.LazySample = func() any {
			return map[string]any{"case": cr.Case.Describe(), "orders": cr.Orders, "success": success, "dest": canonValue(cr.Case.Dest.Elem())}
		}
		if !success {
			return out
		}
		w := &c01Walker{c: cr.Case}
		w.walk(cr.Case.Root, cr.Case.Dest.Elem(), "", false)
		if len(w.fails) > 0 {
			for _, l := range cr.describe() {
				x.Note("%s", l)
			}
			x.Note("destination: %s", canonValue(cr.Case.Dest.Elem()))
			kind := "constraint"
			out.Viol = append(out.Viol, &mc.Violation{
				Key:      fmt.Sprintf("C01:%s:%s:%s", []string{"Parse", "Validate"}[a.Mode], kind, classifyC01(w.fails[0])),
				What:     "call returned no issues but a declared constraint does not hold on the destination: " + w.fails[0],
				Expected: "every test of every reached node holds; every Required/NotNil node was present",
				Observed: fmt.Sprint(w.fails),
			})
		}
		return out
	}
}

func classifyC01(s string) string {
	for _, k := range []string{"NotNil pointer", "cannot pass", "required slice", "slice", "required", "violates"} {
		if contains(s, k) {
			return k
		}
	}
	return "other"
}

func contains(s, sub string) bool {
	for i := 0; i+len(sub) <= len(s); i++ {
		if s[i:i+len(sub)] == sub {
			return true
		}
	}
	return false
}

func init() {
	Register(&Prop{
		ID:    "C01",
		Rule:  "same enumeration as C02 (skeleton, mode, ≤k focus units over full alphabets, all field visit orders); non-trivial = a deviating case on which the call returned no issues (the oracle walks the destination); distinct = distinct (skeleton, mode, schema configuration) among those. plus " + callsRule + " (C01 reports the sequences in which a call came back without issues although the same call made alone reports a violation). plus " + layoutRule + " (C01 reports runs with fewer issues than the fresh schema)",
		Floor: 50,
		Bound: func(tier string) string {
			k, e := coreK(tier)
			return thoroughPrefix(tier) + fmt.Sprintf("k=%d focus units jointly over full alphabets, %d skeletons, %d elements per slice, every permutation of field visits, Parse and Validate", k, len(coreSkeletons(tier)), e)
		},
		Assumptions: []string{
			"oracle is spec-free: predicates of the declared tests are re-evaluated on the destination by code that does not call zog",
			"exemptions exactly as stated: absent optional nodes are not tested; a catching node may hold its catch value",
		},
		Items: func(tier string) []Item {
			items := coreItems(tier, c01Scenario, nil, []int{0, 1}, 0)
			// "...or an earlier call": call sequences and overlapping (re-entrant) executions
			items = append(items, callsItems(tier, "C01", "clean-despite-violation", "panic")...)
			// "...or an earlier call" on the same schema object with another destination type
			return append(items, layoutItems(tier, "C01", "issues-missing", "panic")...)
		},
	})
}
