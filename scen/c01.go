package scen

// C01 — success means valid. Same space as C02; spec-free oracle: when the
// call returns no issues, the destination is walked with the abstract schema
// and every declared constraint is re-evaluated with zog-free predicates.

import (
	"time"
	"fmt"
	"reflect"
	"strings"

	z "github.com/Oudwins/zog"

	"zogverif/mc"
	"zogverif/zh"
)

type c01Walker struct {
	c     *Case
	fails []string
}

func (w *c01Walker) fail(format string, a ...any) {
	w.fails = append(w.fails, fmt.Sprintf(format, a...))
}

// walk re-evaluates node n on the value v found in the destination.
// fromDefault: the value came from an enclosing slice default (inputs do not apply).
func (w *c01Walker) walk(n *Node, v reflect.Value, path string, fromDefault bool) {
	absent := !fromDefault && w.c.Absent[n.Pos+"@"+path]
	switch n.Kind {
	case KPtr:
		if v.IsNil() {
			if n.Req {
				w.fail("NotNil pointer %s at %q is nil after a successful call", n.Pos, path)
			}
			return
		}
		if absent && w.c.Alpha.Mode == 0 {
			// absent input: pointer must not be required; a non-nil destination can only stem from pre-allocation (not used here)
			if n.Req {
				w.fail("NotNil pointer %s at %q had no input yet the call succeeded", n.Pos, path)
			}
			return
		}
		w.walk(n.Elem, v.Elem(), path, fromDefault)
	case KStruct:
		for _, f := range n.Fields {
			w.walk(f.N, v.FieldByName(goFieldName(f.Key)), joinPath(path, f.Key), fromDefault)
		}
		for _, t := range n.Tests {
			if t.Fails {
				w.fail("struct %s at %q declares test %s which cannot pass, yet the call succeeded", n.Pos, path, t.Code)
			}
		}
	case KSlice:
		if absent {
			if n.DefClass == 0 {
				if n.Req {
					w.fail("required slice %s at %q was absent yet the call succeeded", n.Pos, path)
				}
				return // absent optional: not tested
			}
			fromDefault = true
		}
		for i := 0; i < v.Len(); i++ {
			w.walk(n.Elem, v.Index(i), fmt.Sprintf("%s[%d]", path, i), fromDefault)
		}
		for _, t := range n.Tests {
			if !t.Pred(v) {
				w.fail("slice %s at %q holds %s which violates its test %s", n.Pos, path, canonValue(v), t.Code)
			}
		}
	default:
		if absent {
			if n.DefClass == 0 {
				if n.Req && !n.Catch {
					w.fail("required %s %s at %q was absent yet the call succeeded", n.Kind, n.Pos, path)
				}
				return
			}
		}
		if n.Catch && reflect.DeepEqual(v.Interface(), primValue(n.Kind, VCatch)) {
			return // documented exemption: a catching node may hold its catch value
		}
		for _, t := range n.Tests {
			if !t.Pred(v) {
				w.fail("%s %s at %q holds %s which violates its test %s", n.Kind, n.Pos, path, canonValue(v), t.Code)
			}
		}
	}
}

func c01Scenario(a *Alpha, ns NamedSkel, focus []string, elems int) mc.Scenario {
	fm := focusMap(focus)
	return func(x *mc.X) *mc.Outcome {
		cr := runCore(x, a, ns.S, fm, elems, zh.OrderFree, false)
		if cr.Redundant {
			return &mc.Outcome{Sig: "redundant"}
		}
		success := cr.Real.Panic == "" && len(cr.Real.Issues) == 0
		out := &mc.Outcome{Traces: 1, Nontrivial: cr.Case.NDev > 0 && success}
		out.Sig = fmt.Sprintf("%s|%d|succ=%v|%s", ns.Name, a.Mode, success, cr.Case.Root.Describe())
		out.LazySample = func() any {
			return map[string]any{"case": cr.Case.Describe(), "orders": cr.Orders, "success": success, "dest": canonValue(cr.Case.Dest.Elem())}
		}
		if !success {
			return out
		}
		w := &c01Walker{c: cr.Case}
		w.walk(cr.Case.Root, cr.Case.Dest.Elem(), "", false)
		if len(w.fails) > 0 {
			for _, l := range cr.describe() {
				x.Note("%s", l)
			}
			x.Note("destination: %s", canonValue(cr.Case.Dest.Elem()))
			kind := "constraint"
			out.Viol = append(out.Viol, &mc.Violation{
				Key:      fmt.Sprintf("C01:%s:%s:%s", []string{"Parse", "Validate"}[a.Mode], kind, classifyC01(w.fails[0])),
				What:     "call returned no issues but a declared constraint does not hold on the destination: " + w.fails[0],
				Expected: "every test of every reached node holds; every Required/NotNil node was present",
				Observed: fmt.Sprint(w.fails),
			})
		}
		return out
	}
}

func classifyC01(s string) string {
	for _, k := range []string{"NotNil pointer", "cannot pass", "required slice", "slice", "required", "violates"} {
		if contains(s, k) {
			return k
		}
	}
	return "other"
}

func contains(s, sub string) bool {
	for i := 0; i+len(sub) <= len(s); i++ {
		if s[i:i+len(sub)] == sub {
			return true
		}
	}
	return false
}

func init() {
	Register(&Prop{
		ID:    "C01",
		Rule:  "same enumeration as C02 (skeleton, mode, ≤k focus units over full alphabets, all field visit orders); non-trivial = a deviating case on which the call returned no issues (the oracle walks the destination); distinct = distinct (skeleton, mode, schema configuration) among those. plus " + callsRule + " (C01 reports the sequences in which a call came back without issues although the same call made alone reports a violation). plus " + layoutRule + " (C01 reports runs with fewer issues than the fresh schema). plus built-in string tests (Email, URL, Contains, HasSuffix, Len, Max, Min; plain and negated) on mail addresses, URLs and repeated letters of 63..70000 bytes at top level, as field and as element in both modes: no issue ⇒ the destination value satisfies the test. plus every chain of 2 or 3 numeric bounds (GT, GTE, LT, LTE, EQ with limits 5 and 10, any order, repeats allowed, each bound declared without options / with a Params option / with a Message) on Int and Float64 nodes at top level and as field, subjects 4..11 and 5.5, both modes: no issue ⇒ every declared bound holds, and the issue codes are exactly the failing bounds in declaration order; the same for chains of Min/Max/Len on String (limits 2, 3; lengths 1..4) and Slice (limits 1, 2; lengths 1..3) nodes and After/Before/EQ on Time nodes (two limits; five instants around them)",
		Floor: 50,
		Bound: func(tier string) string {
			k, e := coreK(tier)
			return thoroughPrefix(tier) + fmt.Sprintf("k=%d focus units jointly over full alphabets, %d skeletons, %d elements per slice, every permutation of field visits, Parse and Validate", k, len(coreSkeletons(tier)), e)
		},
		Assumptions: []string{
			"oracle is spec-free: predicates of the declared tests are re-evaluated on the destination by code that does not call zog",
			"exemptions exactly as stated: absent optional nodes are not tested; a catching node may hold its catch value",
		},
		Items: func(tier string) []Item {
			items := coreItems(tier, c01Scenario, nil, []int{0, 1}, 0)
			// "...or an earlier call": call sequences and overlapping (re-entrant) executions
			items = append(items, callsItems(tier, "C01", "clean-despite-violation", "panic")...)
			// "...or an earlier call" on the same schema object with another destination type
			items = append(items, layoutItems(tier, "C01", "issues-missing", "panic")...)
			items = append(items, preprocItem("C01", "clean-despite-violation", "panic"))
			items = append(items, Item{Name: "tests-sharing-a-code", MaxDevs: -1, Run: c01SharedCodeScenario})
			items = append(items, Item{Name: "go-struct-inputs", MaxDevs: -1, Run: c01StructInputScenario})
			items = append(items, Item{Name: "number-bound-chains", MaxDevs: -1, Run: c01NumberChainScenario})
			items = append(items, Item{Name: "length-and-instant-bound-chains", MaxDevs: -1, Run: c01OtherChainScenario})
			items = append(items, c01ShortSubjectItems()...)
			items = append(items, Item{Name: "coercers-answering-nil", MaxDevs: -1, Run: c01NilCoercerScenario})
			return append(items, Item{Name: "builtin-tests-on-long-values", MaxDevs: -1, Run: c01BuiltinLongScenario})
		},
	})
}

// ---------------------------------------------------------------------------
// Built-in tests (plain and negated) on values of unusual length, at three depths: when the call reports no issue
// the value in the destination satisfies the declared test (reference predicates of C20; one direction only).

type c01Long struct {
	V string
}

func c01BuiltinLongScenario(x *mc.X) *mc.Outcome {
	zh.Reset()
	zh.Install(x, zh.PoolLIFO, zh.OrderSorted)
	type bt struct {
		name  string
		build func(not bool) *z.StringSchema[string]
		pred  func(v string) bool
		noNot bool
	}
	tests := []bt{
		{"Email", func(not bool) *z.StringSchema[string] {
			if not {
				return z.String().Not().Email()
			}
			return z.String().Email()
		}, refEmail, false},
		{"URL", func(not bool) *z.StringSchema[string] {
			if not {
				return z.String().Not().URL()
			}
			return z.String().URL()
		}, refURL, false},
		{"Contains(@)", func(not bool) *z.StringSchema[string] {
			if not {
				return z.String().Not().Contains("@")
			}
			return z.String().Contains("@")
		}, func(v string) bool { return strings.Contains(v, "@") }, false},
		{"HasSuffix(.com)", func(not bool) *z.StringSchema[string] {
			if not {
				return z.String().Not().HasSuffix(".com")
			}
			return z.String().HasSuffix(".com")
		}, func(v string) bool { return strings.HasSuffix(v, ".com") }, false},
		{"Len(256)", func(not bool) *z.StringSchema[string] {
			if not {
				return z.String().Not().Len(256)
			}
			return z.String().Len(256)
		}, func(v string) bool { return len(v) == 256 }, false},
		{"Max(254)", func(not bool) *z.StringSchema[string] { return z.String().Max(254) }, func(v string) bool { return len(v) <= 254 }, true},
		{"Min(255)", func(not bool) *z.StringSchema[string] { return z.String().Min(255) }, func(v string) bool { return len(v) >= 255 }, true},
	}
	t := tests[x.Choose(len(tests), "test")]
	not := !t.noNot && x.Bool("not")
	total := []int{63, 64, 65, 253, 254, 255, 256, 257, 320, 1024, 70000}[x.Choose(11, "totalLen")]
	shape := x.Choose(3, "shape") // 0 mail address, 1 URL, 2 one repeated letter
	var subj string
	switch shape {
	case 0:
		dom := "@" + strings.Repeat("d", 20) + "." + strings.Repeat("e", 20) + ".com"
		subj = strings.Repeat("a", total-len(dom)) + dom
	case 1:
		pre := "https://example.com/"
		subj = pre + strings.Repeat("p", total-len(pre))
	default:
		subj = strings.Repeat("a", total)
	}
	place := x.Choose(3, "placement")
	mode := x.Choose(2, "mode")
	s := t.build(not)
	var nIssues int
	var dest string
	switch place {
	case 0:
		if mode == 0 {
			nIssues = len(s.Parse(subj, &dest))
		} else {
			dest = subj
			nIssues = len(s.Validate(&dest))
		}
	case 1:
		var d c01Long
		if mode == 0 {
			nIssues = len(z.Struct(z.Schema{"v": s}).Parse(map[string]any{"v": subj}, &d))
		} else {
			d.V = subj
			nIssues = len(z.Struct(z.Schema{"v": s}).Validate(&d))
		}
		dest = d.V
	case 2:
		var d []string
		if mode == 0 {
			nIssues = len(z.Slice(s).Parse([]any{"x@y.com", subj}, &d))
		} else {
			d = []string{"x@y.com", subj}
			nIssues = len(z.Slice(s).Validate(&d))
		}
		if len(d) == 2 {
			dest = d[1]
		}
		// the first element must satisfy the test too for "no issues" to say anything about the second
		ok0 := t.pred("x@y.com")
		if not {
			ok0 = !ok0
		}
		if !ok0 {
			zh.Reset()
			return &mc.Outcome{Sig: "n/a"}
		}
	}
	zh.Reset()
	holds := t.pred(dest)
	if not {
		holds = !holds
	}
	name := t.name
	if not {
		name = "Not()." + name
	}
	out := &mc.Outcome{Traces: 1, Nontrivial: nIssues == 0, Sig: fmt.Sprintf("long|%s|%d|%d|%d|%v", name, shape, place, mode, nIssues == 0)}
	out.Sample = map[string]any{"test": name, "value_length": len(subj), "shape": shape, "placement": place, "issues": nIssues}
	if nIssues == 0 && !holds {
		x.Note("test %s, value of %d bytes (shape %d: 0 mail address, 1 URL, 2 repeated letter), placement %d (0 top, 1 field, 2 element), mode %d", name, len(subj), shape, place, mode)
		out.Viol = append(out.Viol, &mc.Violation{Key: "C01:builtin-long-value:" + name, What: "no issue was reported although the value in the destination does not satisfy the declared built-in test", Expected: "an issue, or a value for which the test holds", Observed: fmt.Sprintf("no issues; value of %d bytes beginning %q", len(dest), clip(dest))})
	}
	return out
}

// ---------------------------------------------------------------------------
// Chains of numeric bounds: each declared bound is its own test. When the call reports no issue every bound
// holds of the destination value; the reported codes are the failing bounds, one each, in declaration order.

type c01Num struct {
	I int
	F float64
}

func c01NumberChainScenario(x *mc.X) *mc.Outcome {
	zh.Reset()
	zh.Install(x, zh.PoolLIFO, zh.OrderSorted)
	type bound struct {
		name string
		code string
		pred func(v float64) bool
		ai   func(s *z.NumberSchema[int]) *z.NumberSchema[int]
		af   func(s *z.NumberSchema[float64]) *z.NumberSchema[float64]
	}
	// every bound of the chain is declared with the same kind of test option (none changes what the bound means)
	optKind := x.Choose(3, "test option on every bound")
	o := func() []z.TestOption { return c01BoundOpts(optKind) }
	var bounds []bound
	for _, n := range []int{5, 10} {
		n := n
		f := float64(n)
		bounds = append(bounds,
			bound{fmt.Sprintf("GT(%d)", n), "gt", func(v float64) bool { return v > f }, func(s *z.NumberSchema[int]) *z.NumberSchema[int] { return s.GT(n, o()...) }, func(s *z.NumberSchema[float64]) *z.NumberSchema[float64] { return s.GT(f, o()...) }},
			bound{fmt.Sprintf("GTE(%d)", n), "gte", func(v float64) bool { return v >= f }, func(s *z.NumberSchema[int]) *z.NumberSchema[int] { return s.GTE(n, o()...) }, func(s *z.NumberSchema[float64]) *z.NumberSchema[float64] { return s.GTE(f, o()...) }},
			bound{fmt.Sprintf("LT(%d)", n), "lt", func(v float64) bool { return v < f }, func(s *z.NumberSchema[int]) *z.NumberSchema[int] { return s.LT(n, o()...) }, func(s *z.NumberSchema[float64]) *z.NumberSchema[float64] { return s.LT(f, o()...) }},
			bound{fmt.Sprintf("LTE(%d)", n), "lte", func(v float64) bool { return v <= f }, func(s *z.NumberSchema[int]) *z.NumberSchema[int] { return s.LTE(n, o()...) }, func(s *z.NumberSchema[float64]) *z.NumberSchema[float64] { return s.LTE(f, o()...) }},
			bound{fmt.Sprintf("EQ(%d)", n), "eq", func(v float64) bool { return v == f }, func(s *z.NumberSchema[int]) *z.NumberSchema[int] { return s.EQ(n, o()...) }, func(s *z.NumberSchema[float64]) *z.NumberSchema[float64] { return s.EQ(f, o()...) }},
		)
	}
	length := 2 + x.Choose(2, "chain length")
	var chain []bound
	var names []string
	for i := 0; i < length; i++ {
		b := bounds[x.Choose(len(bounds), "bound")]
		chain = append(chain, b)
		names = append(names, b.name)
	}
	float := x.Bool("float64")
	subjects := []float64{4, 5, 6, 9, 10, 11}
	if float {
		subjects = append(subjects, 5.5)
	}
	subj := subjects[x.Choose(len(subjects), "subject")]
	place := x.Choose(2, "placement")
	mode := x.Choose(2, "mode")
	si, sf := z.Int(), z.Float64()
	for _, b := range chain {
		si, sf = b.ai(si), b.af(sf)
	}
	var issues z.ZogIssueList
	var got float64
	if place == 0 {
		if float {
			d := subj
			if mode == 0 {
				d = -1
				issues = sf.Parse(subj, &d)
			} else {
				issues = sf.Validate(&d)
			}
			got = d
		} else {
			d := int(subj)
			if mode == 0 {
				d = -1
				issues = si.Parse(int(subj), &d)
			} else {
				issues = si.Validate(&d)
			}
			got = float64(d)
		}
	} else {
		sc := z.Struct(z.Schema{"i": si.Optional(), "f": sf.Optional()})
		d := c01Num{}
		if mode == 0 {
			in := map[string]any{"i": int(subj)}
			if float {
				in = map[string]any{"f": subj}
			}
			for k, l := range sc.Parse(in, &d) {
				if k != "$first" {
					issues = append(issues, l...)
				}
			}
		} else {
			d.I, d.F = int(subj), subj
			if float {
				d.I = 0
			} else {
				d.F = 0
			}
			// the other field is zero: optional, so not tested
			for k, l := range sc.Validate(&d) {
				if k != "$first" {
					issues = append(issues, l...)
				}
			}
		}
		got = float64(d.I)
		if float {
			got = d.F
		}
	}
	zh.Reset()
	var want, codes []string
	for _, b := range chain {
		if !b.pred(got) {
			want = append(want, b.code)
		}
	}
	for _, is := range issues {
		codes = append(codes, is.Code)
	}
	out := &mc.Outcome{Traces: 1, Nontrivial: len(issues) == 0, Sig: fmt.Sprintf("numchain|%v|%v|%d|%d|%v", names, float, place, mode, len(issues) == 0)}
	out.Sample = map[string]any{"chain": names, "float64": float, "subject": subj, "placement": place, "mode": mode, "codes": codes}
	note := func() {
		x.Note("chain %v on %s, every bound with test option %d (0 none, 1 Params(extra entry), 2 Message), subject %v, placement %d (0 top, 1 field), mode %d (0 Parse, 1 Validate)", names, map[bool]string{false: "Int()", true: "Float64()"}[float], optKind, subj, place, mode)
	}
	switch {
	case got != subj && len(issues) == 0:
		note()
		out.Viol = append(out.Viol, &mc.Violation{Key: "C01:number-bound-chain:value", What: "the destination does not hold the supplied number", Expected: fmt.Sprint(subj), Observed: fmt.Sprint(got)})
	case len(issues) == 0 && len(want) > 0:
		note()
		out.Viol = append(out.Viol, &mc.Violation{Key: "C01:number-bound-chain:clean-despite-violation", What: "no issue was reported although the destination value violates a declared bound", Expected: fmt.Sprintf("issues with codes %v", want), Observed: fmt.Sprintf("no issues; destination %v", got)})
	case !eqStrings(codes, want):
		note()
		out.Viol = append(out.Viol, &mc.Violation{Key: "C01:number-bound-chain:codes", What: "the reported issues are not the failing declared bounds, one each, in declaration order", Expected: fmt.Sprint(want), Observed: fmt.Sprint(codes)})
	}
	return out
}

// The same for the length bounds of String and Slice nodes and the instant bounds of Time nodes.
type c01Other struct {
	S string
	L []int
	T time.Time
}

func c01OtherChainScenario(x *mc.X) *mc.Outcome {
	zh.Reset()
	zh.Install(x, zh.PoolLIFO, zh.OrderSorted)
	family := x.Choose(3, "family") // 0 String, 1 Slice(Int), 2 Time
	t0 := time.Date(2020, 1, 1, 0, 0, 0, 0, time.UTC)
	lim := [][]int{{2, 3}, {1, 2}, {0, 10}}[family]
	ops := []string{"Min", "Max", "Len"}
	if family == 2 {
		ops = []string{"After", "Before", "EQ"}
	}
	length := 2 + x.Choose(2, "chain length")
	type bound struct {
		op string
		n  int
	}
	var chain []bound
	var names []string
	for i := 0; i < length; i++ {
		b := bound{ops[x.Choose(3, "op")], lim[x.Choose(2, "limit")]}
		chain = append(chain, b)
		names = append(names, fmt.Sprintf("%s(%d)", b.op, b.n))
	}
	var sizes []int
	switch family {
	case 0:
		sizes = []int{1, 2, 3, 4}
	case 1:
		sizes = []int{1, 2, 3}
	default:
		sizes = []int{-1, 0, 5, 10, 11} // seconds after t0
	}
	size := sizes[x.Choose(len(sizes), "subject")]
	place := x.Choose(2, "placement")
	mode := x.Choose(2, "mode")
	at := func(n int) time.Time { return t0.Add(time.Duration(n) * time.Second) }
	optKind := x.Choose(3, "test option on every bound")
	o := func() []z.TestOption { return c01BoundOpts(optKind) }
	ss, sl, st := z.String(), z.Slice(z.Int()), z.Time()
	for _, b := range chain {
		switch b.op {
		case "Min":
			ss, sl = ss.Min(b.n, o()...), sl.Min(b.n, o()...)
		case "Max":
			ss, sl = ss.Max(b.n, o()...), sl.Max(b.n, o()...)
		case "Len":
			ss, sl = ss.Len(b.n, o()...), sl.Len(b.n, o()...)
		case "After":
			st = st.After(at(b.n), o()...)
		case "Before":
			st = st.Before(at(b.n), o()...)
		case "EQ":
			st = st.EQ(at(b.n), o()...)
		}
	}
	holds := func(b bound, got int) bool {
		switch b.op {
		case "Min":
			return got >= b.n
		case "Max":
			return got <= b.n
		case "Len", "EQ":
			return got == b.n
		case "After":
			return got > b.n
		}
		return got < b.n // Before
	}
	code := map[string]string{"Min": "min", "Max": "max", "Len": "len", "After": "after", "Before": "before", "EQ": "eq"}
	subjS := ""
	if family == 0 {
		subjS = strings.Repeat("a", size)
	}
	subjL := make([]int, 0, 3)
	for i := 0; family == 1 && i < size; i++ {
		subjL = append(subjL, i+1)
	}
	var d c01Other
	var issues z.ZogIssueList
	flat := func(m z.ZogIssueMap) {
		for k, l := range m {
			if k != "$first" {
				issues = append(issues, l...)
			}
		}
	}
	if place == 0 {
		switch {
		case family == 0 && mode == 0:
			issues = ss.Parse(subjS, &d.S)
		case family == 0:
			d.S = subjS
			issues = ss.Validate(&d.S)
		case family == 1 && mode == 0:
			in := []any{}
			for _, v := range subjL {
				in = append(in, v)
			}
			flat(sl.Parse(in, &d.L))
		case family == 1:
			d.L = subjL
			flat(sl.Validate(&d.L))
		case mode == 0:
			issues = st.Parse(at(size), &d.T)
		default:
			d.T = at(size)
			issues = st.Validate(&d.T)
		}
	} else {
		sc := z.Struct(z.Schema{"s": ss.Optional(), "l": sl.Optional(), "t": st.Optional()})
		if mode == 0 {
			in := map[string]any{}
			switch family {
			case 0:
				in["s"] = subjS
			case 1:
				in["l"] = subjL
			default:
				in["t"] = at(size)
			}
			flat(sc.Parse(in, &d))
		} else {
			switch family {
			case 0:
				d.S = subjS
			case 1:
				d.L = subjL
			default:
				d.T = at(size)
			}
			flat(sc.Validate(&d))
		}
	}
	zh.Reset()
	got := 0
	switch family {
	case 0:
		got = len(d.S)
	case 1:
		got = len(d.L)
	default:
		got = int(d.T.Sub(t0) / time.Second)
	}
	var want, codes []string
	for _, b := range chain {
		if !holds(b, got) {
			want = append(want, code[b.op])
		}
	}
	for _, is := range issues {
		codes = append(codes, is.Code)
	}
	fam := []string{"String()", "Slice(Int())", "Time()"}[family]
	out := &mc.Outcome{Traces: 1, Nontrivial: len(issues) == 0, Sig: fmt.Sprintf("chain|%s|%v|%d|%d|%v", fam, names, place, mode, len(issues) == 0)}
	out.Sample = map[string]any{"node": fam, "chain": names, "subject_size_or_offset": size, "placement": place, "mode": mode, "codes": codes}
	note := func() {
		x.Note("every bound with test option %d (0 none, 1 Params(extra entry), 2 Message)", optKind)
		x.Note("chain %v on %s (Time limits and subjects are seconds after 2020-01-01T00:00:00Z), subject size/offset %d, placement %d (0 top, 1 field), mode %d (0 Parse, 1 Validate)", names, fam, size, place, mode)
	}
	switch {
	case got != size && len(issues) == 0:
		note()
		out.Viol = append(out.Viol, &mc.Violation{Key: "C01:bound-chain:value:" + fam, What: "the destination does not hold the supplied value", Expected: fmt.Sprint(size), Observed: fmt.Sprint(got)})
	case len(issues) == 0 && len(want) > 0:
		note()
		out.Viol = append(out.Viol, &mc.Violation{Key: "C01:bound-chain:clean-despite-violation:" + fam, What: "no issue was reported although the destination value violates a declared bound", Expected: fmt.Sprintf("issues with codes %v", want), Observed: "no issues"})
	case !eqStrings(codes, want):
		note()
		out.Viol = append(out.Viol, &mc.Violation{Key: "C01:bound-chain:codes:" + fam, What: "the reported issues are not the failing declared bounds, one each, in declaration order", Expected: fmt.Sprint(want), Observed: fmt.Sprint(codes)})
	}
	return out
}

// c01BoundOpts: test options that must not change what a bound means.
func c01BoundOpts(kind int) []z.TestOption {
	switch kind {
	case 1:
		return []z.TestOption{z.Params(map[string]any{"note": "shown in a custom message"})}
	case 2:
		return []z.TestOption{z.Message("out of bounds")}
	}
	return nil
}

// Several hand-written tests of one node may share their issue code, path and options (a family of rules reported
// under one code; the products of one reusable test factory): each is still a test of its own. One execution =
// one node kind (String, Int, Slice, Struct) carrying two or three such tests with different predicates, one
// subject, placement, mode: the number of issues is the number of violated predicates.
type c01Rules struct {
	S string
	N int
	L []int
}

func c01SharedCodeScenario(x *mc.X) *mc.Outcome {
	zh.Reset()
	zh.Install(x, zh.PoolLIFO, zh.OrderSorted)
	kind := x.Choose(4, "node kind")
	ntests := 2 + x.Choose(2, "tests")
	how := x.Choose(3, "declared through") // 0 TestFunc(fn, IssueCode), 1 Test(z.TestFunc(code, fn)), 2 Test(copies of one reusable z.Test value with another Func)
	subj := x.Choose(4, "subject")
	mode := x.Choose(2, "mode")
	strPreds := []func(string) bool{func(v string) bool { return len(v) >= 3 }, func(v string) bool { return strings.ContainsAny(v, "0123456789") }, func(v string) bool { return v != "abc1" }}
	intPreds := []func(int) bool{func(v int) bool { return v > 2 }, func(v int) bool { return v%2 == 0 }, func(v int) bool { return v != 8 }}
	lenPreds := []func(int) bool{func(n int) bool { return n >= 2 }, func(n int) bool { return n != 3 }, func(n int) bool { return n < 4 }}
	strSubj := []string{"abcd", "a1", "abc1", "zz"}[subj]
	intSubj := []int{4, 3, 8, 1}[subj]
	lstSubj := [][]int{{1, 2}, {1}, {1, 2, 3}, {1, 2, 3, 4}}[subj]
	violated := 0
	add := func(fn z.BoolTFunc, apply func(z.Test), applyFn func(z.BoolTFunc, ...z.TestOption)) {
		switch how {
		case 0:
			applyFn(fn, z.IssueCode("rule"))
		case 1:
			apply(z.TestFunc("rule", fn))
		default:
			// a reusable test value, copied and given this rule's function and the family's code
			reusable := z.TestFunc("reusable_generic_code", fn)
			q := reusable
			q.IssueCode = "rule"
			apply(q)
		}
	}
	var d c01Rules
	var issues []string
	flat := func(m z.ZogIssueMap) {
		for _, k := range sortedKeys(m) {
			if k != "$first" {
				for _, is := range m[k] {
					issues = append(issues, k+"|"+is.Code)
				}
			}
		}
	}
	ss, si, sl := z.String(), z.Int(), z.Slice(z.Int())
	st := z.Struct(z.Schema{"s": z.String(), "n": z.Int()})
	for i := 0; i < ntests; i++ {
		i := i
		switch kind {
		case 0:
			if !strPreds[i](strSubj) {
				violated++
			}
			add(func(v any, c z.Ctx) bool { return strPreds[i](v.(string)) }, func(t z.Test) { ss.Test(t) }, func(fn z.BoolTFunc, o ...z.TestOption) { ss.TestFunc(fn, o...) })
		case 1:
			if !intPreds[i](intSubj) {
				violated++
			}
			add(func(v any, c z.Ctx) bool { return intPreds[i](v.(int)) }, func(t z.Test) { si.Test(t) }, func(fn z.BoolTFunc, o ...z.TestOption) { si.TestFunc(fn, o...) })
		case 2:
			if !lenPreds[i](len(lstSubj)) {
				violated++
			}
			add(func(v any, c z.Ctx) bool { return lenPreds[i](len(*(v.(*[]int)))) }, func(t z.Test) { sl.Test(t) }, func(fn z.BoolTFunc, o ...z.TestOption) { sl.TestFunc(fn, o...) })
		default:
			if !intPreds[i](intSubj) {
				violated++
			}
			add(func(v any, c z.Ctx) bool { return intPreds[i](v.(*c01RulesSN).N) }, func(t z.Test) { st.Test(t) }, func(fn z.BoolTFunc, o ...z.TestOption) { st.TestFunc(fn, o...) })
		}
	}
	pmsg := func() (msg string) {
		defer func() {
			if r := recover(); r != nil {
				msg = firstLine(fmt.Sprint(r))
			}
		}()
		switch kind {
		case 0:
			sc := z.Struct(z.Schema{"s": ss})
			if mode == 0 {
				flat(sc.Parse(map[string]any{"s": strSubj}, &d))
			} else {
				d.S = strSubj
				flat(sc.Validate(&d))
			}
		case 1:
			sc := z.Struct(z.Schema{"n": si})
			if mode == 0 {
				flat(sc.Parse(map[string]any{"n": intSubj}, &d))
			} else {
				d.N = intSubj
				flat(sc.Validate(&d))
			}
		case 2:
			sc := z.Struct(z.Schema{"l": sl})
			if mode == 0 {
				flat(sc.Parse(map[string]any{"l": lstSubj}, &d))
			} else {
				d.L = append([]int(nil), lstSubj...)
				flat(sc.Validate(&d))
			}
		default:
			var r c01RulesSN
			if mode == 0 {
				flat(st.Parse(map[string]any{"s": "x", "n": intSubj}, &r))
			} else {
				r = c01RulesSN{S: "x", N: intSubj}
				flat(st.Validate(&r))
			}
		}
		return ""
	}()
	zh.Reset()
	kinds := []string{"String field", "Int field", "Slice field", "Struct (record-level tests)"}
	out := &mc.Outcome{Traces: 1, Nontrivial: len(issues) == 0, Sig: fmt.Sprintf("sharedcode|%d|%d|%d|%d|%d", kind, ntests, how, subj, mode)}
	out.Sample = map[string]any{"node": kinds[kind], "tests": ntests, "declared_through": how, "subject": subj, "mode": mode, "issues": issues}
	if pmsg != "" || len(issues) != violated {
		x.Note("%s carrying %d hand-written tests that share the issue code \"rule\" (declared through %d: 0 TestFunc+IssueCode, 1 Test(z.TestFunc(code, fn)), 2 products of one factory), subject #%d, mode %d", kinds[kind], ntests, how, subj, mode)
		key := "C01:tests-sharing-a-code:issues"
		if len(issues) < violated {
			key = "C01:tests-sharing-a-code:clean-despite-violation"
		}
		out.Viol = append(out.Viol, &mc.Violation{Key: key, What: "every declared test is a test of its own, also when several share one issue code: one issue per violated predicate", Expected: fmt.Sprintf("%d issues", violated), Observed: fmt.Sprintf("panic=%q %v", pmsg, issues)})
	}
	return out
}

type c01RulesSN struct {
	S string
	N int
}

// A Go struct value (or a pointer to one) is an input like a map: what its fields hold is what is parsed. One
// execution = one record {Age Int.GT(0), On Bool.True, Ratio Float64.GTE(0.5), Name String.Min(2), When Time.After,
// In: {Qty Int.GT(0)}, Rows: [{Qty}]} whose fields each hold their zero value, a failing value or a valid one,
// given as a struct, as a pointer to the struct and as the equivalent map: the three results are the same
// (C01 reports the struct forms that come back clean, or with fewer issues, than the map form).
type c01InQty struct{ Qty int }

type c01In struct {
	Age   int
	On    bool
	Ratio float64
	Name  string
	When  time.Time
	In    c01InQty
	Rows  []c01InQty
}

func c01StructInputScenario(x *mc.X) *mc.Outcome {
	zh.Reset()
	zh.Install(x, zh.PoolLIFO, zh.OrderSorted)
	t0 := time.Date(2020, 1, 1, 0, 0, 0, 0, time.UTC)
	cls := func(label string) int { return x.Choose(3, label) } // 0 zero value, 1 failing non-zero, 2 valid
	var in c01In
	m := map[string]any{}
	ca, co, cr, cn, cw, cq, crow := cls("Age"), cls("On"), cls("Ratio"), cls("Name"), cls("When"), cls("In.Qty"), cls("Rows[1].Qty")
	in.Age = []int{0, -3, 30}[ca]
	in.On = []bool{false, false, true}[co]
	in.Ratio = []float64{0, 0.25, 0.75}[cr]
	in.Name = []string{"", "x", "ann"}[cn]
	in.When = []time.Time{{}, t0.Add(-time.Hour), t0.Add(time.Hour)}[cw]
	in.In.Qty = []int{0, -1, 4}[cq]
	in.Rows = []c01InQty{{Qty: 5}, {Qty: []int{0, -1, 4}[crow]}}
	m["Age"], m["On"], m["Ratio"], m["Name"], m["When"] = in.Age, in.On, in.Ratio, in.Name, in.When
	m["In"] = map[string]any{"Qty": in.In.Qty}
	m["Rows"] = []any{map[string]any{"Qty": 5}, map[string]any{"Qty": in.Rows[1].Qty}}
	mk := func() *z.StructSchema {
		q := func() *z.StructSchema { return z.Struct(z.Schema{"Qty": z.Int().GT(0)}) }
		return z.Struct(z.Schema{"Age": z.Int().GT(0), "On": z.Bool().True(), "Ratio": z.Float64().GTE(0.5), "Name": z.String().Min(2), "When": z.Time().After(t0), "In": q(), "Rows": z.Slice(q())})
	}
	run := func(data any) (iss []string, dest string, pmsg string) {
		defer func() {
			if r := recover(); r != nil {
				pmsg = firstLine(fmt.Sprint(r))
			}
		}()
		var d c01In
		res := mk().Parse(data, &d)
		for _, k := range sortedKeys(res) {
			if k != "$first" {
				for _, is := range res[k] {
					iss = append(iss, k+"|"+is.Code)
				}
			}
		}
		return iss, fmt.Sprintf("%+v", d), ""
	}
	wi, wd, wp := run(m)
	zh.Reset()
	out := &mc.Outcome{Traces: 3, Nontrivial: len(wi) > 0, Sig: fmt.Sprintf("structin|%d%d%d%d%d%d%d", ca, co, cr, cn, cw, cq, crow)}
	out.Sample = map[string]any{"classes(Age,On,Ratio,Name,When,In.Qty,Rows[1].Qty; 0 zero 1 failing 2 valid)": []int{ca, co, cr, cn, cw, cq, crow}, "issues_as_map": wi}
	for _, form := range []struct {
		name string
		data any
	}{{"struct value", in}, {"pointer to struct", &in}} {
		gi, gd, gp := run(form.data)
		zh.Reset()
		if gp != wp || !eqStrings(gi, wi) || gd != wd {
			key := "C01:struct-input:differs-from-map"
			if len(gi) < len(wi) {
				key = "C01:struct-input:clean-despite-violation"
			}
			x.Note("input given as %s; field classes (Age, On, Ratio, Name, When, In.Qty, Rows[1].Qty; 0 zero value, 1 failing, 2 valid): %v", form.name, []int{ca, co, cr, cn, cw, cq, crow})
			out.Viol = append(out.Viol, &mc.Violation{Key: key, What: "a record given as a Go struct is not parsed like the same record given as a map", Expected: fmt.Sprintf("panic=%q issues=%v dest=%s", wp, wi, wd), Observed: fmt.Sprintf("panic=%q issues=%v dest=%s", gp, gi, gd)})
			break
		}
	}
	return out
}

// The substring tests on every subject of up to five symbols drawn from the parameter's own letters (and one
// other letter): subjects shorter than, as long as and longer than the parameter, matching and not. C01 reports
// the accepted values that do not satisfy the test.
func c01ShortSubjectItems() []Item {
	sub := func(name, code string, build func(s *z.StringSchema[string], not bool) *z.StringSchema[string], pred func(v string) bool) strTest {
		return strTest{name, code, build, pred, false}
	}
	tests := []strTest{
		sub(`HasSuffix(".com")`, "suffix", func(s *z.StringSchema[string], not bool) *z.StringSchema[string] {
			if not {
				return s.Not().HasSuffix(".com")
			}
			return s.HasSuffix(".com")
		}, func(v string) bool { return strings.HasSuffix(v, ".com") }),
		sub(`HasPrefix(".com")`, "prefix", func(s *z.StringSchema[string], not bool) *z.StringSchema[string] {
			if not {
				return s.Not().HasPrefix(".com")
			}
			return s.HasPrefix(".com")
		}, func(v string) bool { return strings.HasPrefix(v, ".com") }),
		sub(`Contains(".com")`, "contained", func(s *z.StringSchema[string], not bool) *z.StringSchema[string] {
			if not {
				return s.Not().Contains(".com")
			}
			return s.Contains(".com")
		}, func(v string) bool { return strings.Contains(v, ".com") }),
	}
	var items []Item
	for _, t := range tests {
		for _, not := range []bool{false, true} {
			inner := c20StringItem(t, not, []string{".", "c", "o", "m", "a"}, 5)
			name := t.name
			if not {
				name = "Not()." + name
			}
			items = append(items, Item{Name: "builtin-tests-on-short-values/" + name, MaxDevs: -1, Run: func(x *mc.X) *mc.Outcome {
				out := inner(x)
				var keep []*mc.Violation
				for _, v := range out.Viol {
					if strings.HasSuffix(v.Key, "want_pass=false") { // a value that violates the test was accepted
						v.Key = "C01:builtin-short-value:" + strings.TrimPrefix(v.Key, "C20:")
						keep = append(keep, v)
					}
				}
				out.Viol = keep
				return out
			}})
		}
	}
	return items
}
