package scen

// C13 (continued): Custom schemas. The function of a z.CustomFunc receives the pointer to the value; whatever it
// does through that pointer (normalising, appending) and whatever it reports must be the same in Validate and in
// Parse of the same value. One execution = one (value type and function, value, placement), Validate in place vs
// Parse of the value presented as input: issues and resulting values compared.

import (
	"fmt"
	"reflect"
	"strings"

	z "github.com/Oudwins/zog"
	"zogverif/mc"
	"zogverif/zh"
)

type c13Code struct {
	Code string
	N    int
}

func c13CustomScenario(x *mc.X) *mc.Outcome {
	zh.Reset()
	zh.Install(x, zh.PoolLIFO, zh.OrderSorted)
	kind := x.Choose(4, "custom type and function")
	vi := x.Choose(3, "value")
	place := x.Choose(4, "placement") // 0 top, 1 field, 2 element, 3 behind pointer
	var sch z.ZogSchema
	var val any
	var name string
	switch kind {
	case 0:
		name = "Custom[string]: trims and lower-cases through its pointer, accepts ≥3 bytes"
		sch = z.CustomFunc(func(p *string, c z.Ctx) bool { *p = strings.ToLower(strings.TrimSpace(*p)); return len(*p) >= 3 }, z.IssueCode("short"))
		val = []string{" ABC-1 ", "xy", "Main"}[vi]
	case 1:
		name = "Custom[[]string]: appends a marker through its pointer, accepts ≤2 entries before"
		sch = z.CustomFunc(func(p *[]string, c z.Ctx) bool { ok := len(*p) <= 2; *p = append(*p, "seen"); return ok }, z.IssueCode("long"))
		val = [][]string{{"a"}, {"a", "b", "c"}, {"q", "r"}}[vi]
	case 2:
		name = "Custom[record]: rewrites a field through its pointer, accepts N>0"
		sch = z.CustomFunc(func(p *c13Code, c z.Ctx) bool { p.Code = strings.ToUpper(p.Code); return p.N > 0 }, z.IssueCode("nonpositive"))
		val = []c13Code{{"main", 7}, {"x", -1}, {"Q1", 1}}[vi]
	default:
		name = "Custom[int]: a pure predicate (writes nothing)"
		sch = z.CustomFunc(func(p *int, c z.Ctx) bool { return *p > 0 }, z.IssueCode("nonpositive"))
		val = []int{5, -5, 1}[vi]
	}
	vt := reflect.TypeOf(val)
	clone := func() reflect.Value { return deepCopy(reflect.ValueOf(val)) }
	run := func(validate bool) (iss []string, dest string, pmsg string) {
		defer func() {
			if r := recover(); r != nil {
				pmsg = firstLine(fmt.Sprint(r))
			}
		}()
		add := func(m z.ZogIssueMap) {
			for _, k := range sortedKeys(m) {
				if k != "$first" {
					for _, is := range m[k] {
						iss = append(iss, k+"|"+is.Code+"|"+is.Dtype+"|"+is.Message)
					}
				}
			}
		}
		var holder reflect.Value
		var wrap z.ZogSchema
		var input any
		switch place {
		case 0, 1:
			st := reflect.StructOf([]reflect.StructField{{Name: "V", Type: vt}})
			holder = reflect.New(st)
			wrap = z.Struct(z.Schema{"v": sch})
			input = map[string]any{"v": clone().Interface()}
			if validate {
				holder.Elem().Field(0).Set(clone())
			}
		case 2:
			holder = reflect.New(reflect.SliceOf(vt))
			wrap = z.Slice(sch)
			input = []any{clone().Interface()}
			if validate {
				holder.Elem().Set(reflect.Append(holder.Elem(), clone()))
			}
		default:
			st := reflect.StructOf([]reflect.StructField{{Name: "V", Type: reflect.PointerTo(vt)}})
			holder = reflect.New(st)
			wrap = z.Struct(z.Schema{"v": z.Ptr(sch)})
			input = map[string]any{"v": clone().Interface()}
			if validate {
				pv := reflect.New(vt)
				pv.Elem().Set(clone())
				holder.Elem().Field(0).Set(pv)
			}
		}
		if place == 0 {
			// top level: the schema itself on the bare value
			d := reflect.New(vt)
			switch s := sch.(type) {
			case *z.Custom[string]:
				dp := d.Interface().(*string)
				if validate {
					*dp = val.(string)
					for _, is := range s.Validate(dp) {
						iss = append(iss, is.Path+"|"+is.Code+"|"+is.Dtype+"|"+is.Message)
					}
				} else {
					for _, is := range s.Parse(val, dp) {
						iss = append(iss, is.Path+"|"+is.Code+"|"+is.Dtype+"|"+is.Message)
					}
				}
			case *z.Custom[[]string]:
				dp := d.Interface().(*[]string)
				if validate {
					*dp = clone().Interface().([]string)
					for _, is := range s.Validate(dp) {
						iss = append(iss, is.Path+"|"+is.Code+"|"+is.Dtype+"|"+is.Message)
					}
				} else {
					for _, is := range s.Parse(clone().Interface(), dp) {
						iss = append(iss, is.Path+"|"+is.Code+"|"+is.Dtype+"|"+is.Message)
					}
				}
			case *z.Custom[c13Code]:
				dp := d.Interface().(*c13Code)
				if validate {
					*dp = val.(c13Code)
					for _, is := range s.Validate(dp) {
						iss = append(iss, is.Path+"|"+is.Code+"|"+is.Dtype+"|"+is.Message)
					}
				} else {
					for _, is := range s.Parse(val, dp) {
						iss = append(iss, is.Path+"|"+is.Code+"|"+is.Dtype+"|"+is.Message)
					}
				}
			case *z.Custom[int]:
				dp := d.Interface().(*int)
				if validate {
					*dp = val.(int)
					for _, is := range s.Validate(dp) {
						iss = append(iss, is.Path+"|"+is.Code+"|"+is.Dtype+"|"+is.Message)
					}
				} else {
					for _, is := range s.Parse(val, dp) {
						iss = append(iss, is.Path+"|"+is.Code+"|"+is.Dtype+"|"+is.Message)
					}
				}
			}
			return iss, canonNoTypes(d.Elem()), ""
		}
		switch w := wrap.(type) {
		case *z.StructSchema:
			if validate {
				add(w.Validate(holder.Interface()))
			} else {
				add(w.Parse(input, holder.Interface()))
			}
		case *z.SliceSchema:
			if validate {
				add(w.Validate(holder.Interface()))
			} else {
				add(w.Parse(input, holder.Interface()))
			}
		}
		return iss, canonNoTypes(holder.Elem()), ""
	}
	vi1, vd, vp := run(true)
	pi1, pd, pp := run(false)
	zh.Reset()
	out := &mc.Outcome{Traces: 2, Nontrivial: true, Sig: fmt.Sprintf("custom|%d|%d|%d|%v", kind, vi, place, vi1)}
	out.Sample = map[string]any{"schema": name, "value": canonNoTypes(reflect.ValueOf(val)), "placement": place, "validate_issues": vi1, "validate_value": vd}
	class := ""
	switch {
	case vp != pp:
		class = "panic"
	case !eqStrings(vi1, pi1):
		class = "issues"
	case vd != pd:
		class = "value"
	}
	if class != "" {
		x.Note("%s; value %s; placement %d (0 top, 1 field, 2 element, 3 behind pointer)", name, canonNoTypes(reflect.ValueOf(val)), place)
		out.Viol = append(out.Viol, &mc.Violation{Key: fmt.Sprintf("C13:custom:%s:%d", class, kind), What: "Validate in place and Parse of the same value disagree on a Custom schema", Expected: fmt.Sprintf("Validate: panic=%q issues=%v value=%s", vp, vi1, vd), Observed: fmt.Sprintf("Parse: panic=%q issues=%v value=%s", pp, pi1, pd)})
	}
	return out
}
