package scen

// Call sequences with retained results and re-entrant calls.
//
// The pool-state search of C07 decides what recycled objects can carry from one
// call into the next. This family decides what anything else can carry: state
// kept outside the pools (singletons, caches, memoised values), results that a
// caller still holds while later calls run, and executions that overlap in
// time on one goroutine because a test, transform or preprocess function runs
// another schema. One execution = one sequence of ≤L calls drawn from a closed
// alphabet of call kinds; every call's complete observation (issues with every
// field, destination) must equal the observation of the same call made first
// in a fresh process state, and every result handed back earlier must still
// read exactly as it did when it was returned.

import (
	"fmt"
	"net/http"
	"net/http/httptest"
	"reflect"
	"strings"

	z "github.com/Oudwins/zog"
	"github.com/Oudwins/zog/parsers/zjson"
	"github.com/Oudwins/zog/zhttp"
	"github.com/Oudwins/zog/zverif"
	"zogverif/mc"
	"zogverif/zh"
)

type callAddr struct {
	Street string `json:"street_line" query:"qstreet" form:"fstreet"`
}

type callRec struct {
	Name string   `json:"full_name" query:"qname" form:"fname"`
	Addr callAddr `json:"home" query:"qhome" form:"fhome"`
	Tags []string `json:"labels" query:"qlabels" form:"flabels"`
}

type callOuter struct {
	A string
	B int
}

// callWorld holds the schema objects shared by all calls of one sequence.
type callWorld struct {
	str    *z.StringSchema[string]
	num    *z.NumberSchema[int]
	rec    *z.StructSchema
	list   *z.SliceSchema
	ptr    *z.PointerSchema
	custom *z.Custom[string]     // a custom schema with its own code, message and params
	withC  *z.StructSchema       // struct with a custom field next to a tested primitive field
	listC  *z.SliceSchema        // slice of custom elements
	opted  *z.StringSchema[string] // a test carrying every option (path, code, message, params)
	ctxStr *z.StringSchema[string] // a test whose message renders what the call's context holds under k and k2
	optK   z.ExecOption          // ONE option value (WithCtxValue(k, shared)) that several calls pass, as code that builds its options once does
	optF   z.ExecOption          // likewise one WithIssueFormatter value
	sentinel *z.ZogIssue         // a long-lived issue value the caller's functions return as their error (a package-level sentinel)
	callers []*callObj           // values the caller owns and the library merely sees (never modified, never recycled)
	objects []*callObj           // the shared schema objects, with the deep snapshot taken right after construction
	kinds  []*callKind
	byName map[string]*callKind
	held   []*callHeld
	x      *mc.X
}

type callObj struct {
	name string
	obj  any
	snap string
}

type callWithCustom struct {
	Id   string
	Name string
}

// a destination whose field is renamed to the empty key
type callEmptyTag struct {
	Age  int
	Name string `zog:""`
	Zip  string
}

type callHeld struct {
	kind   string
	result any
	dest   any
	snap   string
}

type callKind struct {
	name    string
	class   string // coarse class used in violation keys
	reenter bool
	run     func(w *callWorld) (result any, dest any)
}

func callObs(result, dest any) string {
	return zh.CanonString(struct {
		Result any
		Dest   any
	}{result, dest})
}

// clean reports whether a result carries no issue.
func callClean(result any) bool {
	switch r := result.(type) {
	case z.ZogIssueList:
		return len(r) == 0
	case z.ZogIssueMap:
		return len(r) == 0
	}
	return result == nil
}

func callIssueSig(result any) string {
	var parts []string
	switch r := result.(type) {
	case z.ZogIssueList:
		for _, i := range r {
			parts = append(parts, fmt.Sprintf("%s|%s|%s|%s|%v", i.Path, i.Code, i.Dtype, i.Message, i.Params))
		}
	case z.ZogIssueMap:
		for _, k := range mc.SortedKeys(r) {
			for _, i := range r[k] {
				parts = append(parts, fmt.Sprintf("%s:%s|%s|%s|%s|%v", k, i.Path, i.Code, i.Dtype, i.Message, i.Params))
			}
		}
	}
	return strings.Join(parts, " ; ")
}

func callRecDocs() map[string]map[string]any {
	return map[string]map[string]any{
		"valid":        {"name": "alice", "addr": map[string]any{"street": "main"}, "tags": []any{"aa", "bb"}},
		"failing":      {"name": "x", "addr": map[string]any{}, "tags": []any{"a", "bb"}},
		"empty":        {},
		"nested-empty": {"name": "alice", "addr": map[string]any{}},
		"nested-null":  {"name": "alice", "addr": nil, "tags": []any{"aa"}},
		"nested-wrong": {"name": "alice", "addr": "x", "tags": "aa"},
	}
}

// rename keys of a record document to the tag names of one source
func callRetag(doc map[string]any, tag string) map[string]any {
	top := map[string]string{"name": "full_name", "addr": "home", "tags": "labels"}
	if tag == "" {
		return doc
	}
	out := map[string]any{}
	for k, v := range doc {
		if k == "addr" {
			if m, ok := v.(map[string]any); ok {
				mm := map[string]any{}
				for kk, vv := range m {
					mm["street_line"] = vv
					_ = kk
				}
				v = mm
			}
		}
		out[top[k]] = v
	}
	return out
}

func callJSON(v any) string {
	switch t := v.(type) {
	case nil:
		return "null"
	case string:
		return fmt.Sprintf("%q", t)
	case []any:
		var ps []string
		for _, e := range t {
			ps = append(ps, callJSON(e))
		}
		return "[" + strings.Join(ps, ",") + "]"
	case map[string]any:
		var ps []string
		for _, k := range mc.SortedKeys(t) {
			ps = append(ps, fmt.Sprintf("%q:%s", k, callJSON(t[k])))
		}
		return "{" + strings.Join(ps, ",") + "}"
	}
	return fmt.Sprint(v)
}

// callOrder(false): every map is iterated in sorted key order. callOrder(true): the first field
// loop of a struct schema that starts next (the outer execution's) visits its fields in reverse,
// everything else stays sorted.
func callOrder(rev bool) {
	used := !rev
	zverif.OrderHook = func(site string, n int) []int {
		if used || !strings.HasPrefix(site, "struct.go") {
			return nil
		}
		used = true
		p := make([]int, n)
		for i := range p {
			p[i] = n - 1 - i
		}
		return p
	}
}

func newCallWorld(x *mc.X) *callWorld {
	w := &callWorld{x: x, byName: map[string]*callKind{}}
	w.str = z.String().Min(3).Contains("z")
	w.num = z.Int().GT(5)
	w.rec = z.Struct(z.Schema{
		"name": z.String().Min(3).Required(),
		"addr": z.Struct(z.Schema{"street": z.String().Min(2).Required()}),
		"tags": z.Slice(z.String().Min(2)),
	})
	w.list = z.Slice(z.String().Min(2))
	w.ptr = z.Ptr(z.Int().GT(5))
	w.custom = z.CustomFunc(func(p *string, c z.Ctx) bool { return len(*p) == 4 }, z.IssueCode("bad_id"), z.Message("invalid id"), z.Params(map[string]any{"len": 4}))
	w.withC = z.Struct(z.Schema{"id": w.custom, "name": z.String().Min(3)})
	w.listC = z.Slice(z.CustomFunc(func(p *string, c z.Ctx) bool { return len(*p) == 4 }, z.IssueCode("bad_el"), z.Message("invalid element")))
	w.opted = z.String().Min(1, z.IssuePath("alias"), z.IssueCode("opt_min"), z.Message("own message"), z.Params(map[string]any{"own": true})).PostTransform(func(p any, c z.Ctx) error {
		if *(p.(*string)) == "boom" {
			return fmt.Errorf("transform failed")
		}
		return nil
	})
	w.ctxStr = z.String().TestFunc(func(v any, c z.Ctx) bool { return false }, z.IssueCode("ctx_probe"), z.MessageFunc(func(e *z.ZogIssue, c z.Ctx) {
		e.SetMessage(fmt.Sprintf("k=%v k2=%v", c.Get("k"), c.Get("k2")))
	})).Min(3)
	w.sentinel = (&z.ZogIssue{}).SetCode("account_blocked").SetMessage("this account is blocked").SetPath("account")
	w.callers = append(w.callers, &callObj{name: "the sentinel issue returned by the caller's functions", obj: w.sentinel, snap: zh.CanonString(w.sentinel)})
	w.optK = z.WithCtxValue("k", "shared")
	w.optF = z.WithIssueFormatter(func(e *z.ZogIssue, c z.Ctx) { e.SetMessage(fmt.Sprintf("shared-formatter k2=%v", c.Get("k2"))) })
	for _, o := range []struct {
		n string
		v any
	}{{"String schema", w.str}, {"Int schema", w.num}, {"record schema", w.rec}, {"Slice schema", w.list}, {"Ptr schema", w.ptr}, {"Custom schema", w.custom}, {"Struct with a Custom field", w.withC}, {"Slice of Custom", w.listC}, {"String schema with an optioned test", w.opted}} {
		w.objects = append(w.objects, &callObj{name: o.n, obj: o.v, snap: zh.CanonStringHidden(o.v)})
	}
	add := func(k *callKind) {
		w.kinds = append(w.kinds, k)
		w.byName[k.name] = k
	}
	// primitives (list results)
	for _, in := range []struct {
		n string
		v any
	}{{"two-failing-tests", "ab"}, {"ok", "abz"}, {"one-failing-test", "abcd"}} {
		in := in
		add(&callKind{name: "String.Parse/" + in.n, class: "primitive", run: func(w *callWorld) (any, any) {
			var d string
			return w.str.Parse(in.v, &d), &d
		}})
	}
	add(&callKind{name: "String.Validate/two-failing-tests", class: "primitive", run: func(w *callWorld) (any, any) {
		d := "ab"
		return w.str.Validate(&d), &d
	}})
	add(&callKind{name: "String.Parse/two-failing-tests+ctx-value+formatter", class: "primitive", run: func(w *callWorld) (any, any) {
		var d string
		return w.str.Parse("ab", &d, z.WithCtxValue("k", "v"), z.WithIssueFormatter(func(e *z.ZogIssue, c z.Ctx) { e.SetMessage("own-formatter") })), &d
	}})
	// a user function that rejects by returning a long-lived *ZogIssue (the caller's own sentinel value)
	add(&callKind{name: "Preprocess.Validate/function returns the caller's sentinel issue", class: "primitive", run: func(w *callWorld) (any, any) {
		d := "blocked"
		s := z.Preprocess(func(p *string, c z.Ctx) (string, error) { return "", w.sentinel }, z.String().Min(3))
		return s.Validate(&d), &d
	}})
	add(&callKind{name: "Preprocess.Parse/function returns the caller's sentinel issue", class: "primitive", run: func(w *callWorld) (any, any) {
		var d string
		s := z.Preprocess(func(v string, c z.Ctx) (string, error) { return "", w.sentinel }, z.String().Min(3))
		return s.Parse("blocked", &d), &d
	}})
	add(&callKind{name: "String.PostTransform/function returns the caller's sentinel issue", class: "primitive", run: func(w *callWorld) (any, any) {
		d := "okay"
		s := z.String().PostTransform(func(p any, c z.Ctx) error { return w.sentinel })
		return s.Validate(&d), &d
	}})
	// option values built once and passed to several calls
	add(&callKind{name: "String.Parse/shared-option-value", class: "primitive", run: func(w *callWorld) (any, any) {
		var d string
		return w.ctxStr.Parse("ab", &d, w.optK), &d
	}})
	add(&callKind{name: "String.Parse/shared-option-value-then-another-key", class: "primitive", run: func(w *callWorld) (any, any) {
		var d string
		return w.ctxStr.Parse("ab", &d, w.optK, z.WithCtxValue("k2", "extra")), &d
	}})
	add(&callKind{name: "String.Parse/shared-option-value-then-the-same-key", class: "primitive", run: func(w *callWorld) (any, any) {
		var d string
		return w.ctxStr.Parse("ab", &d, w.optK, z.WithCtxValue("k", "override")), &d
	}})
	add(&callKind{name: "String.Parse/another-key-then-shared-option-value+shared-formatter", class: "primitive", run: func(w *callWorld) (any, any) {
		var d string
		return w.ctxStr.Parse("ab", &d, z.WithCtxValue("k2", "first"), w.optK, w.optF), &d
	}})
	add(&callKind{name: "String.Validate/shared-formatter-value", class: "primitive", run: func(w *callWorld) (any, any) {
		d := "ab"
		return w.ctxStr.Validate(&d, w.optF), &d
	}})
	for _, in := range []struct {
		n string
		v any
	}{{"failing-test", 1}, {"ok", 9}, {"uncoercible", "abc"}} {
		in := in
		add(&callKind{name: "Int.Parse/" + in.n, class: "primitive", run: func(w *callWorld) (any, any) {
			var d int
			return w.num.Parse(in.v, &d), &d
		}})
	}
	// slices and pointers (map results)
	add(&callKind{name: "Slice.Parse/two-failing-elements", class: "slice", run: func(w *callWorld) (any, any) {
		var d []string
		return w.list.Parse([]any{"a", "bb", "c"}, &d), &d
	}})
	add(&callKind{name: "Slice.Parse/ok", class: "slice", run: func(w *callWorld) (any, any) {
		var d []string
		return w.list.Parse([]any{"aa", "bb"}, &d), &d
	}})
	add(&callKind{name: "Slice.Validate/one-failing-element", class: "slice", run: func(w *callWorld) (any, any) {
		d := []string{"aa", "b"}
		return w.list.Validate(&d), &d
	}})
	add(&callKind{name: "Ptr.Parse/nil", class: "pointer", run: func(w *callWorld) (any, any) {
		var d *int
		return w.ptr.Parse(nil, &d), &d
	}})
	add(&callKind{name: "Ptr.Parse/failing", class: "pointer", run: func(w *callWorld) (any, any) {
		var d *int
		return w.ptr.Parse(1, &d), &d
	}})
	// custom schemas: alone, as a struct field next to a tested field, as slice elements
	for _, in := range []struct{ n, v string }{{"ok", "abcd"}, {"failing", "ab"}} {
		in := in
		add(&callKind{name: "Custom.Parse/" + in.n, class: "custom", run: func(w *callWorld) (any, any) {
			var d string
			return w.custom.Parse(in.v, &d), &d
		}})
		add(&callKind{name: "Struct{custom,tested}.Parse/custom " + in.n, class: "custom-nested", run: func(w *callWorld) (any, any) {
			var d callWithCustom
			return w.withC.Parse(map[string]any{"id": in.v, "name": "x"}, &d), &d
		}})
		add(&callKind{name: "Struct{custom,tested}.Validate/custom " + in.n, class: "custom-nested", run: func(w *callWorld) (any, any) {
			d := callWithCustom{Id: in.v, Name: "alice"}
			return w.withC.Validate(&d), &d
		}})
		add(&callKind{name: "Slice(custom).Parse/second " + in.n, class: "custom-nested", run: func(w *callWorld) (any, any) {
			var d []string
			return w.listC.Parse([]any{"abcd", in.v}, &d), &d
		}})
	}
	// a test carrying every option, followed on the same node by a failing / passing PostTransform
	for _, in := range []struct{ n, v string }{{"test fails", ""}, {"test passes, transform fails", "boom"}, {"all ok", "fine"}} {
		in := in
		add(&callKind{name: "String(optioned test).Validate/" + in.n, class: "optioned", run: func(w *callWorld) (any, any) {
			d := in.v
			return w.opted.Validate(&d), &d
		}})
	}
	add(&callKind{name: "String(optioned test).Parse/all ok", class: "optioned", run: func(w *callWorld) (any, any) {
		var d string
		return w.opted.Parse("fine", &d), &d
	}})
	add(&callKind{name: "Struct.PostTransform(fails).Parse [no test of its own]", class: "optioned", run: func(w *callWorld) (any, any) {
		s := z.Struct(z.Schema{"a": z.String()}).PostTransform(func(p any, c z.Ctx) error { return fmt.Errorf("record transform failed") })
		var d callOuter
		return s.Parse(map[string]any{"a": "x"}, &d), &d
	}})
	// unusual but legal destinations: a field whose tag renames it to the empty key (visited first, in the middle, last)
	for _, rev := range []bool{false, true} {
		rev := rev
		for _, validate := range []bool{false, true} {
			validate := validate
			add(&callKind{name: fmt.Sprintf("Struct(field tagged zog:\"\")/validate=%v/reversed=%v", validate, rev), class: "empty-key", run: func(w *callWorld) (any, any) {
				s := z.Struct(z.Schema{"age": z.Int().GT(5), "name": z.String().Min(3), "zip": z.String().Min(5)})
				callOrder(rev)
				defer callOrder(false)
				if validate {
					d := callEmptyTag{Age: 1, Name: "x", Zip: "1"}
					return s.Validate(&d), &d
				}
				var d callEmptyTag
				return s.Parse(map[string]any{"age": 1, "": "x", "zip": "1"}, &d), &d
			}})
		}
	}
	// the record through four front ends
	docs := callRecDocs()
	for _, dn := range []string{"valid", "failing", "empty", "nested-empty", "nested-null", "nested-wrong"} {
		dn := dn
		add(&callKind{name: "Record.Parse/gomap/" + dn, class: "record-gomap", run: func(w *callWorld) (any, any) {
			var d callRec
			return w.rec.Parse(callRecDocs()[dn], &d), &d
		}})
		body := callJSON(callRetag(docs[dn], "json"))
		add(&callKind{name: "Record.Parse/zjson/" + dn, class: "record-json", run: func(w *callWorld) (any, any) {
			var d callRec
			return w.rec.Parse(zjson.Decode(strings.NewReader(body)), &d), &d
		}})
		add(&callKind{name: "Record.Parse/zhttp-json/" + dn, class: "record-json", run: func(w *callWorld) (any, any) {
			var d callRec
			r := httptest.NewRequest(http.MethodPost, "/", strings.NewReader(body))
			r.Header.Set("Content-Type", "application/json")
			return w.rec.Parse(zhttp.Request(r), &d), &d
		}})
	}
	add(&callKind{name: "Record.Parse/zjson/null-document", class: "record-json", run: func(w *callWorld) (any, any) {
		var d callRec
		return w.rec.Parse(zjson.Decode(strings.NewReader("null")), &d), &d
	}})
	add(&callKind{name: "Record.Parse/zjson/malformed-document", class: "record-json", run: func(w *callWorld) (any, any) {
		var d callRec
		return w.rec.Parse(zjson.Decode(strings.NewReader("{")), &d), &d
	}})
	// front ends that fail to decode, into a top-level pointer and into a struct
	add(&callKind{name: "Ptr(Record).Parse/zjson/malformed-document", class: "record-json", run: func(w *callWorld) (any, any) {
		var d *callRec
		return z.Ptr(w.rec).Parse(zjson.Decode(strings.NewReader("{")), &d), &d
	}})
	add(&callKind{name: "Ptr(Record).Parse/zhttp-json/null-document", class: "record-json", run: func(w *callWorld) (any, any) {
		var d *callRec
		r := httptest.NewRequest(http.MethodPost, "/", strings.NewReader("null"))
		r.Header.Set("Content-Type", "application/json")
		return z.Ptr(w.rec).Parse(zhttp.Request(r), &d), &d
	}})
	add(&callKind{name: "Ptr(Record).Parse/zhttp-form/malformed-body", class: "record-flat", run: func(w *callWorld) (any, any) {
		var d *callRec
		r := httptest.NewRequest(http.MethodPost, "/", strings.NewReader("a=%zz"))
		r.Header.Set("Content-Type", "application/x-www-form-urlencoded")
		return z.Ptr(w.rec).Parse(zhttp.Request(r), &d), &d
	}})
	add(&callKind{name: "Slice(Slice(String.Catch)).Min(3).Parse/one row [three nested contexts, failing container test]", class: "slice", run: func(w *callWorld) (any, any) {
		var d [][]string
		return z.Slice(z.Slice(z.String().Min(2).Catch("x"))).Min(3).Parse([]any{[]any{"a", "bb"}}, &d), &d
	}})
	for _, q := range []struct{ n, q string }{
		{"valid", "qname=alice&qstreet=main&qlabels=aa&qlabels=bb"},
		{"failing", "qname=x&qlabels=a&qlabels=bb"},
		{"empty", ""},
	} {
		q := q
		add(&callKind{name: "Record.Parse/zhttp-query/" + q.n, class: "record-flat", run: func(w *callWorld) (any, any) {
			var d callRec
			r := httptest.NewRequest(http.MethodGet, "/?"+q.q, nil)
			return w.rec.Parse(zhttp.Request(r), &d), &d
		}})
	}
	add(&callKind{name: "Record.Validate/failing", class: "record-validate", run: func(w *callWorld) (any, any) {
		d := callRec{Name: "x", Tags: []string{"a", "bb"}}
		return w.rec.Validate(&d), &d
	}})
	add(&callKind{name: "Record.Validate/ok", class: "record-validate", run: func(w *callWorld) (any, any) {
		d := callRec{Name: "alice", Addr: callAddr{Street: "main"}, Tags: []string{"aa"}}
		return w.rec.Validate(&d), &d
	}})
	// re-entrant calls: a user function of the outer execution runs another execution to completion
	inners := []string{"String.Parse/two-failing-tests", "Int.Parse/failing-test", "Int.Parse/ok", "Slice.Parse/two-failing-elements", "Record.Parse/gomap/failing", "Record.Parse/zjson/nested-empty", "Record.Validate/failing"}
	for _, in := range inners {
		in := in
		nested := func(w *callWorld) {
			k := w.byName[in]
			w.exec(k, "nested in a user function")
		}
		for _, rev := range []bool{false, true} {
			rev := rev
			add(&callKind{name: fmt.Sprintf("Reentrant/field-test(b fails; reversed=%v)/%s", rev, in), class: "reentrant-field-test", reenter: true, run: func(w *callWorld) (any, any) {
				s := z.Struct(z.Schema{"a": z.String().TestFunc(func(v any, c z.Ctx) bool { nested(w); return true }), "b": z.Int().GT(5)})
				var d callOuter
				callOrder(rev)
				defer callOrder(false)
				return s.Parse(map[string]any{"a": "va", "b": 1}, &d), &d
			}})
		}
		add(&callKind{name: "Reentrant/struct-test(b fails)/" + in, class: "reentrant-struct-test", reenter: true, run: func(w *callWorld) (any, any) {
			s := z.Struct(z.Schema{"a": z.String(), "b": z.Int().GT(5)}).TestFunc(func(v any, c z.Ctx) bool { nested(w); return true })
			var d callOuter
			return s.Parse(map[string]any{"a": "va", "b": 1}, &d), &d
		}})
		add(&callKind{name: "Reentrant/struct-test.Validate(b fails)/" + in, class: "reentrant-struct-test", reenter: true, run: func(w *callWorld) (any, any) {
			s := z.Struct(z.Schema{"a": z.String(), "b": z.Int().GT(5)}).TestFunc(func(v any, c z.Ctx) bool { nested(w); return true })
			d := callOuter{A: "va", B: 1}
			return s.Validate(&d), &d
		}})
		add(&callKind{name: "Reentrant/primitive-test(Min fails first)/" + in, class: "reentrant-primitive-test", reenter: true, run: func(w *callWorld) (any, any) {
			s := z.String().Min(5).TestFunc(func(v any, c z.Ctx) bool { nested(w); return true })
			var d string
			return s.Parse("ab", &d), &d
		}})
		add(&callKind{name: "Reentrant/post-transform(all ok)/" + in, class: "reentrant-post-transform", reenter: true, run: func(w *callWorld) (any, any) {
			s := z.Struct(z.Schema{"a": z.String(), "b": z.Int().GT(5)}).PostTransform(func(p any, c z.Ctx) error { nested(w); return nil })
			var d callOuter
			return s.Parse(map[string]any{"a": "va", "b": 9}, &d), &d
		}})
		add(&callKind{name: "Reentrant/preprocess(wrapped Min fails)/" + in, class: "reentrant-preprocess", reenter: true, run: func(w *callWorld) (any, any) {
			s := z.Preprocess(func(data string, c z.Ctx) (string, error) { nested(w); return data, nil }, z.String().Min(5))
			var d string
			return s.Parse("ab", &d), &d
		}})
		add(&callKind{name: "Reentrant/slice-element-test(el 0 fails)/" + in, class: "reentrant-element-test", reenter: true, run: func(w *callWorld) (any, any) {
			s := z.Slice(z.String().Min(2).TestFunc(func(v any, c z.Ctx) bool {
				if v == "cc" {
					nested(w)
				}
				return true
			}))
			var d []string
			return s.Parse([]any{"a", "cc"}, &d), &d
		}})
	}
	return w
}

// callBaselines: the observation of every kind when it is the first call of a fresh process state.
var callBase map[string]string
var callBaseNested map[string][]string

func callBaselinesInit() {
	if callBase != nil {
		return
	}
	callBase = map[string]string{}
	callBaseNested = map[string][]string{}
	callBaseIssues = map[string]bool{}
	names := newCallWorld(nil).kinds
	for i := range names {
		zh.Reset()
		callOrder(false)
		w := newCallWorld(nil)
		k := w.kinds[i]
		res, dest := k.run(w)
		callBase[k.name] = callObs(res, dest)
		callBaseIssues[k.name] = !callClean(res)
		for _, h := range w.held {
			callBaseNested[k.name] = append(callBaseNested[k.name], h.snap)
		}
	}
	zh.Reset()
}

// exec runs a (nested) call, compares it with its baseline and keeps its result.
func (w *callWorld) exec(k *callKind, how string) (string, string) {
	res, dest := k.run(w)
	got := callObs(res, dest)
	w.held = append(w.held, &callHeld{kind: k.name + " (" + how + ")", result: res, dest: dest, snap: got})
	return got, callIssueSig(res)
}

type callsCfg struct {
	collect bool // the result of the first call may be handed back through Collect* / Sanitize*AndCollect
	prop   string
	accept map[string]bool // violation classes this property speaks about
	length int
}

func callsScenario(cfg callsCfg, first int) mc.Scenario {
	return func(x *mc.X) *mc.Outcome {
		callBaselinesInit()
		zh.Reset()
		zh.Install(x, zh.PoolDeviate, zh.OrderSorted)
		w := newCallWorld(x)
		out := &mc.Outcome{Nontrivial: true}
		var hist []string
		report := func(class, kind, what, want, got string) {
			if !cfg.accept[class] {
				return
			}
			x.Note("calls so far: %s", strings.Join(hist, " ; "))
			out.Viol = append(out.Viol, &mc.Violation{
				Key:      fmt.Sprintf("%s:calls:%s:%s", cfg.prop, class, kind),
				What:     what,
				Expected: want,
				Observed: got,
			})
		}
		checkHeld := func() bool {
			for _, h := range w.held {
				now := callObs(h.result, h.dest)
				out.Traces++
				if now != h.snap {
					report("earlier-result-changed", w.classOf(h.kind), "a result returned earlier ("+h.kind+") reads differently after later calls", h.snap, now)
					return false
				}
			}
			return true
		}
		for pos := 0; pos < cfg.length; pos++ {
			var ki int
			if pos == 0 {
				ki = first
			} else {
				c := x.Choose(len(w.kinds)+1, fmt.Sprintf("call%d", pos))
				if c == 0 {
					break
				}
				ki = c - 1
			}
			k := w.kinds[ki]
			hist = append(hist, k.name)
			nHeld := len(w.held)
			var got string
			var res any
			panicked := ""
			func() {
				defer func() {
					if r := recover(); r != nil {
						if he, ok := r.(mc.HarnessError); ok {
							panic(he)
						}
						panicked = fmt.Sprint(r)
					}
				}()
				var dest any
				res, dest = k.run(w)
				got = callObs(res, dest)
				// nested executions of this call against their own baselines
				nb := callBaseNested[k.name]
				for j, h := range w.held[nHeld:] {
					out.Traces++
					if j < len(nb) && h.snap != nb[j] {
						report("nested-call-differs", k.class, "an execution run from inside a user function of "+k.name+" differs from the same execution run alone", nb[j], h.snap)
					}
				}
				handBack := 0
				if cfg.collect && pos == 0 {
					handBack = x.Choose(3, "handBack") // 0 the caller keeps the result, 1 Collect*, 2 Sanitize*AndCollect
				}
				switch handBack {
				case 0:
					w.held = append(w.held, &callHeld{kind: k.name, result: res, dest: dest, snap: got})
					// the caller logs what it got (Error(), String(), %v of every issue): reading a result changes nothing
					for _, is := range asList(res) {
						_ = is.Error() + is.String() + fmt.Sprintf("%v|%+v", is, is)
					}
					for _, l := range asMap(res) {
						for _, is := range l {
							_ = is.Error() + is.String() + fmt.Sprintf("%v|%+v", is, is)
						}
					}
				default:
					hist[len(hist)-1] += []string{"", " -> Collect", " -> SanitizeAndCollect"}[handBack]
					c07Collect(handBack, asList(res), asMap(res))
				}
			}()
			out.Traces++
			if panicked != "" {
				report("panic", k.class, "call "+k.name+" panicked after this history", callBase[k.name], "PANIC "+panicked)
				break
			}
			if got != callBase[k.name] {
				class := "depends-on-history"
				if callClean(res) && callBaseIssues[k.name] {
					class = "clean-despite-violation"
				}
				report(class, k.class, "call "+k.name+" differs from the same call made first in a fresh process state", callBase[k.name], got)
				break
			}
			if len(out.Viol) > 0 || !checkHeld() {
				break
			}
			for _, o := range w.callers {
				out.Traces++
				if now := zh.CanonString(o.obj); now != o.snap {
					report("callers-value-modified", k.class, "a value the caller owns ("+o.name+") reads differently after call "+k.name, o.snap, now)
					break
				}
			}
			if len(out.Viol) > 0 {
				break
			}
			changed := false
			for _, o := range w.objects {
				out.Traces++
				if now := zh.CanonStringHidden(o.obj); now != o.snap {
					report("schema-modified", k.class, "a schema object ("+o.name+") reads differently after call "+k.name, o.snap, now)
					changed = true
					break
				}
			}
			if changed {
				break
			}
		}
		zh.Reset()
		out.Sig = strings.Join(hist, ">")
		if len(out.Viol) > 0 {
			out.Sig = "viol:" + out.Viol[0].Key
		}
		out.LazySample = func() any { return map[string]any{"calls": hist} }
		return out
	}
}

var callBaseIssues map[string]bool

func (w *callWorld) classOf(held string) string {
	name := held
	if i := strings.Index(held, " ("); i >= 0 {
		name = held[:i]
	}
	if k := w.byName[name]; k != nil {
		return k.class
	}
	return "?"
}

func asList(r any) z.ZogIssueList {
	l, _ := r.(z.ZogIssueList)
	return l
}

func asMap(r any) z.ZogIssueMap {
	m, _ := r.(z.ZogIssueMap)
	return m
}

func callsLength(tier string) int {
	if tier == "thorough" {
		return 3
	}
	return 2
}

// callsItems: one item per first call; the explorer chooses the rest.
func callsItems(tier, prop string, accept ...string) []Item {
	return callsItemsFiltered(tier, prop, nil, accept...)
}

// callsItemsFiltered keeps the sequences whose first call satisfies keep.
func callsItemsFiltered(tier, prop string, keep func(class string) bool, accept ...string) []Item {
	return callsItemsOpt(tier, prop, keep, false, accept...)
}

func callsItemsOpt(tier, prop string, keep func(class string) bool, collect bool, accept ...string) []Item {
	acc := map[string]bool{}
	for _, a := range accept {
		acc[a] = true
	}
	kinds := newCallWorld(nil).kinds
	n := len(kinds)
	var items []Item
	devs := 1
	if tier == "thorough" {
		devs = 2
	}
	for i := 0; i < n; i++ {
		if keep != nil && !keep(kinds[i].class) {
			continue
		}
		items = append(items, Item{Name: fmt.Sprintf("calls/first=%d", i), MaxDevs: devs, Run: callsScenario(callsCfg{prop: prop, accept: acc, length: callsLength(tier), collect: collect}, i)})
	}
	return items
}

const callsRule = "call sequences: every sequence of ≤L calls over a closed alphabet of call kinds (String/Int/Slice/Ptr Parse and Validate, passing and failing; a Custom schema alone, as a struct field next to a tested field and as slice elements; a test carrying every option followed by a PostTransform; one record schema parsed from 6 documents as Go map, zjson and zhttp JSON body, from null and malformed documents, from 3 query strings, and validated; and re-entrant calls in which a field test, struct test, primitive test, slice-element test, PostTransform or Preprocess function of an outer execution runs one of 7 inner executions to completion, under both field visit orders), all calls of a sequence sharing their schema objects, object pools answering most-recently-released-first with ≤d other answers; oracle: each call's complete observation (every issue field, destination) equals the same call made first in a fresh process state, nested executions equal the same execution run alone, every result returned earlier still reads as it did when returned, and every shared schema object (all fields at any depth) reads as it did right after construction"

var _ = reflect.TypeOf
