package scen

// Schemas over named types (type Env string; type Level int) are the documented way to validate custom types:
// the built-in tests are the same generic code and must decide the same predicate. One execution = one
// (built-in test, Not-form, subject, placement, mode); the schema over the named type must report exactly the
// issue codes and messages the schema over the plain type reports (which the other C20 items compare with the
// reference predicates), and leave the same value.

import (
	"fmt"
	"regexp"

	z "github.com/Oudwins/zog"
	"github.com/Oudwins/zog/conf"
	"zogverif/mc"
	"zogverif/zh"
)

type c20Name string
type c20Count int
type c20Ratio float64
type c20Flag bool

func c20NamedBool() *z.BoolSchema[c20Flag] {
	s := &z.BoolSchema[c20Flag]{}
	z.WithCoercer(func(x any) (any, error) {
		v, e := conf.DefaultCoercers.Bool(x)
		if e != nil {
			return nil, e
		}
		return c20Flag(v.(bool)), nil
	})(s)
	return s
}

var c20NamedBoolOps = []string{"True()", "False()", "EQ(true)", "EQ(false)"}

func c20ApplyBoolOp[T ~bool](s *z.BoolSchema[T], op int) *z.BoolSchema[T] {
	switch op {
	case 0:
		return s.True()
	case 1:
		return s.False()
	case 2:
		return s.EQ(true)
	}
	return s.EQ(false)
}

func c20NamedStr() *z.StringSchema[c20Name] {
	s := &z.StringSchema[c20Name]{}
	z.WithCoercer(func(x any) (any, error) {
		v, e := conf.DefaultCoercers.String(x)
		if e != nil {
			return nil, e
		}
		return c20Name(v.(string)), nil
	})(s)
	return s
}

func c20NamedInt() *z.NumberSchema[c20Count] {
	s := &z.NumberSchema[c20Count]{}
	z.WithCoercer(func(x any) (any, error) {
		v, e := conf.DefaultCoercers.Int(x)
		if e != nil {
			return nil, e
		}
		return c20Count(v.(int)), nil
	})(s)
	return s
}

func c20NamedFloat() *z.NumberSchema[c20Ratio] {
	s := &z.NumberSchema[c20Ratio]{}
	z.WithCoercer(func(x any) (any, error) {
		v, e := conf.DefaultCoercers.Float64(x)
		if e != nil {
			return nil, e
		}
		return c20Ratio(v.(float64)), nil
	})(s)
	return s
}

var c20NamedStrOps = []string{"Min(2)", "Max(2)", "Len(2)", "HasPrefix(a)", "HasSuffix(a)", "Contains(a)", "ContainsUpper", "ContainsDigit", "ContainsSpecial", "Email", "URL", "UUID", "Match(^a+$)", "OneOf(a,ab)"}

var c20NamedRe = regexp.MustCompile("^a+$")

func c20ApplyStrOp[T ~string](s *z.StringSchema[T], op int, not bool) *z.StringSchema[T] {
	if not {
		n := s.Not()
		switch op {
		case 2:
			return n.Len(2)
		case 3:
			return n.HasPrefix("a")
		case 4:
			return n.HasSuffix("a")
		case 5:
			return n.Contains("a")
		case 6:
			return n.ContainsUpper()
		case 7:
			return n.ContainsDigit()
		case 8:
			return n.ContainsSpecial()
		case 9:
			return n.Email()
		case 10:
			return n.URL()
		case 11:
			return n.UUID()
		case 12:
			return n.Match(c20NamedRe)
		case 13:
			return n.OneOf([]T{"a", "ab"})
		}
		panic("no Not form")
	}
	switch op {
	case 0:
		return s.Min(2)
	case 1:
		return s.Max(2)
	case 2:
		return s.Len(2)
	case 3:
		return s.HasPrefix("a")
	case 4:
		return s.HasSuffix("a")
	case 5:
		return s.Contains("a")
	case 6:
		return s.ContainsUpper()
	case 7:
		return s.ContainsDigit()
	case 8:
		return s.ContainsSpecial()
	case 9:
		return s.Email()
	case 10:
		return s.URL()
	case 11:
		return s.UUID()
	case 12:
		return s.Match(c20NamedRe)
	}
	return s.OneOf([]T{"a", "ab"})
}

var c20NamedNumOps = []string{"GT(5)", "GTE(5)", "LT(5)", "LTE(5)", "EQ(5)", "OneOf(4,5)"}

func c20ApplyNumOp[T ~int | ~float64](s *z.NumberSchema[T], op int) *z.NumberSchema[T] {
	switch op {
	case 0:
		return s.GT(5)
	case 1:
		return s.GTE(5)
	case 2:
		return s.LT(5)
	case 3:
		return s.LTE(5)
	case 4:
		return s.EQ(5)
	}
	return s.OneOf([]T{4, 5})
}

type c20NamedRec[T any] struct{ V T }

// c20RunPlaced runs schema s on subject subj at the chosen placement and mode; returns "code|message" per issue and the value left.
func c20RunPlaced[T any](s z.ZogSchema, top func(data any, dest *T) z.ZogIssueList, topV func(dest *T) z.ZogIssueList, data any, subj T, place, mode int) (out []string, val T, panicked string) {
	defer func() {
		if r := recover(); r != nil {
			panicked = fmt.Sprint(r)
		}
	}()
	add := func(l z.ZogIssueList) {
		for _, is := range l {
			out = append(out, is.Path+"|"+is.Code+"|"+is.Message)
		}
	}
	addMap := func(m z.ZogIssueMap) {
		for _, k := range sortedKeys(m) {
			if k != "$first" {
				add(m[k])
			}
		}
	}
	switch place {
	case 0:
		var d T
		if mode == 0 {
			add(top(data, &d))
		} else {
			d = subj
			add(topV(&d))
		}
		val = d
	case 1:
		var d c20NamedRec[T]
		sc := z.Struct(z.Schema{"v": s})
		if mode == 0 {
			addMap(sc.Parse(map[string]any{"v": data}, &d))
		} else {
			d.V = subj
			addMap(sc.Validate(&d))
		}
		val = d.V
	default:
		var d []T
		sc := z.Slice(s)
		if mode == 0 {
			addMap(sc.Parse([]any{data}, &d))
		} else {
			d = []T{subj}
			addMap(sc.Validate(&d))
		}
		if len(d) == 1 {
			val = d[0]
		}
	}
	return
}

func sortedKeys(m z.ZogIssueMap) []string {
	var ks []string
	for k := range m {
		ks = append(ks, k)
	}
	sortStrings(ks)
	return ks
}

func sortStrings(a []string) {
	for i := 1; i < len(a); i++ {
		for j := i; j > 0 && a[j] < a[j-1]; j-- {
			a[j], a[j-1] = a[j-1], a[j]
		}
	}
}

func c20NamedScenario(x *mc.X) *mc.Outcome {
	zh.Reset()
	zh.Install(x, zh.PoolLIFO, zh.OrderSorted)
	family := x.Choose(4, "family") // 0 string, 1 int, 2 float, 3 bool
	place := x.Choose(3, "placement")
	mode := x.Choose(2, "mode")
	var name, subjS string
	var plain, named []string
	var pv, nv string
	var pp, np string
	switch family {
	case 0:
		op := x.Choose(len(c20NamedStrOps), "test")
		not := op >= 2 && x.Bool("not")
		name = c20NamedStrOps[op]
		if not {
			name = "Not()." + name
		}
		var subj string
		switch k := x.Choose(4, "subject kind"); k {
		case 0:
			subj = chooseString(x, []string{"a", "A", "1", "!", "b", "é"}, 3, "sym")
		case 1:
			subj = "a@b.co"
		case 2:
			subj = "http://a.b"
		default:
			subj = "123e4567-e89b-12d3-a456-426614174000"
		}
		subjS = fmt.Sprintf("%q", subj)
		ps := c20ApplyStrOp(z.String(), op, not)
		ns := c20ApplyStrOp(c20NamedStr(), op, not)
		var a string
		var b c20Name
		plain, a, pp = c20RunPlaced[string](ps, func(d any, dest *string) z.ZogIssueList { return ps.Parse(d, dest) }, func(dest *string) z.ZogIssueList { return ps.Validate(dest) }, subj, subj, place, mode)
		named, b, np = c20RunPlaced[c20Name](ns, func(d any, dest *c20Name) z.ZogIssueList { return ns.Parse(d, dest) }, func(dest *c20Name) z.ZogIssueList { return ns.Validate(dest) }, subj, c20Name(subj), place, mode)
		pv, nv = fmt.Sprintf("%q", a), fmt.Sprintf("%q", string(b))
	case 1:
		op := x.Choose(len(c20NamedNumOps), "test")
		name = c20NamedNumOps[op]
		subj := []int{4, 5, 6, -5}[x.Choose(4, "subject")]
		subjS = fmt.Sprint(subj)
		ps := c20ApplyNumOp(z.Int(), op)
		ns := c20ApplyNumOp(c20NamedInt(), op)
		var a int
		var b c20Count
		plain, a, pp = c20RunPlaced[int](ps, func(d any, dest *int) z.ZogIssueList { return ps.Parse(d, dest) }, func(dest *int) z.ZogIssueList { return ps.Validate(dest) }, subj, subj, place, mode)
		named, b, np = c20RunPlaced[c20Count](ns, func(d any, dest *c20Count) z.ZogIssueList { return ns.Parse(d, dest) }, func(dest *c20Count) z.ZogIssueList { return ns.Validate(dest) }, subj, c20Count(subj), place, mode)
		pv, nv = fmt.Sprint(a), fmt.Sprint(int(b))
	case 3:
		op := x.Choose(len(c20NamedBoolOps), "test")
		name = c20NamedBoolOps[op]
		subj := x.Bool("subject")
		subjS = fmt.Sprint(subj)
		ps := c20ApplyBoolOp(z.Bool(), op)
		ns := c20ApplyBoolOp(c20NamedBool(), op)
		var a bool
		var b c20Flag
		plain, a, pp = c20RunPlaced[bool](ps, func(d any, dest *bool) z.ZogIssueList { return ps.Parse(d, dest) }, func(dest *bool) z.ZogIssueList { return ps.Validate(dest) }, subj, subj, place, mode)
		named, b, np = c20RunPlaced[c20Flag](ns, func(d any, dest *c20Flag) z.ZogIssueList { return ns.Parse(d, dest) }, func(dest *c20Flag) z.ZogIssueList { return ns.Validate(dest) }, subj, c20Flag(subj), place, mode)
		pv, nv = fmt.Sprint(a), fmt.Sprint(bool(b))
	default:
		op := x.Choose(len(c20NamedNumOps), "test")
		name = c20NamedNumOps[op]
		subj := []float64{4, 5, 5.5, 6, -5}[x.Choose(5, "subject")]
		subjS = fmt.Sprint(subj)
		ps := c20ApplyNumOp(z.Float64(), op)
		ns := c20ApplyNumOp(c20NamedFloat(), op)
		var a float64
		var b c20Ratio
		plain, a, pp = c20RunPlaced[float64](ps, func(d any, dest *float64) z.ZogIssueList { return ps.Parse(d, dest) }, func(dest *float64) z.ZogIssueList { return ps.Validate(dest) }, subj, subj, place, mode)
		named, b, np = c20RunPlaced[c20Ratio](ns, func(d any, dest *c20Ratio) z.ZogIssueList { return ns.Parse(d, dest) }, func(dest *c20Ratio) z.ZogIssueList { return ns.Validate(dest) }, subj, c20Ratio(subj), place, mode)
		pv, nv = fmt.Sprint(a), fmt.Sprint(float64(b))
	}
	zh.Reset()
	fam := []string{"string", "int", "float64", "bool"}[family]
	out := &mc.Outcome{Traces: 2, Nontrivial: true, Sig: fmt.Sprintf("named|%s|%s|%d|%d|%v", fam, name, place, mode, len(plain) == 0)}
	out.Sample = map[string]any{"type": fam, "test": name, "subject": subjS, "placement": place, "mode": mode, "issues": plain}
	if pp != np || !eqStrings(plain, named) || pv != nv {
		x.Note("test %s, subject %s, placement %d (0 top, 1 field, 2 element), mode %d (0 Parse, 1 Validate)", name, subjS, place, mode)
		out.Viol = append(out.Viol, &mc.Violation{Key: "C20:named-type:" + fam + ":" + name, What: "the schema over a named " + fam + " type does not decide the built-in test like the schema over the plain type", Expected: fmt.Sprintf("panic=%q issues=%v value=%s", pp, plain, pv), Observed: fmt.Sprintf("panic=%q issues=%v value=%s", np, named, nv)})
	}
	return out
}
