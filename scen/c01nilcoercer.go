package scen

// C01 (continued): custom coercers that answer (nil, nil) — "no value, no error" — for a present input
// (a placeholder such as "N/A" mapped to nothing). Whatever the library makes of such an answer (the unchanged
// tree panics on it, which the documentation allows for misconfiguration), it must not be a clean result with a
// Required node left empty or a test left unchecked.

import (
	"fmt"
	"time"

	z "github.com/Oudwins/zog"
	"zogverif/mc"
	"zogverif/zh"
)

func c01NilCoercerScenario(x *mc.X) *mc.Outcome {
	zh.Reset()
	zh.Install(x, zh.PoolLIFO, zh.OrderFree)
	kind := x.Choose(4, "kind")     // String, Int, Bool, Time
	place := x.Choose(3, "placement") // top, field, element
	required := x.Bool("Required")
	withDefault := x.Bool("Default")
	nilCo := z.WithCoercer(func(d any) (any, error) { return nil, nil })
	t0 := time.Date(2024, 1, 1, 0, 0, 0, 0, time.UTC)
	var s z.ZogSchema
	var in any
	var ok func(dest any) bool // does the destination satisfy the node's test?
	switch kind {
	case 0:
		q := z.String(nilCo).Min(3)
		if required {
			q.Required()
		}
		if withDefault {
			q.Default("deflt")
		}
		s, in = q, "N/A"
		ok = func(d any) bool { return len(d.(string)) >= 3 }
	case 1:
		q := z.Int(nilCo).GT(5)
		if required {
			q.Required()
		}
		if withDefault {
			q.Default(50)
		}
		s, in = q, "N/A"
		ok = func(d any) bool { return d.(int) > 5 }
	case 2:
		q := z.Bool(nilCo).True()
		if required {
			q.Required()
		}
		if withDefault {
			q.Default(true)
		}
		s, in = q, "N/A"
		ok = func(d any) bool { return d.(bool) }
	default:
		q := z.Time(nilCo).After(t0)
		if required {
			q.Required()
		}
		if withDefault {
			q.Default(t0.Add(time.Hour))
		}
		s, in = q, "N/A"
		ok = func(d any) bool { return d.(time.Time).After(t0) }
	}
	var nIssues int
	var dest any
	pmsg := func() (msg string) {
		defer func() {
			if r := recover(); r != nil {
				msg = firstLine(fmt.Sprint(r))
			}
		}()
		switch kind*3 + place {
		case 0:
			var d string
			nIssues, dest = len(s.(*z.StringSchema[string]).Parse(in, &d)), d
		case 1:
			var d struct{ V string }
			nIssues = len(z.Struct(z.Schema{"v": s}).Parse(map[string]any{"v": in}, &d))
			dest = d.V
		case 2:
			var d []string
			nIssues = len(z.Slice(s).Parse([]any{in}, &d))
			dest = append(d, "")[0]
		case 3:
			var d int
			nIssues, dest = len(s.(*z.NumberSchema[int]).Parse(in, &d)), d
		case 4:
			var d struct{ V int }
			nIssues = len(z.Struct(z.Schema{"v": s}).Parse(map[string]any{"v": in}, &d))
			dest = d.V
		case 5:
			var d []int
			nIssues = len(z.Slice(s).Parse([]any{in}, &d))
			dest = append(d, 0)[0]
		case 6:
			var d bool
			nIssues, dest = len(s.(*z.BoolSchema[bool]).Parse(in, &d)), d
		case 7:
			var d struct{ V bool }
			nIssues = len(z.Struct(z.Schema{"v": s}).Parse(map[string]any{"v": in}, &d))
			dest = d.V
		case 8:
			var d []bool
			nIssues = len(z.Slice(s).Parse([]any{in}, &d))
			dest = append(d, false)[0]
		case 9:
			var d time.Time
			nIssues, dest = len(s.(*z.TimeSchema).Parse(in, &d)), d
		case 10:
			var d struct{ V time.Time }
			nIssues = len(z.Struct(z.Schema{"v": s}).Parse(map[string]any{"v": in}, &d))
			dest = d.V
		default:
			var d []time.Time
			nIssues = len(z.Slice(s).Parse([]any{in}, &d))
			dest = append(d, time.Time{})[0]
		}
		return ""
	}()
	zh.Reset()
	out := &mc.Outcome{Traces: 1, Nontrivial: true, Sig: fmt.Sprintf("nilcoercer|%d|%d|%v|%v|%v|%d", kind, place, required, withDefault, pmsg != "", nIssues)}
	out.Sample = map[string]any{"kind": kind, "placement": place, "required": required, "default": withDefault, "panic": pmsg, "issues": nIssues, "dest": fmt.Sprint(dest)}
	// the input is present: an absent-value exemption does not apply. A clean result must hold a value that passes the test.
	if pmsg == "" && nIssues == 0 && !ok(dest) {
		x.Note("%s node (Required=%v, Default=%v) with a coercer answering (nil, nil), placement %d (0 top, 1 field, 2 element), present input %q", []string{"String().Min(3)", "Int().GT(5)", "Bool().True()", "Time().After(t0)"}[kind], required, withDefault, place, in)
		out.Viol = append(out.Viol, &mc.Violation{Key: "C01:nil-coercion:" + []string{"String", "Int", "Bool", "Time"}[kind], What: "Parse returned no issues although the present value's node holds a value that fails its test (the coercer answered nil)", Expected: "an issue (or the documented panic for a misbehaving coercer)", Observed: fmt.Sprintf("no issues; destination %v", dest)})
	}
	return out
}
