package scen

import (
	"fmt"
	"reflect"
	"strings"

	"github.com/Oudwins/zog/zverif"
	"zogverif/mc"
	"zogverif/zh"
)

// CoreRun is one enumerated case executed on the real implementation together
// with the reference model's prediction for the same case and visit orders.
type CoreRun struct {
	Case      *Case
	Real      *Obs
	Rec       *Recorder
	Orders    [][]int
	Spec      *specState
	SpecDest  reflect.Value
	Redundant bool
}

// installOrderRecorder wraps the order hook so the permutations chosen at
// struct-field range sites are recorded (in visit order) for the spec.
func installOrderRecorder(x *mc.X, om zh.OrderMode, orders *[][]int) {
	zh.Install(x, zh.PoolLIFO, om)
	inner := zverif.OrderHook
	zverif.OrderHook = func(site string, n int) []int {
		p := inner(site, n)
		if strings.HasPrefix(site, "struct.go") {
			if p == nil {
				p = make([]int, n)
				for i := range p {
					p[i] = i
				}
			}
			*orders = append(*orders, append([]int(nil), p...))
		}
		return p
	}
}

func runCore(x *mc.X, a *Alpha, s *Skel, focus map[string]bool, elems int, om zh.OrderMode, wantLog bool) *CoreRun {
	zh.Reset()
	c := BuildCase(x, a, s, focus, elems)
	cr := &CoreRun{Case: c}
	for u := range focus {
		if !c.Touched[u] {
			cr.Redundant = true // covered by the smaller focus set
			return cr
		}
	}
	cr.Rec = &Recorder{Light: !wantLog}
	schema := BuildZog(c.Root, cr.Rec)
	installOrderRecorder(x, om, &cr.Orders)
	var pre reflect.Value
	if a.Mode == 0 {
		cr.Real = RunParse(schema, c.Data, c.Dest)
	} else {
		pre = deepCopy(c.Dest.Elem())
		cr.Real = RunValidate(schema, c.Dest)
	}
	zh.Reset()
	if wantLog {
		cr.Real.Log = cr.Rec.Strings()
	}
	// reference model on a fresh, identically prepared destination
	st := &specState{orders: cr.Orders, ranTest: map[string]int{}, wantLog: wantLog}
	md := reflect.New(c.Root.GoType())
	if a.Mode == 0 {
		fillSentinel(md.Elem(), c.Root)
		st.specParse(c.Root, c.Data, md.Elem(), "")
	} else {
		md.Elem().Set(pre)
		st.specValidate(c.Root, md.Elem(), "")
	}
	cr.Spec, cr.SpecDest = st, md
	return cr
}

func (cr *CoreRun) describe() []string {
	d := cr.Case.Describe()
	out := []string{fmt.Sprintf("schema: %v", d["schema"]), fmt.Sprintf("mode: %v", d["mode"])}
	if v, ok := d["input"]; ok {
		out = append(out, fmt.Sprintf("input: %v", v))
	}
	if v, ok := d["value"]; ok {
		out = append(out, fmt.Sprintf("value before: %v", v))
	}
	out = append(out, fmt.Sprintf("field visit orders: %v", cr.Orders))
	return out
}

// realRun executes the case's input against `root` (the case's schema or a
// twin of it) on a fresh destination prepared like the case's.
type realRun struct {
	Obs    *Obs
	Dest   reflect.Value // pointer
	Rec    *Recorder
	Orders [][]int
}

func runRealOn(x *mc.X, c *Case, root *Node, pre reflect.Value, om zh.OrderMode, wantLog bool) *realRun {
	zh.Reset()
	rr := &realRun{Rec: &Recorder{Light: !wantLog}}
	schema := BuildZog(root, rr.Rec)
	rr.Dest = reflect.New(root.GoType())
	installOrderRecorder(x, om, &rr.Orders)
	if c.Alpha.Mode == 0 {
		fillSentinel(rr.Dest.Elem(), root)
		rr.Obs = RunParse(schema, c.Data, rr.Dest)
	} else {
		rr.Dest.Elem().Set(deepCopy(pre))
		rr.Obs = RunValidate(schema, rr.Dest)
	}
	zh.Reset()
	if wantLog {
		rr.Obs.Log = rr.Rec.Strings()
	}
	return rr
}

// cloneNode copies an abstract schema tree; f may edit each copy.
func cloneNode(n *Node, f func(c *Node)) *Node {
	c := *n
	if n.Elem != nil {
		c.Elem = cloneNode(n.Elem, f)
	}
	c.Fields = nil
	for _, fl := range n.Fields {
		c.Fields = append(c.Fields, &Field{Key: fl.Key, Tag: fl.Tag, N: cloneNode(fl.N, f)})
	}
	if f != nil {
		f(&c)
	}
	return &c
}

// runRealWithOrders runs the case on `root` replaying fixed field visit orders
// (no new choice points): used for differential twins.
func runRealWithOrders(x *mc.X, c *Case, root *Node, pre reflect.Value, orders [][]int) *realRun {
	zh.Reset()
	rr := &realRun{Rec: &Recorder{Light: true}}
	schema := BuildZog(root, rr.Rec)
	rr.Dest = reflect.New(root.GoType())
	zh.Install(x, zh.PoolLIFO, zh.OrderSorted)
	oi := 0
	zverif.OrderHook = func(site string, n int) []int {
		if !strings.HasPrefix(site, "struct.go") {
			return nil
		}
		if oi < len(orders) && len(orders[oi]) == n {
			o := orders[oi]
			oi++
			rr.Orders = append(rr.Orders, o)
			return o
		}
		oi++
		return nil
	}
	if c.Alpha.Mode == 0 {
		fillSentinel(rr.Dest.Elem(), root)
		rr.Obs = RunParse(schema, c.Data, rr.Dest)
	} else {
		rr.Dest.Elem().Set(deepCopy(pre))
		rr.Obs = RunValidate(schema, rr.Dest)
	}
	zh.Reset()
	return rr
}

// installReplayOrders makes struct-field range sites follow the recorded orders.
func installReplayOrders(orders [][]int) {
	oi := 0
	zverif.OrderHook = func(site string, n int) []int {
		if !strings.HasPrefix(site, "struct.go") {
			return nil
		}
		if oi < len(orders) && len(orders[oi]) == n {
			o := orders[oi]
			oi++
			return o
		}
		oi++
		return nil
	}
}
