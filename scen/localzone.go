package scen

import "time"

// The process's local time zone is part of the environment a library runs in. Every check runs with a local
// zone that is NOT UTC (+05:30), so that anything that consults time.Local where the documentation promises an
// instant independent of the machine (layouts without a zone are UTC, as time.Parse defines) shows.
func init() {
	time.Local = time.FixedZone("verif-local", 5*3600+1800)
}
