package scen

// C17 — builder methods act locally and mean what they say.
// Every chain of ≤3 (→4) builder calls over a per-type alphabet is built
// through the real API and executed on a set of subjects in both modes;
// oracle: a list-based model of what each call means (Not() negates exactly
// the next test; last call wins for Required/Optional, Default, Catch;
// options touch only their own test). One schema object used at several
// places must behave like independent copies.

import (
	"fmt"
	"sort"
	"strings"

	z "github.com/Oudwins/zog"
	"zogverif/mc"
	"zogverif/zh"
)

type c17Test struct {
	code   string
	pred   func(s string) bool
	path   string // IssuePath override
	msg    string // Message override ("" = formatter)
	params map[string]any
	pkey   string // built-in parameter key
	pval   any
	writes int // >0: the test's MessageFunc also annotates the issue's params with seen_by=<this number>
}

type c17StrModel struct {
	tests []c17Test
	req   bool
	reqMsg string
	def   *string
	catch *string
	postErr bool // a PostTransform that always returns an error
}

type c17Call struct {
	name  string
	apply func(s *z.StringSchema[string], m *c17StrModel, opt int) *z.StringSchema[string]
	hasOpt bool
}

// c17Shared: one map handed to Params options of several tests (reset at the start of every execution)
var c17Shared map[string]any

func c17Opt(i int, opt int, t *c17Test) []z.TestOption {
	switch opt {
	case 1:
		t.msg = fmt.Sprintf("M%d", i)
		return []z.TestOption{z.Message(t.msg)}
	case 2:
		t.code = fmt.Sprintf("C%d", i)
		return []z.TestOption{z.IssueCode(t.code)}
	case 3:
		t.path = fmt.Sprintf("P%d", i)
		return []z.TestOption{z.IssuePath(t.path)}
	case 4:
		t.params = map[string]any{"k": i}
		return []z.TestOption{z.Params(map[string]any{"k": i})}
	case 8:
		// a MessageFunc that annotates the issue it formats (e.Params is the issue's own): nothing of it may show up in
		// the issues of any other test, however similar that test is
		t.msg = fmt.Sprintf("W%d", i)
		t.writes = i + 1
		m, n := t.msg, i+1
		return []z.TestOption{z.MessageFunc(func(e *z.ZogIssue, c z.Ctx) {
			if e.Params != nil {
				e.Params["seen_by"] = n
			}
			e.SetMessage(m)
		})}
	case 6:
		// a default Message inside a reusable helper, overridden by the caller's MessageFunc: the later option counts
		t.msg = fmt.Sprintf("F%d", i)
		m := t.msg
		return []z.TestOption{z.Message("default text"), z.MessageFunc(func(e *z.ZogIssue, c z.Ctx) { e.SetMessage(m) })}
	case 7:
		t.msg = fmt.Sprintf("M%d", i)
		return []z.TestOption{z.MessageFunc(func(e *z.ZogIssue, c z.Ctx) { e.SetMessage("from the function") }), z.Message(t.msg)}
	case 5:
		// defaults first, the caller's own value after them (the reusable-test pattern): the later option counts,
		// and the map given to the earlier one — which other tests may hold too — is the caller's and stays as it was
		t.params = map[string]any{"k": i}
		return []z.TestOption{z.Params(c17Shared), z.Params(map[string]any{"k": i})}
	}
	return nil
}

func c17StringCalls() []c17Call {
	mkTest := func(name, code, pkey string, pval any, not bool, pred func(string) bool, add func(s *z.StringSchema[string], o ...z.TestOption) *z.StringSchema[string]) c17Call {
		return c17Call{name: name, hasOpt: true, apply: func(s *z.StringSchema[string], m *c17StrModel, opt int) *z.StringSchema[string] {
			t := c17Test{code: code, pred: pred, pkey: pkey, pval: pval}
			if not {
				t.code = "not_" + code
				t.pred = func(v string) bool { return !pred(v) }
			}
			opts := c17Opt(len(m.tests), opt, &t)
			m.tests = append(m.tests, t)
			return add(s, opts...)
		}}
	}
	hasDigit := func(v string) bool { return strings.ContainsAny(v, "0123456789") }
	calls := []c17Call{
		mkTest("Min(3)", "min", "min", 3, false, func(v string) bool { return len(v) >= 3 }, func(s *z.StringSchema[string], o ...z.TestOption) *z.StringSchema[string] { return s.Min(3, o...) }),
		mkTest("Max(5)", "max", "max", 5, false, func(v string) bool { return len(v) <= 5 }, func(s *z.StringSchema[string], o ...z.TestOption) *z.StringSchema[string] { return s.Max(5, o...) }),
		mkTest("Len(4)", "len", "len", 4, false, func(v string) bool { return len(v) == 4 }, func(s *z.StringSchema[string], o ...z.TestOption) *z.StringSchema[string] { return s.Len(4, o...) }),
		mkTest("HasPrefix(a)", "prefix", "prefix", "a", false, func(v string) bool { return strings.HasPrefix(v, "a") }, func(s *z.StringSchema[string], o ...z.TestOption) *z.StringSchema[string] { return s.HasPrefix("a", o...) }),
		mkTest("ContainsDigit", "contains_digit", "", nil, false, hasDigit, func(s *z.StringSchema[string], o ...z.TestOption) *z.StringSchema[string] { return s.ContainsDigit(o...) }),
		mkTest("Not().Len(4)", "len", "len", 4, true, func(v string) bool { return len(v) == 4 }, func(s *z.StringSchema[string], o ...z.TestOption) *z.StringSchema[string] { return s.Not().Len(4, o...) }),
		mkTest("Not().HasPrefix(a)", "prefix", "prefix", "a", true, func(v string) bool { return strings.HasPrefix(v, "a") }, func(s *z.StringSchema[string], o ...z.TestOption) *z.StringSchema[string] { return s.Not().HasPrefix("a", o...) }),
		mkTest("Not().ContainsDigit", "contains_digit", "", nil, true, hasDigit, func(s *z.StringSchema[string], o ...z.TestOption) *z.StringSchema[string] { return s.Not().ContainsDigit(o...) }),
		mkTest("Not().Contains(b)", "contained", "contained", "b", true, func(v string) bool { return strings.Contains(v, "b") }, func(s *z.StringSchema[string], o ...z.TestOption) *z.StringSchema[string] { return s.Not().Contains("b", o...) }),
		mkTest("Contains(\"\")", "contained", "contained", "", false, func(v string) bool { return true }, func(s *z.StringSchema[string], o ...z.TestOption) *z.StringSchema[string] { return s.Contains("", o...) }),
		mkTest("Not().Contains(\"\")", "contained", "contained", "", true, func(v string) bool { return true }, func(s *z.StringSchema[string], o ...z.TestOption) *z.StringSchema[string] { return s.Not().Contains("", o...) }),
		mkTest("Not().HasPrefix(\"\")", "prefix", "prefix", "", true, func(v string) bool { return true }, func(s *z.StringSchema[string], o ...z.TestOption) *z.StringSchema[string] { return s.Not().HasPrefix("", o...) }),
		mkTest("Min(0)", "min", "min", 0, false, func(v string) bool { return true }, func(s *z.StringSchema[string], o ...z.TestOption) *z.StringSchema[string] { return s.Min(0, o...) }),
		mkTest("Not().Len(0)", "len", "len", 0, true, func(v string) bool { return len(v) == 0 }, func(s *z.StringSchema[string], o ...z.TestOption) *z.StringSchema[string] { return s.Not().Len(0, o...) }),
		mkTest("Not().OneOf([])", "one_of_options", "one_of_options", []string{}, true, func(v string) bool { return false }, func(s *z.StringSchema[string], o ...z.TestOption) *z.StringSchema[string] { return s.Not().OneOf([]string{}, o...) }),
		// Not() as a statement of its own, then a test Not()'s return type does not offer (the schema value itself does)
		mkTest("Not(); then Min(3)", "min", "min", 3, true, func(v string) bool { return len(v) >= 3 }, func(s *z.StringSchema[string], o ...z.TestOption) *z.StringSchema[string] {
			s.Not()
			return s.Min(3, o...)
		}),
		mkTest("Not(); then Max(5)", "max", "max", 5, true, func(v string) bool { return len(v) <= 5 }, func(s *z.StringSchema[string], o ...z.TestOption) *z.StringSchema[string] {
			s.Not()
			return s.Max(5, o...)
		}),
		// a Not() whose result was dropped (a branch that added no test), then Not() again with its test: still "negate the next test"
		mkTest("Not(); then Not().HasPrefix(a)", "prefix", "prefix", "a", true, func(v string) bool { return strings.HasPrefix(v, "a") }, func(s *z.StringSchema[string], o ...z.TestOption) *z.StringSchema[string] {
			s.Not()
			return s.Not().HasPrefix("a", o...)
		}),
		{name: "TestFunc(noZ)", hasOpt: true, apply: func(s *z.StringSchema[string], m *c17StrModel, opt int) *z.StringSchema[string] {
			t := c17Test{code: "", pred: func(v string) bool { return !strings.Contains(v, "z") }}
			opts := c17Opt(len(m.tests), opt, &t)
			m.tests = append(m.tests, t)
			return s.TestFunc(func(v any, ctx z.Ctx) bool { return !strings.Contains(v.(string), "z") }, opts...)
		}},
		{name: "Required()", apply: func(s *z.StringSchema[string], m *c17StrModel, opt int) *z.StringSchema[string] {
			m.req, m.reqMsg = true, ""
			return s.Required()
		}},
		{name: "Required(Message)", apply: func(s *z.StringSchema[string], m *c17StrModel, opt int) *z.StringSchema[string] {
			m.req, m.reqMsg = true, "REQMSG"
			return s.Required(z.Message("REQMSG"))
		}},
		{name: "Optional()", apply: func(s *z.StringSchema[string], m *c17StrModel, opt int) *z.StringSchema[string] {
			m.req = false
			return s.Optional()
		}},
		{name: "Default(d1ok)", apply: func(s *z.StringSchema[string], m *c17StrModel, opt int) *z.StringSchema[string] {
			d := "d1ok"
			m.def = &d
			return s.Default(d)
		}},
		{name: "Default(z)", apply: func(s *z.StringSchema[string], m *c17StrModel, opt int) *z.StringSchema[string] {
			d := "z"
			m.def = &d
			return s.Default(d)
		}},
		{name: "Catch(c1)", apply: func(s *z.StringSchema[string], m *c17StrModel, opt int) *z.StringSchema[string] {
			c := "c1"
			m.catch = &c
			return s.Catch(c)
		}},
		{name: "Catch(c2)", apply: func(s *z.StringSchema[string], m *c17StrModel, opt int) *z.StringSchema[string] {
			c := "c2"
			m.catch = &c
			return s.Catch(c)
		}},
		// an issue that belongs to no test: it must be reported at the node's own path with no code of any test,
		// whatever options the node's tests carry
		{name: "PostTransform(returns error)", apply: func(s *z.StringSchema[string], m *c17StrModel, opt int) *z.StringSchema[string] {
			m.postErr = true
			return s.PostTransform(func(p any, ctx z.Ctx) error { return fmt.Errorf("transform failed") })
		}},
	}
	return calls
}

var c17Subjects = []string{"", "ab1", "abcd", "xbcdefg", "a", "zzzz9", "   "}

// expected outcome of the model on a subject
func (m *c17StrModel) eval(subj string, validate bool) (issues []string, dest string) {
	issues, dest = m.evalTests(subj, validate)
	if m.postErr && len(issues) == 0 {
		// PostTransforms run when the node is left without any issue; the error is reported at the node's path
		issues = []string{"||*"}
	}
	return issues, dest
}

func (m *c17StrModel) evalTests(subj string, validate bool) (issues []string, dest string) {
	dest = "§"
	absent := strings.TrimSpace(subj) == ""
	if validate {
		dest = subj
		absent = subj == ""
	}
	val := subj
	if absent {
		switch {
		case m.def != nil:
			val = *m.def
			dest = val
		case !m.req:
			return nil, dest
		case m.catch != nil:
			return nil, *m.catch
		default:
			msg := "is required"
			if m.reqMsg != "" {
				msg = m.reqMsg
			}
			return []string{"|required|" + msg}, dest
		}
	} else {
		dest = val
	}
	for _, t := range m.tests {
		if !t.pred(val) {
			if m.catch != nil {
				return nil, *m.catch
			}
			msg := "*"
			if t.msg != "" {
				msg = t.msg
			}
			issues = append(issues, fmt.Sprintf("%s|%s|%s", t.path, t.code, msg))
		}
	}
	return issues, dest
}

func c17StringScenario(maxLen int, first int) mc.Scenario {
	calls := c17StringCalls()
	return func(x *mc.X) *mc.Outcome {
		zh.Reset()
		zh.Install(x, zh.PoolLIFO, zh.OrderSorted)
		s := z.String()
		m := &c17StrModel{}
		c17Shared = map[string]any{"shared": true}
		var chain []string
		n := 1 + x.Choose(maxLen, "chainLength")
		for i := 0; i < n; i++ {
			ci := first
			if i > 0 {
				ci = x.Choose(len(calls), "call")
			}
			c := calls[ci]
			opt := 0
			if c.hasOpt {
				opt = x.Choose(9, "option")
			}
			chain = append(chain, fmt.Sprintf("%s/opt%d", c.name, opt))
			s = c.apply(s, m, opt)
		}
		out := &mc.Outcome{Nontrivial: true, Sig: strings.Join(chain, ".")}
		out.Sample = map[string]any{"chain": chain}
		if fmt.Sprint(c17Shared) != "map[shared:true]" {
			x.Note("chain: z.String().%s", strings.Join(chain, "."))
			out.Viol = append(out.Viol, &mc.Violation{Key: "C17:option-modified-callers-map", What: "a Params option changed the map the caller passed to another Params option", Expected: "map[shared:true]", Observed: fmt.Sprint(c17Shared)})
			return out
		}
		for _, subj := range c17Subjects {
			for mode := 0; mode < 2; mode++ {
				var l z.ZogIssueList
				d := "§"
				if mode == 0 {
					l = s.Parse(subj, &d)
				} else {
					d = subj
					l = s.Validate(&d)
				}
				out.Traces++
				want, wantDest := m.eval(subj, mode == 1)
				var got []string
				for _, is := range l {
					msg := "*"
					for _, t := range m.tests {
						if t.msg != "" && is.Message == t.msg {
							msg = is.Message
						}
					}
					if is.Code == "required" {
						msg = is.Message
					}
					got = append(got, fmt.Sprintf("%s|%s|%s", is.Path, is.Code, msg))
				}
				// params: the i-th issue belongs to the i-th failing test (tests run in declaration order)
				perr := ""
				if m.catch == nil && len(l) > 0 && l[0].Code != "required" && !(m.postErr && len(l) == 1 && l[0].Code == "") {
					val := subj
					if (mode == 0 && strings.TrimSpace(subj) == "") || (mode == 1 && subj == "") {
						if m.def != nil {
							val = *m.def
						}
					}
					var failing []c17Test
					for _, t := range m.tests {
						if !t.pred(val) {
							failing = append(failing, t)
						}
					}
					if len(failing) == len(l) {
						for i, is := range l {
							t := failing[i]
							if t.params != nil {
								if fmt.Sprint(is.Params) != fmt.Sprint(t.params) {
									perr = fmt.Sprintf("issue #%d (%s) has params %v, its test was given Params(%v)", i, is.Code, is.Params, t.params)
								}
							} else if t.pkey != "" {
								extra := 0
								if t.writes > 0 && fmt.Sprint(is.Params["seen_by"]) == fmt.Sprint(t.writes) {
									extra = 1 // its own annotation
								}
								if v, ok := is.Params[t.pkey]; !ok || fmt.Sprint(v) != fmt.Sprint(t.pval) || len(is.Params) != 1+extra {
									perr = fmt.Sprintf("issue #%d (%s) has params %v, expected exactly %s=%v", i, is.Code, is.Params, t.pkey, t.pval)
								}
							} else if len(is.Params) != 0 {
								perr = fmt.Sprintf("issue #%d (%s) has params %v, its test has none", i, is.Code, is.Params)
							}
						}
					}
				}
				sort.Strings(want)
				sort.Strings(got)
				if !eqStrings(want, got) || d != wantDest || perr != "" {
					x.Note("chain: z.String().%s", strings.Join(chain, "."))
					x.Note("subject %q mode %s", subj, []string{"Parse", "Validate"}[mode])
					what := "issues (path|code|message) of the chain differ from the meaning of its calls"
					key := "C17:string-chain:issues"
					if eqStrings(want, got) && d != wantDest {
						what, key = "destination differs from the meaning of the chain's calls", "C17:string-chain:dest"
					} else if eqStrings(want, got) && perr != "" {
						what, key = perr, "C17:string-chain:params"
					}
					out.Viol = append(out.Viol, &mc.Violation{Key: key, What: what, Expected: fmt.Sprintf("%v dest=%q", want, wantDest), Observed: fmt.Sprintf("%v dest=%q", got, d)})
					return out
				}
			}
		}
		zh.Reset()
		return out
	}
}

// numbers, time, bool, slices: modifiers and options
func c17NumberScenario(x *mc.X) *mc.Outcome {
	zh.Reset()
	zh.Install(x, zh.PoolLIFO, zh.OrderSorted)
	type model struct {
		tests []struct {
			code string
			pred func(int) bool
			msg  string
		}
		req     bool
		reqMsg  string
		reqPath string
		def     *int
		catch   *int
	}
	m := &model{}
	s := z.Int()
	var chain []string
	n := 1 + x.Choose(3, "chainLength")
	for i := 0; i < n; i++ {
		c := x.Choose(9, "call")
		switch c {
		case 0, 1, 2:
			opt := x.Choose(3, "option")
			code := []string{"gt", "lt", "eq"}[c]
			pred := []func(int) bool{func(v int) bool { return v > 2 }, func(v int) bool { return v < 10 }, func(v int) bool { return v == 5 }}[c]
			msg := ""
			var opts []z.TestOption
			if opt == 1 {
				msg = fmt.Sprintf("M%d", i)
				opts = append(opts, z.Message(msg))
			} else if opt == 2 {
				code = fmt.Sprintf("C%d", i)
				opts = append(opts, z.IssueCode(code))
			}
			switch c {
			case 0:
				s = s.GT(2, opts...)
			case 1:
				s = s.LT(10, opts...)
			case 2:
				s = s.EQ(5, opts...)
			}
			m.tests = append(m.tests, struct {
				code string
				pred func(int) bool
				msg  string
			}{code, pred, msg})
			chain = append(chain, fmt.Sprintf("%s/opt%d", []string{"GT(2)", "LT(10)", "EQ(5)"}[c], opt))
		case 3:
			if x.Bool("requiredWithOptions") {
				s, m.req, m.reqMsg, m.reqPath = s.Required(z.Message("REQ"), z.IssuePath("reqpath")), true, "REQ", "reqpath"
				chain = append(chain, "Required(Message,IssuePath)")
			} else {
				s, m.req, m.reqMsg, m.reqPath = s.Required(), true, "", ""
				chain = append(chain, "Required()")
			}
		case 4:
			s, m.req = s.Optional(), false
			chain = append(chain, "Optional()")
		case 5, 6:
			d := []int{5, 50}[c-5]
			s, m.def = s.Default(d), &d
			chain = append(chain, fmt.Sprintf("Default(%d)", d))
		case 7, 8:
			cv := []int{-1, -2}[c-7]
			s, m.catch = s.Catch(cv), &cv
			chain = append(chain, fmt.Sprintf("Catch(%d)", cv))
		}
	}
	out := &mc.Outcome{Nontrivial: true, Sig: strings.Join(chain, ".")}
	out.Sample = map[string]any{"chain": chain}
	for _, subj := range []any{nil, 0, 1, 5, 50, "5", "abc"} {
		d := -999
		l := s.Parse(subj, &d)
		out.Traces++
		// model
		var want []string
		wantDest := -999
		val, present, coerceFail := 0, true, false
		switch v := subj.(type) {
		case nil:
			present = false
		case int:
			val = v
		case string:
			if v == "5" {
				val = 5
			} else {
				coerceFail = true
			}
		}
		done := false
		if !present {
			switch {
			case m.def != nil:
				val = *m.def
			case !m.req:
				done = true
			case m.catch != nil:
				wantDest, done = *m.catch, true
			default:
				msg := "*"
				if m.reqMsg != "" {
					msg = m.reqMsg
				}
				want, done = []string{"required|" + msg + "|" + m.reqPath}, true
			}
		} else if coerceFail {
			if m.catch != nil {
				wantDest = *m.catch
			} else {
				want = []string{"coerce|*"}
			}
			done = true
		}
		if !done {
			wantDest = val
			for _, t := range m.tests {
				if !t.pred(val) {
					if m.catch != nil {
						want, wantDest = nil, *m.catch
						break
					}
					msg := "*"
					if t.msg != "" {
						msg = t.msg
					}
					want = append(want, t.code+"|"+msg)
				}
			}
		}
		var got []string
		for _, is := range l {
			msg := "*"
			for _, t := range m.tests {
				if t.msg != "" && t.msg == is.Message {
					msg = is.Message
				}
			}
			if is.Code == "required" {
				if is.Message == "REQ" {
					msg = "REQ"
				}
				got = append(got, is.Code+"|"+msg+"|"+is.Path)
				continue
			}
			got = append(got, is.Code+"|"+msg)
		}
		sort.Strings(want)
		sort.Strings(got)
		if !eqStrings(want, got) || d != wantDest {
			x.Note("chain: z.Int().%s ; subject %#v", strings.Join(chain, "."), subj)
			out.Viol = append(out.Viol, &mc.Violation{Key: "C17:int-chain", What: "Int chain does not mean what its calls say (last call wins for modifiers; options local to their test)", Expected: fmt.Sprintf("%v dest=%d", want, wantDest), Observed: fmt.Sprintf("%v dest=%d", got, d)})
			return out
		}
	}
	zh.Reset()
	return out
}

// one schema object used at several places ≡ independent copies; WithCoercer is local
func c17SharedScenario(x *mc.X) *mc.Outcome {
	zh.Reset()
	zh.Install(x, zh.PoolLIFO, zh.OrderFree)
	mk := func() *z.StringSchema[string] { return z.String().Min(3).Not().Contains("q").Catch("SH") }
	mkInt := func(custom bool) *z.NumberSchema[int] {
		if custom {
			return z.Int(z.WithCoercer(func(d any) (any, error) { return 4242, nil }))
		}
		return z.Int()
	}
	place := x.Choose(5, "placement")
	i1 := c17Subjects[x.Choose(len(c17Subjects), "in1")]
	i2 := c17Subjects[x.Choose(len(c17Subjects), "in2")]
	mode := x.Choose(2, "mode")
	type AB struct {
		A, B string
		L    []string
		P    *string
		N, M int
		Q    *int
	}
	run := func(shared bool) string {
		s1 := mk()
		s2 := s1
		if !shared {
			s2 = mk()
		}
		var d AB
		var res z.ZogIssueMap
		var sc *z.StructSchema
		var data map[string]any
		switch place {
		case 0:
			sc, data = z.Struct(z.Schema{"a": s1, "b": s2}), map[string]any{"a": i1, "b": i2}
			d.A, d.B = i1, i2
		case 1:
			sc, data = z.Struct(z.Schema{"a": s1, "l": z.Slice(s2)}), map[string]any{"a": i1, "l": []any{i2, i1}}
			d.A, d.L = i1, []string{i2, i1}
		case 2:
			sc, data = z.Struct(z.Schema{"a": s1, "p": z.Ptr(s2)}), map[string]any{"a": i1, "p": i2}
			v := i2
			d.A, d.P = i1, &v
		case 3:
			// WithCoercer affects only its own schema
			sc, data = z.Struct(z.Schema{"n": mkInt(true), "m": mkInt(false)}), map[string]any{"n": "abc", "m": "7"}
		case 4:
			// through Ptr: for the pointed-to schema only
			p := z.Ptr(z.Int())
			z.WithCoercer(func(d any) (any, error) { return 4242, nil })(p)
			sc, data = z.Struct(z.Schema{"q": p, "m": z.Int()}), map[string]any{"q": "abc", "m": "7"}
		}
		if mode == 0 || place >= 3 {
			d = AB{}
			res = sc.Parse(data, &d)
		} else {
			res = sc.Validate(&d)
		}
		var is []string
		for k, l := range res {
			if k == "$first" {
				continue
			}
			for _, i := range l {
				is = append(is, k+"|"+i.Code)
			}
		}
		sort.Strings(is)
		pv, qv := "<nil>", "<nil>"
		if d.P != nil {
			pv = *d.P
		}
		if d.Q != nil {
			qv = fmt.Sprint(*d.Q)
		}
		return fmt.Sprintf("issues=%v A=%q B=%q L=%q P=%s N=%d M=%d Q=%s", is, d.A, d.B, d.L, pv, d.N, d.M, qv)
	}
	shared := run(true)
	indep := run(false)
	zh.Reset()
	out := &mc.Outcome{Traces: 2, Nontrivial: true, Sig: fmt.Sprintf("shared|%d|%d|%s", place, mode, shared)}
	out.Sample = map[string]any{"placement": place, "inputs": []string{i1, i2}, "result": shared}
	if shared != indep {
		x.Note("placement %d (0 two fields, 1 field+slice element, 2 field+behind pointer), inputs %q %q, mode %d", place, i1, i2, mode)
		out.Viol = append(out.Viol, &mc.Violation{Key: fmt.Sprintf("C17:shared:%d", place), What: "one schema object used at two places behaves differently from two independent copies", Expected: indep, Observed: shared})
		return out
	}
	if place == 3 && !strings.Contains(shared, "N=4242 M=7") {
		out.Viol = append(out.Viol, &mc.Violation{Key: "C17:coercer-local", What: "WithCoercer must replace coercion for its own schema only", Expected: "N=4242 M=7", Observed: shared})
	}
	if place == 4 && !strings.Contains(shared, "M=7 Q=4242") {
		out.Viol = append(out.Viol, &mc.Violation{Key: "C17:coercer-ptr", What: "WithCoercer through Ptr must reach the pointed-to schema only", Expected: "M=7 Q=4242", Observed: shared})
	}
	return out
}

func c17Len(tier string) int {
	if tier == "thorough" {
		return 4
	}
	return 3
}

func init() {
	Register(&Prop{
		ID:    "C17",
		Rule:  "one execution = one chain of ≤L builder calls on z.String() from {Min, Max, Len, HasPrefix, ContainsDigit, Not().Len, Not().HasPrefix, Not().ContainsDigit, Not().Contains, degenerate parameters Contains(empty), Not().Contains(empty), Not().HasPrefix(empty), Min(0), Not().Len(0), Not().OneOf(empty list), Not() dropped then Not().HasPrefix, TestFunc} × option {none, Message, IssueCode, IssuePath, Params, Params given twice (a shared map, then the test's own), Message then MessageFunc, MessageFunc then Message (the later one counts), a MessageFunc that annotates the params of the issue it formats} and {Required, Required(Message), Optional, Default ×2, Catch ×2}, built through the real API and run on 7 subjects in both modes against a list-based model of what each call means; plus Int chains (tests × options, modifiers), plus one schema object at two places (two fields, field + slice element, field + behind pointer) vs independent copies, plus WithCoercer locality (own schema; through Ptr); every chain is non-trivial; distinct = distinct chains",
		Floor: 50,
		Bound: func(tier string) string { return fmt.Sprintf("all String chains of length ≤%d, all Int chains of length ≤3", c17Len(tier)) },
		Assumptions: []string{"Not() is followed by the methods of the interface it returns, or — called as a statement of its own — by Min / Max on the schema value (all the type system permits)", "messages are compared only where a Message option was given"},
		Items: func(tier string) []Item {
			items := []Item{
				{Name: "int-chains", MaxDevs: -1, Run: c17NumberScenario},
				{Name: "shared-and-coercer", MaxDevs: -1, Run: c17SharedScenario},
				{Name: "modifiers-after-use", MaxDevs: -1, Run: c17ReuseScenario},
				{Name: "coercer-own-schema", MaxDevs: -1, Run: c17CoercerKindsScenario},
				{Name: "value-copies-of-schemas", MaxDevs: -1, Run: c17ValueCopyScenario},
				{Name: "options-from-a-shared-list", MaxDevs: -1, Run: c17OptionSliceScenario},
				{Name: "pointer-schema-object-at-several-destination-types", MaxDevs: -1, Run: c17SharedPtrScenario},
			}
			for i, c := range c17StringCalls() {
				items = append(items, Item{Name: "string-chains/first=" + c.name, MaxDevs: -1, Run: c17StringScenario(c17Len(tier), i)})
			}
			return items
		},
	})
}
