package scen

// C12 (continued): Custom schemas and Preprocess at leaf positions.

import (
	"errors"
	"fmt"
	"reflect"
	"sort"
	"strings"

	z "github.com/Oudwins/zog"
	"github.com/Oudwins/zog/conf"
	"zogverif/mc"
	"zogverif/zh"
)

type c12CD struct {
	C int
	S string
}

func c12ExtraItems() []Item {
	return []Item{
		{Name: "custom+preprocess", MaxDevs: -1, Run: c12ExtraScenario},
		{Name: "schemas-over-named-types", MaxDevs: -1, Run: c12NamedTypesScenario},
		{Name: "field-less-struct-schemas", MaxDevs: -1, Run: c12FieldlessScenario},
		{Name: "preprocess-type-mismatch", MaxDevs: -1, Run: c12PreprocessMismatchScenario},
	}
}

// c12ExtraScenario: Custom[int] and Preprocess[string,int] at top level, as struct field, as slice element, behind pointer; both modes.
func c12ExtraScenario(x *mc.X) *mc.Outcome {
	zh.Reset()
	zh.Install(x, zh.PoolLIFO, zh.OrderFree)
	var log []string
	var customArgs []*int
	custom := func() *z.Custom[int] {
		return z.CustomFunc(func(p *int, ctx z.Ctx) bool {
			if p == nil {
				log = append(log, "custom(nil)")
				return false
			}
			customArgs = append(customArgs, p)
			log = append(log, fmt.Sprintf("custom(%d,k=%v)", *p, ctx.Get("k")))
			return *p >= 0
		}, z.IssueCode("neg"))
	}
	preMode := x.Choose(3, "preprocess fn") // 0 ok, 1 error, 2 (input of the wrong type chosen below)
	pre := func() *z.PreprocessSchema[string, int] {
		return z.Preprocess(func(s string, ctx z.Ctx) (int, error) {
			log = append(log, fmt.Sprintf("pre(%q,k=%v)", s, ctx.Get("k")))
			if preMode == 1 {
				return 0, errors.New("pre-error")
			}
			return len(s), nil
		}, z.Int().TestFunc(func(v any, ctx z.Ctx) bool {
			log = append(log, fmt.Sprintf("inner(%v)", v))
			return true
		}))
	}
	place := x.Choose(4, "placement") // 0 top, 1 struct field, 2 slice element, 3 behind pointer
	which := x.Choose(2, "schema")    // 0 custom, 1 preprocess
	mode := x.Choose(2, "mode")
	in := x.Choose(3, "input") // custom: 5 / -5 / "x" (wrong type); preprocess: "abc" / "" / 7 (wrong type)
	opt := z.WithCtxValue("k", "kv")
	var issues []string
	collectM := func(m z.ZogIssueMap) {
		for k, l := range m {
			if k == "$first" {
				continue
			}
			for _, i := range l {
				issues = append(issues, fmt.Sprintf("%s|%s|%s", k, i.Code, i.Dtype))
			}
		}
	}
	collectL := func(l z.ZogIssueList) {
		for _, i := range l {
			issues = append(issues, fmt.Sprintf("%s|%s|%s", i.Path, i.Code, i.Dtype))
		}
	}
	var want []string
	var wantIssueCount int
	desc := fmt.Sprintf("which=%d place=%d mode=%d in=%d preMode=%d", which, place, mode, in, preMode)
	var destInt int
	var destPtrOK = true
	var panicMsg string
	func() {
		defer func() {
			if r := recover(); r != nil {
				if he, ok := r.(mc.HarnessError); ok {
					panic(he)
				}
				panicMsg = fmt.Sprint(r)
			}
		}()
		if which == 0 {
			vals := []any{5, -5, "x"}
			v := vals[in]
			if mode == 1 && in == 2 {
				v = 5 // Validate has typed values only
			}
			switch place {
			case 0:
				if mode == 0 {
					collectL(custom().Parse(v, &destInt, opt))
				} else {
					destInt = v.(int)
					collectL(custom().Validate(&destInt, opt))
				}
				destPtrOK = len(customArgs) == 0 || customArgs[0] == &destInt
			case 1:
				var d c12CD
				s := z.Struct(z.Schema{"c": custom(), "s": z.String()})
				if mode == 0 {
					collectM(s.Parse(map[string]any{"c": v, "s": "x"}, &d, opt))
				} else {
					d.C = v.(int)
					d.S = "x"
					collectM(s.Validate(&d, opt))
				}
				destPtrOK = len(customArgs) == 0 || customArgs[0] == &d.C
			case 2:
				var d []int
				s := z.Slice(custom())
				if mode == 0 {
					collectM(s.Parse([]any{1, v}, &d, opt))
				} else {
					d = []int{1, v.(int)}
					collectM(s.Validate(&d, opt))
				}
				destPtrOK = len(customArgs) < 2 || (len(d) == 2 && customArgs[1] == &d[1])
			case 3:
				var d *int
				s := z.Ptr(custom())
				if mode == 0 {
					collectM(s.Parse(v, &d, opt))
				} else {
					vv := v.(int)
					d = &vv
					collectM(s.Validate(&d, opt))
				}
				destPtrOK = len(customArgs) == 0 || customArgs[0] == d
			}
			// expectation
			iv, isInt := v.(int)
			if place == 2 {
				want = append(want, "custom(1,k=kv)")
			}
			if isInt {
				want = append(want, fmt.Sprintf("custom(%d,k=kv)", iv))
				if iv < 0 {
					wantIssueCount = 1
				}
			} else {
				wantIssueCount = 1 // coerce issue, custom function not called
			}
		} else {
			vals := []any{"abc", "", 7}
			v := vals[in]
			if mode == 1 {
				return // Preprocess.Validate has a different contract (value pointer in, same type out); covered by Parse here
			}
			switch place {
			case 0:
				if s, ok := v.(string); ok {
					collectL(pre().Parse(s, &destInt, opt))
				} else {
					return
				}
			case 1:
				var d c12CD
				collectM(z.Struct(z.Schema{"c": pre(), "s": z.String()}).Parse(map[string]any{"c": v, "s": "x"}, &d, opt))
			case 2:
				var d []int
				collectM(z.Slice(pre()).Parse([]any{"q", v}, &d, opt))
			case 3:
				var d *int
				collectM(z.Ptr(pre()).Parse(v, &d, opt))
			}
			if place == 2 {
				want = append(want, `pre("q",k=kv)`)
				if preMode == 1 {
					wantIssueCount++
				} else {
					want = append(want, "inner(1)")
				}
			}
			sv, isStr := v.(string)
			switch {
			case !isStr:
				wantIssueCount++ // type mismatch: one issue, wrapped schema skipped
			case place == 3 && sv == "":
				// absent behind an optional pointer: nothing runs
			default:
				want = append(want, fmt.Sprintf("pre(%q,k=kv)", sv))
				if preMode == 1 {
					wantIssueCount++
				} else {
					want = append(want, fmt.Sprintf("inner(%d)", len(sv)))
				}
			}
		}
	}()
	zh.Reset()
	out := &mc.Outcome{Traces: 1, Nontrivial: true}
	out.Sig = desc + "|" + strings.Join(log, ",")
	out.Sample = map[string]any{"case": desc, "log": log, "issues": issues}
	if which == 1 && mode == 1 {
		out.Nontrivial = false
		return out
	}
	fail := func(key, what, exp, got string) {
		x.Note("case: %s (schema 0=Custom[int] 1=Preprocess[string,int]; placement 0 top 1 field 2 element 3 pointer)", desc)
		out.Viol = append(out.Viol, &mc.Violation{Key: key, What: what, Expected: exp, Observed: got})
	}
	if panicMsg != "" {
		fail("C12:extra:panic", "panic", "", panicMsg)
		return out
	}
	if !eqStrings(want, log) {
		fail(fmt.Sprintf("C12:extra:log:which=%d:mode=%d", which, mode), "custom/preprocess callbacks were not invoked as specified (value of own node, ctx values, wrapped schema skipped on error/mismatch)", fmt.Sprint(want), fmt.Sprint(log))
		return out
	}
	if len(issues) != wantIssueCount {
		fail(fmt.Sprintf("C12:extra:issues:which=%d", which), "number of issues differs", fmt.Sprint(wantIssueCount), fmt.Sprint(issues))
		return out
	}
	if !destPtrOK {
		fail("C12:extra:ptr", "custom function did not receive the address of its destination node", "address of destination", "other pointer")
	}
	return out
}

// ---------------------------------------------------------------------------
// Schemas over named types (the documented custom-schema feature): every callback receives the node's own value,
// i.e. a value of the NAMED type — the value itself for TestFuncs, a pointer to the destination for PostTransforms.

type c12Env string
type c12Level int

type c12Named struct {
	Env   c12Env
	Level c12Level
	Envs  []c12Env
}

func c12EnvSchema() *z.StringSchema[c12Env] {
	s := &z.StringSchema[c12Env]{}
	z.WithCoercer(func(x any) (any, error) {
		v, e := conf.DefaultCoercers.String(x)
		if e != nil {
			return nil, e
		}
		return c12Env(v.(string)), nil
	})(s)
	return s
}

func c12LevelSchema() *z.NumberSchema[c12Level] {
	s := &z.NumberSchema[c12Level]{}
	z.WithCoercer(func(x any) (any, error) {
		v, e := conf.DefaultCoercers.Int(x)
		if e != nil {
			return nil, e
		}
		return c12Level(v.(int)), nil
	})(s)
	return s
}

func c12NamedTypesScenario(x *mc.X) *mc.Outcome {
	zh.Reset()
	zh.Install(x, zh.PoolLIFO, zh.OrderFree)
	mode := x.Choose(2, "mode")
	place := x.Choose(3, "placement") // 0 top level, 1 struct fields, 2 slice elements
	how := x.Choose(3, "attach")      // 0 TestFunc, 1 Test(reusable z.TestFunc), 2 PostTransform
	var log []string
	rec := func(who string, v any) {
		log = append(log, fmt.Sprintf("%s:%T(%v)", who, v, reflect.Indirect(reflect.ValueOf(v)).Interface()))
	}
	env := c12EnvSchema()
	lvl := c12LevelSchema()
	switch how {
	case 0:
		env.TestFunc(func(v any, c z.Ctx) bool { rec("env", v); return true })
		lvl.TestFunc(func(v any, c z.Ctx) bool { rec("lvl", v); return true })
	case 1:
		env.Test(z.TestFunc("envtest", func(v any, c z.Ctx) bool { rec("env", v); return true }))
		lvl.Test(z.TestFunc("lvltest", func(v any, c z.Ctx) bool { rec("lvl", v); return true }))
	case 2:
		env.PostTransform(func(p any, c z.Ctx) error { rec("env", p); return nil })
		lvl.PostTransform(func(p any, c z.Ctx) error { rec("lvl", p); return nil })
	}
	var want []string
	val, ptr := "scen.c12Env(prod)", "*scen.c12Env(prod)"
	lval, lptr := "scen.c12Level(3)", "*scen.c12Level(3)"
	if how == 2 {
		val, lval = ptr, lptr
	}
	switch place {
	case 0:
		var d c12Env
		if mode == 0 {
			env.Parse("prod", &d)
		} else {
			d = "prod"
			env.Validate(&d)
		}
		var l c12Level
		if mode == 0 {
			lvl.Parse(3, &l)
		} else {
			l = 3
			lvl.Validate(&l)
		}
		want = []string{"env:" + val, "lvl:" + lval}
	case 1:
		s := z.Struct(z.Schema{"env": env, "level": lvl})
		var d c12Named
		if mode == 0 {
			s.Parse(map[string]any{"env": "prod", "level": 3}, &d)
		} else {
			d = c12Named{Env: "prod", Level: 3}
			s.Validate(&d)
		}
		want = []string{"env:" + val, "lvl:" + lval}
		sort.Strings(log) // field visit order is free
	case 2:
		s := z.Slice(env)
		var d []c12Env
		if mode == 0 {
			s.Parse([]any{"prod", "prod"}, &d)
		} else {
			d = []c12Env{"prod", "prod"}
			s.Validate(&d)
		}
		want = []string{"env:" + val, "env:" + val}
	}
	zh.Reset()
	out := &mc.Outcome{Traces: 1, Nontrivial: true, Sig: fmt.Sprintf("named|%d|%d|%d", mode, place, how)}
	out.Sample = map[string]any{"mode": mode, "placement": place, "attach": how, "callbacks": log}
	if !eqStrings(want, log) {
		x.Note("mode %d (0 Parse, 1 Validate), placement %d (0 top, 1 struct fields, 2 slice elements), callbacks attached with %d (0 TestFunc, 1 Test(z.TestFunc), 2 PostTransform)", mode, place, how)
		out.Viol = append(out.Viol, &mc.Violation{Key: fmt.Sprintf("C12:named-type-argument:%d", how), What: "a callback of a schema over a named type did not receive the node's own (named-type) value", Expected: fmt.Sprint(want), Observed: fmt.Sprint(log)})
	}
	return out
}

// Struct schemas without fields — a literal z.Struct(z.Schema{}), z.Struct(nil), or what Pick() / Omit(all keys)
// leave of a larger schema — are whole-object validators: their struct-level tests and PostTransforms are called
// like any other node's, with the pointer to their own destination, in both modes, at every placement.
type c12Hollow struct{ Note string }

type c12HollowHolder struct {
	E c12Hollow
	P *c12Hollow
	L []c12Hollow
}

func c12FieldlessScenario(x *mc.X) *mc.Outcome {
	zh.Reset()
	zh.Install(x, zh.PoolLIFO, zh.OrderFree)
	how := x.Choose(4, "how the field-less schema came about")
	testFails := x.Bool("test fails")
	nposts := x.Choose(3, "posts")
	place := x.Choose(4, "placement") // 0 top, 1 field, 2 elements, 3 behind pointer
	mode := x.Choose(2, "mode")
	var log []string
	var args []any
	decorate := func(s *z.StructSchema) *z.StructSchema {
		s.TestFunc(func(v any, c z.Ctx) bool {
			args = append(args, v)
			log = append(log, "test")
			return !testFails
		}, z.IssueCode("whole"))
		for i := 0; i < nposts; i++ {
			i := i
			s.PostTransform(func(v any, c z.Ctx) error {
				args = append(args, v)
				log = append(log, fmt.Sprintf("post%d", i))
				return nil
			})
		}
		return s
	}
	var hollow *z.StructSchema
	switch how {
	case 0:
		hollow = decorate(z.Struct(z.Schema{}))
	case 1:
		hollow = decorate(z.Struct(nil))
	case 2:
		hollow = decorate(z.Struct(z.Schema{"note": z.String(), "zz": z.Int()})).Pick()
	default:
		hollow = decorate(z.Struct(z.Schema{"note": z.String()})).Omit("note")
	}
	var issues []string
	collect := func(m z.ZogIssueMap) {
		for _, k := range sortedKeys(m) {
			if k != "$first" {
				for _, is := range m[k] {
					issues = append(issues, k+"|"+is.Code)
				}
			}
		}
	}
	var h c12HollowHolder
	var top c12Hollow
	var nodes []any
	visits := 1
	pmsg := func() (msg string) {
		defer func() {
			if r := recover(); r != nil {
				msg = firstLine(fmt.Sprint(r))
			}
		}()
		switch place {
		case 0:
			if mode == 0 {
				collect(hollow.Parse(map[string]any{"other": 1}, &top))
			} else {
				collect(hollow.Validate(&top))
			}
			nodes = []any{&top}
		case 1:
			s := z.Struct(z.Schema{"e": hollow})
			if mode == 0 {
				collect(s.Parse(map[string]any{"e": map[string]any{"other": 1}}, &h))
			} else {
				collect(s.Validate(&h))
			}
			nodes = []any{&h.E}
		case 2:
			s := z.Struct(z.Schema{"l": z.Slice(hollow)})
			visits = 2
			if mode == 0 {
				collect(s.Parse(map[string]any{"l": []any{map[string]any{"other": 1}, map[string]any{}}}, &h))
			} else {
				h.L = []c12Hollow{{Note: "x"}, {}}
				collect(s.Validate(&h))
			}
			if len(h.L) == 2 {
				nodes = []any{&h.L[0], &h.L[1]}
			}
		default:
			s := z.Struct(z.Schema{"p": z.Ptr(hollow)})
			if mode == 0 {
				collect(s.Parse(map[string]any{"p": map[string]any{"other": 1}}, &h))
			} else {
				h.P = &c12Hollow{Note: "x"}
				collect(s.Validate(&h))
			}
			nodes = []any{h.P}
		}
		return ""
	}()
	zh.Reset()
	var want, wantIssues []string
	paths := map[int][]string{0: {"$root"}, 1: {"e"}, 2: {"l[0]", "l[1]"}, 3: {"p"}}[place]
	for v := 0; v < visits; v++ {
		want = append(want, "test")
		if testFails {
			wantIssues = append(wantIssues, paths[v]+"|whole")
		} else {
			for i := 0; i < nposts; i++ {
				want = append(want, fmt.Sprintf("post%d", i))
			}
		}
	}
	hows := []string{"Struct(Schema{})", "Struct(nil)", "Struct{note,zz}.Pick()", "Struct{note}.Omit(note)"}
	out := &mc.Outcome{Traces: 1, Nontrivial: true, Sig: fmt.Sprintf("hollow|%d|%v|%d|%d|%d", how, testFails, nposts, place, mode)}
	out.Sample = map[string]any{"schema": hows[how], "test_fails": testFails, "posts": nposts, "placement": place, "mode": mode, "callbacks": log, "issues": issues}
	fail := func(key, what, exp, got string) {
		x.Note("field-less schema %s with one struct-level test (fails=%v) and %d PostTransforms; placement %d (0 top, 1 field, 2 two elements, 3 behind pointer); mode %d (0 Parse, 1 Validate)", hows[how], testFails, nposts, place, mode)
		out.Viol = append(out.Viol, &mc.Violation{Key: key, What: what, Expected: exp, Observed: got})
	}
	switch {
	case pmsg != "":
		fail("C12:fieldless:panic", "a field-less struct schema panicked", "no panic", pmsg)
	case !eqStrings(log, want):
		fail(fmt.Sprintf("C12:fieldless:callbacks:%d", mode), "the callbacks of a field-less struct schema were not called as for any other node", fmt.Sprint(want), fmt.Sprint(log))
	case !eqStrings(issues, wantIssues):
		fail(fmt.Sprintf("C12:fieldless:issues:%d", mode), "the failing struct-level test of a field-less schema is not reported at its node's path", fmt.Sprint(wantIssues), fmt.Sprint(issues))
	default:
		// every callback received the pointer to its own destination node
		i := 0
		for v := 0; v < visits && v < len(nodes); v++ {
			per := 1
			if !testFails {
				per += nposts
			}
			for k := 0; k < per && i < len(args); k, i = k+1, i+1 {
				if args[i] != nodes[v] {
					fail(fmt.Sprintf("C12:fieldless:argument:%d", mode), "a callback of a field-less struct schema did not receive the pointer to its own destination", fmt.Sprintf("%p", nodes[v]), fmt.Sprintf("%p", args[i]))
					return out
				}
			}
		}
	}
	return out
}

// "A Preprocess ... type mismatch becomes an issue and skips the wrapped schema": the function is declared for
// one input type F; a value of ANY other Go type — also another numeric type that happens to hold a convertible
// number — is a mismatch: one coerce issue at the node, the function is not called, the wrapped schema does not run.
func c12PreprocessMismatchScenario(x *mc.X) *mc.Outcome {
	zh.Reset()
	zh.Install(x, zh.PoolLIFO, zh.OrderSorted)
	fk := x.Choose(4, "function input type") // int, uint, float64, string
	place := x.Choose(3, "placement")        // 0 struct field, 1 slice element, 2 behind pointer (field)
	called, innerRan := 0, 0
	inner := func() z.ZogSchema {
		return z.Int().TestFunc(func(v any, c z.Ctx) bool { innerRan++; return true })
	}
	var pre z.ZogSchema
	var inputs []any
	var exact any
	switch fk {
	case 0:
		pre = z.Preprocess(func(v int, c z.Ctx) (int, error) { called++; return v, nil }, inner())
		inputs, exact = []any{float64(7), int64(7), int32(7), uint(7), uint64(1 << 63), "7", 7.5}, 7
	case 1:
		pre = z.Preprocess(func(v uint, c z.Ctx) (int, error) { called++; return int(v), nil }, inner())
		inputs, exact = []any{7, -1, int64(-1), float64(7), "7"}, uint(7)
	case 2:
		pre = z.Preprocess(func(v float64, c z.Ctx) (int, error) { called++; return int(v), nil }, inner())
		inputs, exact = []any{7, float32(7), int64(7), "7"}, float64(7)
	default:
		pre = z.Preprocess(func(v string, c z.Ctx) (int, error) { called++; return len(v), nil }, inner())
		inputs, exact = []any{7, []byte("7"), zooNamedStr("7")}, "seven"
	}
	ii := x.Choose(len(inputs)+1, "input")
	var in any = exact
	if ii < len(inputs) {
		in = inputs[ii]
	}
	var m z.ZogIssueMap
	key := "v"
	pmsg := func() (msg string) {
		defer func() {
			if r := recover(); r != nil {
				msg = firstLine(fmt.Sprint(r))
			}
		}()
		switch place {
		case 0:
			var d struct{ V int }
			m = z.Struct(z.Schema{"v": pre}).Parse(map[string]any{"v": in}, &d)
		case 1:
			var d []int
			m = z.Slice(pre).Parse([]any{in}, &d)
			key = "[0]"
		default:
			var d struct{ V *int }
			m = z.Struct(z.Schema{"v": z.Ptr(pre)}).Parse(map[string]any{"v": in}, &d)
		}
		return ""
	}()
	zh.Reset()
	var got []string
	for _, k := range sortedKeys(m) {
		if k != "$first" {
			for _, is := range m[k] {
				got = append(got, k+"|"+is.Code)
			}
		}
	}
	mismatch := ii < len(inputs)
	var want []string
	wantCalled, wantInner := 1, 1
	if mismatch {
		want, wantCalled, wantInner = []string{key + "|coerce"}, 0, 0
	}
	fks := []string{"int", "uint", "float64", "string"}
	out := &mc.Outcome{Traces: 1, Nontrivial: true, Sig: fmt.Sprintf("premismatch|%d|%T|%d", fk, in, place)}
	out.Sample = map[string]any{"function_input_type": fks[fk], "input": fmt.Sprintf("%T(%v)", in, in), "placement": place, "issues": got}
	if pmsg != "" || !eqStrings(got, want) || called != wantCalled || innerRan != wantInner {
		x.Note("Preprocess(func(%s) ..., Int) given %T(%v); placement %d (0 field, 1 element, 2 behind pointer)", fks[fk], in, in, place)
		out.Viol = append(out.Viol, &mc.Violation{Key: "C12:preprocess-type-mismatch:" + fks[fk], What: "an input that is not of the Preprocess function's input type must become one coerce issue, without calling the function or running the wrapped schema (an input of that type: function and schema run)", Expected: fmt.Sprintf("%v function calls=%d wrapped schema ran=%d", want, wantCalled, wantInner), Observed: fmt.Sprintf("panic=%q %v function calls=%d wrapped schema ran=%d", pmsg, got, called, innerRan)})
	}
	return out
}
