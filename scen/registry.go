// Package scen holds one scenario file per property: the alphabet, the
// driver that closes the system, the oracle, and the evidence rule.
package scen

import (
	"sort"
	"time"

	"zogverif/mc"
)

type Item struct {
	Name    string
	Run     mc.Scenario
	MaxDevs int // deviation budget for this item (-1 unbounded)
}

type Prop struct {
	ID          string
	Rule        string // how cases are enumerated and what makes one non-trivial/distinct
	Bound       func(tier string) string
	Items       func(tier string) []Item
	Assumptions []string
	Floor       int // minimal distinct_nontrivial below which the run is reported vacuous
	Extra       func(tier string) map[string]any // extra evidence keys (computed by shard 0 after its run)
	Custom      func(cc *CustomCtx)              // optional: a search the property drives itself (explicit-state BFS)
	Serial      bool // items must run in one process (e.g. they mutate process-global configuration)
}

var registry = map[string]*Prop{}

// RunDeadline is the worker's internal deadline (zero: none); long searches inside scenarios consult it.
var RunDeadline time.Time

func Register(p *Prop) { registry[p.ID] = p }

func Get(id string) *Prop { return registry[id] }

func IDs() []string {
	var ids []string
	for id := range registry {
		ids = append(ids, id)
	}
	sort.Strings(ids)
	return ids
}

// CustomCtx is handed to Prop.Custom.
type CustomCtx struct {
	Tier     string
	Shard    int
	NShards  int
	Deadline time.Time
	Stats    *mc.Stats
	Extra    map[string]any
}

func (cc *CustomCtx) Expired() bool {
	return !cc.Deadline.IsZero() && time.Now().After(cc.Deadline)
}
