package scen

// C02 (continued): "each failed test yields one issue with that test's code" — the code the test was declared
// with. One execution = one built-in test of String / Int / Slice / Time / Bool (plain or negated), declared with
// the IssueCode option (three spellings, one of them beginning with "not_"), on one failing and one passing
// subject, top level or field, both modes: the failing subject yields exactly one issue carrying the declared
// code, the passing one none.

import (
	"fmt"
	"net/http/httptest"
	"reflect"
	"regexp"
	"strings"
	"time"

	z "github.com/Oudwins/zog"
	"github.com/Oudwins/zog/zhttp"
	"zogverif/mc"
	"zogverif/zh"
)

var c02CodeRe = regexp.MustCompile("^a+$")

func c02DeclaredCodeScenario(x *mc.X) *mc.Outcome {
	zh.Reset()
	zh.Install(x, zh.PoolLIFO, zh.OrderSorted)
	code := []string{"own_code", "not_an_email_please", "NOT_upper"}[x.Choose(3, "declared code")]
	o := z.IssueCode(code)
	type tcase struct {
		name       string
		run        func(subj any, validate bool, field bool) (z.ZogIssueList, error)
		fail, pass any
	}
	str := func(s *z.StringSchema[string]) func(any, bool, bool) (z.ZogIssueList, error) {
		return func(subj any, validate, field bool) (z.ZogIssueList, error) {
			v := subj.(string)
			if field {
				var d struct{ V string }
				sc := z.Struct(z.Schema{"v": s})
				var m z.ZogIssueMap
				if validate {
					d.V = v
					m = sc.Validate(&d)
				} else {
					m = sc.Parse(map[string]any{"v": v}, &d)
				}
				return m["v"], nil
			}
			d := v
			if validate {
				return s.Validate(&d), nil
			}
			return s.Parse(v, &d), nil
		}
	}
	num := func(s *z.NumberSchema[int]) func(any, bool, bool) (z.ZogIssueList, error) {
		return func(subj any, validate, field bool) (z.ZogIssueList, error) {
			v := subj.(int)
			if field {
				var d struct{ V int }
				sc := z.Struct(z.Schema{"v": s})
				var m z.ZogIssueMap
				if validate {
					d.V = v
					m = sc.Validate(&d)
				} else {
					m = sc.Parse(map[string]any{"v": v}, &d)
				}
				return m["v"], nil
			}
			d := v
			if validate {
				return s.Validate(&d), nil
			}
			return s.Parse(v, &d), nil
		}
	}
	t0 := time.Date(2020, 1, 1, 0, 0, 0, 0, time.UTC)
	tm := func(s *z.TimeSchema) func(any, bool, bool) (z.ZogIssueList, error) {
		return func(subj any, validate, field bool) (z.ZogIssueList, error) {
			v := subj.(time.Time)
			d := v
			if validate {
				return s.Validate(&d), nil
			}
			return s.Parse(v, &d), nil
		}
	}
	sl := func(s *z.SliceSchema) func(any, bool, bool) (z.ZogIssueList, error) {
		return func(subj any, validate, field bool) (z.ZogIssueList, error) {
			v := subj.([]string)
			d := append([]string(nil), v...)
			var m z.ZogIssueMap
			if validate {
				m = s.Validate(&d)
			} else {
				m = s.Parse(v, &d)
			}
			return m["$root"], nil
		}
	}
	cases := []tcase{
		{"String.Min(3)", str(z.String().Min(3, o)), "ab", "abcd"},
		{"String.Max(3)", str(z.String().Max(3, o)), "abcd", "ab"},
		{"String.Len(3)", str(z.String().Len(3, o)), "ab", "abc"},
		{"String.Not().Len(3)", str(z.String().Not().Len(3, o)), "abc", "ab"},
		{"String.Email()", str(z.String().Email(o)), "nope", "a@b.co"},
		{"String.Not().Email()", str(z.String().Not().Email(o)), "a@b.co", "nope"},
		{"String.URL()", str(z.String().URL(o)), "nope", "https://a.b"},
		{"String.Not().URL()", str(z.String().Not().URL(o)), "https://a.b", "nope"},
		{"String.UUID()", str(z.String().UUID(o)), "nope", "123e4567-e89b-12d3-a456-426614174000"},
		{"String.Not().UUID()", str(z.String().Not().UUID(o)), "123e4567-e89b-12d3-a456-426614174000", "nope"},
		{"String.HasPrefix(a)", str(z.String().HasPrefix("a", o)), "ba", "ab"},
		{"String.Not().HasPrefix(a)", str(z.String().Not().HasPrefix("a", o)), "ab", "ba"},
		{"String.HasSuffix(a)", str(z.String().HasSuffix("a", o)), "ab", "ba"},
		{"String.Not().HasSuffix(a)", str(z.String().Not().HasSuffix("a", o)), "ba", "ab"},
		{"String.Contains(admin)", str(z.String().Contains("admin", o)), "user", "sysadmin"},
		{"String.Not().Contains(admin)", str(z.String().Not().Contains("admin", o)), "sysadmin", "user"},
		{"String.ContainsUpper()", str(z.String().ContainsUpper(o)), "ab", "aB"},
		{"String.Not().ContainsUpper()", str(z.String().Not().ContainsUpper(o)), "aB", "ab"},
		{"String.ContainsDigit()", str(z.String().ContainsDigit(o)), "ab", "a1"},
		{"String.Not().ContainsDigit()", str(z.String().Not().ContainsDigit(o)), "a1", "ab"},
		{"String.ContainsSpecial()", str(z.String().ContainsSpecial(o)), "ab", "a!"},
		{"String.Not().ContainsSpecial()", str(z.String().Not().ContainsSpecial(o)), "a!", "ab"},
		{"String.Match(^a+$)", str(z.String().Match(c02CodeRe, o)), "ab", "aa"},
		{"String.Not().Match(^a+$)", str(z.String().Not().Match(c02CodeRe, o)), "aa", "ab"},
		{"String.OneOf(a,b)", str(z.String().OneOf([]string{"a", "b"}, o)), "c", "a"},
		{"String.Not().OneOf(a,b)", str(z.String().Not().OneOf([]string{"a", "b"}, o)), "a", "c"},
		{"Int.GT(5)", num(z.Int().GT(5, o)), 5, 6},
		{"Int.GTE(5)", num(z.Int().GTE(5, o)), 4, 5},
		{"Int.LT(5)", num(z.Int().LT(5, o)), 5, 4},
		{"Int.LTE(5)", num(z.Int().LTE(5, o)), 6, 5},
		{"Int.EQ(5)", num(z.Int().EQ(5, o)), 4, 5},
		{"Int.OneOf(4,5)", num(z.Int().OneOf([]int{4, 5}, o)), 6, 5},
		{"Time.After(t0)", tm(z.Time().After(t0, o)), t0.Add(-time.Hour), t0.Add(time.Hour)},
		{"Time.Before(t0)", tm(z.Time().Before(t0, o)), t0.Add(time.Hour), t0.Add(-time.Hour)},
		{"Time.EQ(t0)", tm(z.Time().EQ(t0, o)), t0.Add(time.Hour), t0},
		{"Slice.Min(2)", sl(z.Slice(z.String()).Min(2, o)), []string{"a"}, []string{"a", "b"}},
		{"Slice.Max(1)", sl(z.Slice(z.String()).Max(1, o)), []string{"a", "b"}, []string{"a"}},
		{"Slice.Len(1)", sl(z.Slice(z.String()).Len(1, o)), []string{"a", "b"}, []string{"a"}},
		{"Slice.Contains(x)", sl(z.Slice(z.String()).Contains("x", o)), []string{"a"}, []string{"x"}},
	}
	c := cases[x.Choose(len(cases), "test")]
	validate := x.Bool("validate")
	field := x.Bool("as field")
	failing, _ := c.run(c.fail, validate, field)
	passing, _ := c.run(c.pass, validate, field)
	zh.Reset()
	out := &mc.Outcome{Traces: 2, Nontrivial: true, Sig: fmt.Sprintf("codes|%s|%s|%v|%v", c.name, code, validate, field)}
	out.Sample = map[string]any{"test": c.name, "declared_code": code, "validate": validate, "field": field, "issues_on_failing_subject": issueCodes(failing)}
	if len(failing) != 1 || failing[0].Code != code || len(passing) != 0 {
		x.Note("%s declared with IssueCode(%q); failing subject %v, passing subject %v; validate=%v as-field=%v", c.name, code, c.fail, c.pass, validate, field)
		out.Viol = append(out.Viol, &mc.Violation{Key: "C02:declared-code:" + c.name, What: "a failed test does not yield exactly one issue carrying the code the test was declared with (or a satisfied test yields an issue)", Expected: fmt.Sprintf("failing: [%s]; passing: []", code), Observed: fmt.Sprintf("failing: %s; passing: %s", issueCodes(failing), issueCodes(passing))})
	}
	return out
}

// An input document that cannot be decoded is ONE violation, reported once at the root: it "suppresses the node's
// own tests and children" like any un-coercible value does. One execution = one undecodable request (form with a
// bad escape / a semicolon separator / JSON truncated, an array, a number beyond float64) × method × schema
// (a record with required fields, failing tests, a nested record, a list and a record-level test; direct or
// behind Ptr): exactly one issue, at $root, and no callback ran.
func c02UndecodableScenario(x *mc.X) *mc.Outcome {
	zh.Reset()
	zh.Install(x, zh.PoolLIFO, zh.OrderFree)
	bodies := []struct{ ct, body, code string }{
		{"application/x-www-form-urlencoded", "name=John&age=%zz", "invalid_form"},
		{"application/x-www-form-urlencoded", "name=J;age=1", "invalid_form"},
		{"application/x-www-form-urlencoded; charset=utf-8", "tags=a&tags=%", "invalid_form"},
		{"application/json", `{"name":"John","age":`, "invalid_json"},
		{"application/json", `["name"]`, "invalid_json"},
		{"application/json", `{"name":"J","age":1e999}`, "invalid_json"},
		{"application/json; charset=utf-8", `{"name":"J",}`, "invalid_json"},
	}
	b := bodies[x.Choose(len(bodies), "body")]
	method := []string{"POST", "PUT", "PATCH"}[x.Choose(3, "method")] // the methods whose urlencoded body net/http reads
	behindPtr := x.Bool("schema is Ptr(Struct)")
	ran := 0
	rec := z.Struct(z.Schema{
		"name": z.String().Min(3).Required(),
		"age":  z.Int().GT(18).Required(),
		"tags": z.Slice(z.String().Min(2)).Min(1),
		"addr": z.Struct(z.Schema{"street": z.String().Required()}),
	}).TestFunc(func(v any, c z.Ctx) bool { ran++; return false }, z.IssueCode("record_rule"))
	type addr struct{ Street string }
	type doc struct {
		Name string
		Age  int
		Tags []string
		Addr addr
	}
	req := httptest.NewRequest(method, "/?name=Q&age=3", strings.NewReader(b.body))
	req.Header.Set("Content-Type", b.ct)
	var m z.ZogIssueMap
	if behindPtr {
		var d *doc
		m = z.Ptr(rec).Parse(zhttp.Request(req), &d)
	} else {
		var d doc
		m = rec.Parse(zhttp.Request(req), &d)
	}
	zh.Reset()
	var got []string
	for _, k := range sortedKeys(m) {
		if k != "$first" {
			for _, is := range m[k] {
				got = append(got, k+"|"+is.Code)
			}
		}
	}
	want := []string{"$root|" + b.code}
	out := &mc.Outcome{Traces: 1, Nontrivial: true, Sig: fmt.Sprintf("undecodable|%s|%s|%v", b.body, method, behindPtr)}
	out.Sample = map[string]any{"content_type": b.ct, "body": b.body, "method": method, "behind_ptr": behindPtr, "issues": got}
	if !eqStrings(got, want) || ran != 0 {
		x.Note("%s %s body %q into a record schema (behind Ptr=%v) with required fields, a nested record, a list and a failing record-level test", method, b.ct, b.body, behindPtr)
		out.Viol = append(out.Viol, &mc.Violation{Key: "C02:undecodable-document:" + b.code, What: "an undecodable document must yield exactly one issue at the root and suppress the record's own tests and children", Expected: fmt.Sprintf("%v, record-level test not run", want), Observed: fmt.Sprintf("%v, record-level test ran %d times", got, ran)})
	}
	return out
}

// A Custom schema does not coerce: an input that is not of its type T — also one of a DIFFERENT Go type with the
// same underlying kind (a named string for CustomFunc[string], a plain string for CustomFunc[Named]) — is one
// un-coercible value: exactly one coerce issue at the node, and the node's own function does not run.
type c02UserID string
type c02Celsius float64
type c02Count int

func c02CustomTypesScenario(x *mc.X) *mc.Outcome {
	zh.Reset()
	zh.Install(x, zh.PoolLIFO, zh.OrderSorted)
	ran := 0
	type cse struct {
		name string
		run  func(in any, place int) z.ZogIssueList
		ins  []any // inputs of other types (must be rejected); the last one has exactly type T (must be accepted and tested)
	}
	mk := func(name string, top func(in any) z.ZogIssueList, sch func() z.ZogSchema, dt any, ins ...any) cse {
		return cse{name, func(in any, place int) z.ZogIssueList {
			switch place {
			case 0:
				return top(in)
			case 1:
				d := reflect.New(reflect.StructOf([]reflect.StructField{{Name: "V", Type: reflect.TypeOf(dt)}}))
				return z.Struct(z.Schema{"v": sch()}).Parse(map[string]any{"v": in}, d.Interface())["v"]
			default:
				d := reflect.New(reflect.SliceOf(reflect.TypeOf(dt)))
				return z.Slice(sch()).Parse([]any{in}, d.Interface())["[0]"]
			}
		}, ins}
	}
	cs := func() *z.Custom[string] { return z.CustomFunc(func(p *string, c z.Ctx) bool { ran++; return false }, z.IssueCode("own")) }
	cu := func() *z.Custom[c02UserID] {
		return z.CustomFunc(func(p *c02UserID, c z.Ctx) bool { ran++; return false }, z.IssueCode("own"))
	}
	cf := func() *z.Custom[float64] { return z.CustomFunc(func(p *float64, c z.Ctx) bool { ran++; return false }, z.IssueCode("own")) }
	ci := func() *z.Custom[int] { return z.CustomFunc(func(p *int, c z.Ctx) bool { ran++; return false }, z.IssueCode("own")) }
	cases := []cse{
		mk("CustomFunc[string]", func(in any) z.ZogIssueList { var d string; return cs().Parse(in, &d) }, func() z.ZogSchema { return cs() }, "", c02UserID("u1"), []byte("u1"), 7, "plain"),
		mk("CustomFunc[UserID]", func(in any) z.ZogIssueList { var d c02UserID; return cu().Parse(in, &d) }, func() z.ZogSchema { return cu() }, c02UserID(""), "u1", zooNamedStr("u1"), c02UserID("u1")),
		mk("CustomFunc[float64]", func(in any) z.ZogIssueList { var d float64; return cf().Parse(in, &d) }, func() z.ZogSchema { return cf() }, 0.0, c02Celsius(21.5), float32(1.5), 3, 21.5),
		mk("CustomFunc[int]", func(in any) z.ZogIssueList { var d int; return ci().Parse(in, &d) }, func() z.ZogSchema { return ci() }, 0, c02Count(3), int32(3), int64(3), 3.0, 3),
	}
	c := cases[x.Choose(len(cases), "schema")]
	ii := x.Choose(len(c.ins), "input")
	place := x.Choose(3, "placement")
	in := c.ins[ii]
	exact := ii == len(c.ins)-1
	var l z.ZogIssueList
	pmsg := func() (msg string) {
		defer func() {
			if r := recover(); r != nil {
				msg = firstLine(fmt.Sprint(r))
			}
		}()
		l = c.run(in, place)
		return ""
	}()
	zh.Reset()
	wantCode, wantRan := "coerce", 0
	if exact {
		wantCode, wantRan = "own", 1
	}
	out := &mc.Outcome{Traces: 1, Nontrivial: true, Sig: fmt.Sprintf("customtype|%s|%T|%d", c.name, in, place)}
	out.Sample = map[string]any{"schema": c.name, "input": fmt.Sprintf("%T(%v)", in, in), "placement": place, "issues": issueCodes(l)}
	if pmsg != "" || len(l) != 1 || l[0].Code != wantCode || ran != wantRan {
		x.Note("%s given %T(%v) at placement %d (0 top, 1 field, 2 element)", c.name, in, in, place)
		out.Viol = append(out.Viol, &mc.Violation{Key: "C02:custom-does-not-coerce:" + c.name, What: "a Custom schema given a value that is not of its type must report exactly one coerce issue and not run its function (a value of its type: exactly the function's own issue)", Expected: fmt.Sprintf("[%s], function ran %d times", wantCode, wantRan), Observed: fmt.Sprintf("panic=%q %s, function ran %d times", pmsg, issueCodes(l), ran)})
	}
	return out
}
