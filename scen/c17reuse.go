package scen

// C17 (continued): last-call-wins holds for a schema that has already been used. One execution = one schema kind
// (String, Int, Float64, Bool, Time, Slice) and one sequence of 2–3 modifier calls from {Required, Optional,
// Default(a), Default(b), Catch(a), Catch(b)}; the live schema is executed (absent, failing and passing inputs,
// both modes) after every call, and after the last call it must behave exactly like a fresh schema on which
// the same calls were made without any use in between.

import (
	"fmt"
	"strings"
	"time"

	z "github.com/Oudwins/zog"
	"zogverif/mc"
	"zogverif/zh"
)

type c17Live struct {
	name   string
	ncalls int
	apply  func(call int)
	obs    func() []string
}

var c17CallNames = []string{"Required()", "Optional()", "Default(a)", "Default(b)", "Catch(a) / slices: Default(nil)", "Catch(b) / slices: Default(empty list)"}

func c17IssueList(l z.ZogIssueList) string {
	s := ""
	for _, is := range l {
		s += is.Code + ","
	}
	return s
}

func c17IssueMap(m z.ZogIssueMap) string {
	s := ""
	for _, k := range sortedKeys(m) {
		if k != "$first" {
			s += k + ":" + c17IssueList(m[k]) + ";"
		}
	}
	return s
}

func c17Lives() []func() c17Live {
	return []func() c17Live{
		func() c17Live { return c17StrLive(z.String().Min(3)) },
		func() c17Live { return c17IntLive(z.Int().GT(2)) },
		func() c17Live { return c17FloatLive(z.Float64().GT(2)) },
		func() c17Live { return c17BoolLive(z.Bool().True()) },
		func() c17Live { return c17TimeLive(z.Time().After(c17T0)) },
		func() c17Live { return c17SliceLive(z.Slice(z.Int().GT(2)).Min(1)) },
	}
}

var c17T0 = time.Date(2020, 1, 1, 0, 0, 0, 0, time.UTC)

func c17StrLive(s *z.StringSchema[string]) c17Live {
	return c17Live{"String().Min(3)", 6, func(c int) {
		switch c {
		case 0:
			s.Required()
		case 1:
			s.Optional()
		case 2:
			s.Default("aaaa")
		case 3:
			s.Default("bb")
		case 4:
			s.Catch("CA")
		case 5:
			s.Catch("CB")
		}
	}, func() (o []string) {
		for _, in := range []any{nil, "x", "okay"} {
			d := "§"
			o = append(o, fmt.Sprintf("Parse(%v): %s -> %q", in, c17IssueList(s.Parse(in, &d)), d))
		}
		for _, v := range []string{"", "x", "okay"} {
			d := v
			o = append(o, fmt.Sprintf("Validate(%q): %s -> %q", v, c17IssueList(s.Validate(&d)), d))
		}
		return
	}}
}

func c17IntLive(s *z.NumberSchema[int]) c17Live {
	return c17Live{"Int().GT(2)", 6, func(c int) {
		switch c {
		case 0:
			s.Required()
		case 1:
			s.Optional()
		case 2:
			s.Default(7)
		case 3:
			s.Default(1)
		case 4:
			s.Catch(-1)
		case 5:
			s.Catch(-2)
		}
	}, func() (o []string) {
		for _, in := range []any{nil, 1, 9, "abc"} {
			d := -99
			o = append(o, fmt.Sprintf("Parse(%v): %s -> %d", in, c17IssueList(s.Parse(in, &d)), d))
		}
		for _, v := range []int{0, 1, 9} {
			d := v
			o = append(o, fmt.Sprintf("Validate(%d): %s -> %d", v, c17IssueList(s.Validate(&d)), d))
		}
		return
	}}
}

func c17FloatLive(s *z.NumberSchema[float64]) c17Live {
	return c17Live{"Float64().GT(2)", 6, func(c int) {
		switch c {
		case 0:
			s.Required()
		case 1:
			s.Optional()
		case 2:
			s.Default(7.5)
		case 3:
			s.Default(1.5)
		case 4:
			s.Catch(-1)
		case 5:
			s.Catch(-2)
		}
	}, func() (o []string) {
		for _, in := range []any{nil, 1.5, 9.5} {
			d := -99.0
			o = append(o, fmt.Sprintf("Parse(%v): %s -> %v", in, c17IssueList(s.Parse(in, &d)), d))
		}
		for _, v := range []float64{0, 1.5, 9.5} {
			d := v
			o = append(o, fmt.Sprintf("Validate(%v): %s -> %v", v, c17IssueList(s.Validate(&d)), d))
		}
		return
	}}
}

func c17BoolLive(s *z.BoolSchema[bool]) c17Live {
	return c17Live{"Bool().True()", 6, func(c int) {
		switch c {
		case 0:
			s.Required()
		case 1:
			s.Optional()
		case 2:
			s.Default(true)
		case 3:
			s.Default(false)
		case 4:
			s.Catch(true)
		case 5:
			s.Catch(false)
		}
	}, func() (o []string) {
		for _, in := range []any{nil, false, true, "abc"} {
			d := false
			o = append(o, fmt.Sprintf("Parse(%v): %s -> %v", in, c17IssueList(s.Parse(in, &d)), d))
		}
		for _, v := range []bool{false, true} {
			d := v
			o = append(o, fmt.Sprintf("Validate(%v): %s -> %v", v, c17IssueList(s.Validate(&d)), d))
		}
		return
	}}
}

func c17TimeLive(s *z.TimeSchema) c17Live {
	return c17Live{"Time().After(c17T0)", 6, func(c int) {
		switch c {
		case 0:
			s.Required()
		case 1:
			s.Optional()
		case 2:
			s.Default(c17T0.Add(time.Hour))
		case 3:
			s.Default(c17T0.Add(-time.Hour))
		case 4:
			s.Catch(c17T0.Add(24 * time.Hour))
		case 5:
			s.Catch(c17T0.Add(48 * time.Hour))
		}
	}, func() (o []string) {
		for _, in := range []any{nil, c17T0.Add(-2 * time.Hour), c17T0.Add(2 * time.Hour), "abc"} {
			var d time.Time
			o = append(o, fmt.Sprintf("Parse(%v): %s -> %v", in, c17IssueList(s.Parse(in, &d)), d.UTC()))
		}
		for _, v := range []time.Time{{}, c17T0.Add(-2 * time.Hour), c17T0.Add(2 * time.Hour)} {
			d := v
			o = append(o, fmt.Sprintf("Validate(%v): %s -> %v", v, c17IssueList(s.Validate(&d)), d.UTC()))
		}
		return
	}}
}

func c17SliceLive(s *z.SliceSchema) c17Live {
	return c17Live{"Slice(Int().GT(2)).Min(1)", 6, func(c int) {
		switch c {
		case 0:
			s.Required()
		case 1:
			s.Optional()
		case 2:
			s.Default([]int{7})
		case 3:
			s.Default([]int{1, 1})
		case 4:
			s.Default(nil) // clears the default
		case 5:
			s.Default([]int{})
		}
	}, func() (o []string) {
		for _, in := range []any{nil, []any{1}, []any{9}} {
			d := []int{-99}
			o = append(o, fmt.Sprintf("Parse(%v): %s -> %v", in, c17IssueMap(s.Parse(in, &d)), d))
		}
		for _, v := range [][]int{nil, {1}, {9}} {
			d := append([]int(nil), v...)
			o = append(o, fmt.Sprintf("Validate(%v): %s -> %v", v, c17IssueMap(s.Validate(&d)), d))
		}
		// as a field: absent key
		var h struct{ L []int }
		o = append(o, fmt.Sprintf("as field, key missing: %s -> %v", c17IssueMap(z.Struct(z.Schema{"l": s}).Parse(map[string]any{}, &h)), h.L))
		return
	}}
}

func c17ReuseScenario(x *mc.X) *mc.Outcome {
	zh.Reset()
	zh.Install(x, zh.PoolLIFO, zh.OrderSorted)
	mk := c17Lives()[x.Choose(len(c17Lives()), "schema kind")]
	live, fresh := mk(), mk()
	n := 2 + x.Choose(2, "calls")
	var chain []string
	var callsMade []int
	for i := 0; i < n; i++ {
		c := x.Choose(live.ncalls, "call")
		callsMade = append(callsMade, c)
		chain = append(chain, c17CallNames[c])
		live.apply(c)
		fresh.apply(c)
		if i < n-1 {
			live.obs() // the live schema is used between the builder calls
		}
	}
	got, want := live.obs(), fresh.obs()
	zh.Reset()
	// last-call-wins, stated absolutely for the list schema's Default (the fresh schema is built by the same calls):
	// what an absent input leaves in the destination is decided by the LAST Default call — a list, an empty list,
	// or nil, which removes the default
	absolute := ""
	if live.name == "Slice(Int().GT(2)).Min(1)" {
		lastDef := -1
		for _, c := range callsMade {
			if c >= 2 {
				lastDef = c
			}
		}
		wantDest := map[int]string{-1: "[-99]", 2: "[7]", 3: "[1 1]", 4: "[-99]", 5: "[]"}[lastDef]
		if len(want) > 0 && !strings.HasSuffix(want[0], "-> "+wantDest) {
			absolute = fmt.Sprintf("Parse(nil) must leave %s (the last Default call decides), observed: %s", wantDest, want[0])
		}
	}
	out := &mc.Outcome{Traces: 2, Nontrivial: true, Sig: fmt.Sprintf("reuse|%s|%v", live.name, chain)}
	out.Sample = map[string]any{"schema": live.name, "calls": chain, "observations": want}
	if absolute != "" {
		x.Note("%s, calls %v", live.name, chain)
		out.Viol = append(out.Viol, &mc.Violation{Key: "C17:default-last-call-wins:" + live.name, What: "the last Default call does not decide what an absent input gets", Expected: "see observed", Observed: absolute})
		return out
	}
	for i := range want {
		if i >= len(got) || got[i] != want[i] {
			x.Note("%s, calls %v; the live schema was executed (absent, failing and passing inputs, both modes) after every call but the last", live.name, chain)
			g := "<missing>"
			if i < len(got) {
				g = got[i]
			}
			out.Viol = append(out.Viol, &mc.Violation{Key: "C17:modifier-after-use:" + live.name, What: "a schema that was used between its builder calls does not behave like a fresh schema on which the same calls were made", Expected: want[i], Observed: g})
			break
		}
	}
	return out
}

// A Go value copy of a schema (fork := *base) is a second schema: builder calls on the copy act on the copy.
// One execution = one primitive kind with Default and Catch already set, one modifier call made on a value copy
// of it; the original must behave exactly as before the call, and the copy like a fresh schema given the
// original's calls followed by the new one.
func c17ValueCopyScenario(x *mc.X) *mc.Outcome {
	zh.Reset()
	zh.Install(x, zh.PoolLIFO, zh.OrderSorted)
	kind := x.Choose(5, "kind")
	call := 2 + x.Choose(4, "call on the copy") // Default(a), Default(b), Catch(a), Catch(b) of the kind's alphabet
	var base, fork, fresh c17Live
	switch kind {
	case 0:
		s := z.String().Min(3).Default("aaaa").Catch("CA")
		c := *s
		base, fork, fresh = c17StrLive(s), c17StrLive(&c), c17StrLive(z.String().Min(3).Default("aaaa").Catch("CA"))
	case 1:
		s := z.Int().GT(2).Default(7).Catch(-1)
		c := *s
		base, fork, fresh = c17IntLive(s), c17IntLive(&c), c17IntLive(z.Int().GT(2).Default(7).Catch(-1))
	case 2:
		s := z.Float64().GT(2).Default(7.5).Catch(-1)
		c := *s
		base, fork, fresh = c17FloatLive(s), c17FloatLive(&c), c17FloatLive(z.Float64().GT(2).Default(7.5).Catch(-1))
	case 3:
		s := z.Bool().True().Default(true).Catch(true)
		c := *s
		base, fork, fresh = c17BoolLive(s), c17BoolLive(&c), c17BoolLive(z.Bool().True().Default(true).Catch(true))
	default:
		s := z.Time().After(c17T0).Default(c17T0.Add(time.Hour)).Catch(c17T0.Add(24 * time.Hour))
		c := *s
		base, fork, fresh = c17TimeLive(s), c17TimeLive(&c), c17TimeLive(z.Time().After(c17T0).Default(c17T0.Add(time.Hour)).Catch(c17T0.Add(24*time.Hour)))
	}
	before := base.obs()
	fork.apply(call)
	fresh.apply(call)
	after, gotFork, wantFork := base.obs(), fork.obs(), fresh.obs()
	zh.Reset()
	out := &mc.Outcome{Traces: 4, Nontrivial: true, Sig: fmt.Sprintf("valuecopy|%s|%s", base.name, c17CallNames[call])}
	out.Sample = map[string]any{"schema": base.name, "call_on_copy": c17CallNames[call], "original": before}
	for i := range before {
		if after[i] != before[i] {
			x.Note("%s with Default(a).Catch(a); fork := *schema; fork.%s", base.name, c17CallNames[call])
			out.Viol = append(out.Viol, &mc.Violation{Key: "C17:value-copy:original-changed:" + base.name, What: "a builder call on a value copy of a schema changed the original", Expected: before[i], Observed: after[i]})
			return out
		}
	}
	for i := range wantFork {
		if gotFork[i] != wantFork[i] {
			x.Note("%s with Default(a).Catch(a); fork := *schema; fork.%s", base.name, c17CallNames[call])
			out.Viol = append(out.Viol, &mc.Violation{Key: "C17:value-copy:copy-differs:" + base.name, What: "a value copy of a schema given one more builder call does not behave like a fresh schema given the same calls", Expected: wantFork[i], Observed: gotFork[i]})
			return out
		}
	}
	return out
}
