package scen

// C07 (continued): "...and on the global configuration at that moment". The message tables are documented as
// editable in place (conf.DefaultIssueMessageMap[type][code] = ...; a user's own table behind
// conf.NewDefaultFormatter). One execution = some earlier calls (none, a string failure, a number failure, both),
// then an in-place edit of one template, then calls of both types: every message is what the table says NOW,
// whatever was formatted before the edit.

import (
	"fmt"

	z "github.com/Oudwins/zog"
	"github.com/Oudwins/zog/conf"
	"github.com/Oudwins/zog/zconst"
	"zogverif/mc"
	"zogverif/zh"
)

func c07TableEditScenario(x *mc.X) *mc.Outcome {
	zh.Reset()
	zh.Install(x, zh.PoolLIFO, zh.OrderSorted)
	pre := x.Choose(4, "earlier calls")       // 0 none, 1 a string failure, 2 a number failure, 3 both
	which := x.Choose(2, "table")             // 0 the stock table behind the global formatter, 1 a user's table behind NewDefaultFormatter via WithIssueFormatter
	edit := x.Choose(3, "edited template")    // 0 string/min, 1 number/gt, 2 string/required
	table := conf.DefaultIssueMessageMap
	var opts []z.ExecOption
	if which == 1 {
		table = zconst.LangMap{
			zconst.TypeString: {"min": "user: at least {{min}}", "required": "user: required", "default": "user: bad text"},
			zconst.TypeNumber: {"gt": "user: more than {{gt}}", "default": "user: bad number"},
		}
		opts = append(opts, z.WithIssueFormatter(conf.NewDefaultFormatter(table)))
	}
	strFail := func() string {
		var d string
		l := z.String().Min(3).Parse("ab", &d, opts...)
		if len(l) != 1 {
			return fmt.Sprintf("<%d issues>", len(l))
		}
		return l[0].Message
	}
	reqFail := func() string {
		var d string
		l := z.String().Required().Parse(nil, &d, opts...)
		if len(l) != 1 {
			return fmt.Sprintf("<%d issues>", len(l))
		}
		return l[0].Message
	}
	numFail := func() string {
		var d int
		l := z.Int().GT(5).Parse(3, &d, opts...)
		if len(l) != 1 {
			return fmt.Sprintf("<%d issues>", len(l))
		}
		return l[0].Message
	}
	if pre == 1 || pre == 3 {
		strFail()
	}
	if pre == 2 || pre == 3 {
		numFail()
	}
	typ, code, text := zconst.TypeString, "min", "EDITED: {{min}} or more"
	switch edit {
	case 1:
		typ, code, text = zconst.TypeNumber, "gt", "EDITED: above {{gt}}"
	case 2:
		typ, code, text = zconst.TypeString, "required", "EDITED: needed"
	}
	saved, had := table[typ][code]
	table[typ][code] = text
	defer func() {
		if had {
			table[typ][code] = saved
		} else {
			delete(table[typ], code)
		}
	}()
	got := []string{strFail(), numFail(), reqFail()}
	render := func(t, c string, params map[string]any) string {
		return renderTemplate(table[t][c], params)
	}
	want := []string{render(zconst.TypeString, "min", map[string]any{"min": 3}), render(zconst.TypeNumber, "gt", map[string]any{"gt": 5}), render(zconst.TypeString, "required", nil)}
	zh.Reset()
	out := &mc.Outcome{Traces: 3, Nontrivial: true, Sig: fmt.Sprintf("tableedit|%d|%d|%d", pre, which, edit)}
	out.Sample = map[string]any{"earlier_calls": pre, "table": which, "edited": typ + "/" + code, "messages": got}
	if !eqStrings(got, want) {
		x.Note("earlier calls %d (0 none, 1 a string failure, 2 a number failure, 3 both); table %d (0 the stock table, 1 a user's table behind conf.NewDefaultFormatter passed with WithIssueFormatter); then %s/%s edited in place; then String.Min, Int.GT and String.Required fail", pre, which, typ, code)
		out.Viol = append(out.Viol, &mc.Violation{Key: fmt.Sprintf("C07:message-table-edited-between-calls:%d", which), What: "after an in-place edit of a message table, messages are not what the table says now (they depend on what was formatted before the edit)", Expected: fmt.Sprint(want), Observed: fmt.Sprint(got)})
	}
	return out
}
