package scen

// C02 — every violation is reported exactly once, where it occurred, and
// nothing else. Core space (skeleton × ≤k focus units × all visit orders ×
// both modes); oracle: issue multiset (key, path, code, type) == spec; nil ⇔
// no violation.

import (
	"fmt"
	"strings"

	"zogverif/mc"
	"zogverif/zh"
)

func coreK(tier string) (k, elems int) {
	if tier == "thorough" {
		return 2, 2
	}
	return 2, 2
}

// coreItems builds one work item per (skeleton, mode, focus set).
func coreItems(tier string, mk func(a *Alpha, ns NamedSkel, focus []string, elems int) mc.Scenario, alphaMod func(a *Alpha), modes []int, maxK int) []Item {
	return coreItemsFiltered(tier, mk, alphaMod, modes, maxK, nil)
}

func coreItemsFiltered(tier string, mk func(a *Alpha, ns NamedSkel, focus []string, elems int) mc.Scenario, alphaMod func(a *Alpha), modes []int, maxK int, keep func(ns NamedSkel) bool) []Item {
	var items []Item
	k, elems := coreK(tier)
	if maxK > 0 && k > maxK {
		k = maxK
	}
	for _, ns := range coreSkeletons(tier) {
		if keep != nil && !keep(ns) {
			continue
		}
		units := skelUnits(ns.S, elems)
		for _, mode := range modes {
			for _, fs := range focusSets(units, k) {
				a := &Alpha{Tier: tier, Mode: mode}
				if alphaMod != nil {
					alphaMod(a)
				}
				name := fmt.Sprintf("%s/%s/{%s}", ns.Name, []string{"Parse", "Validate"}[mode], strings.Join(fs, ","))
				items = append(items, Item{Name: name, Run: mk(a, ns, fs, elems), MaxDevs: -1})
			}
			// thorough: every triple of units, each over the reduced (Lite) alphabet
			if tier == "thorough" && (maxK == 0 || maxK >= 3) {
				for _, fs := range focusSets(units, 3) {
					if len(fs) != 3 {
						continue
					}
					a := &Alpha{Tier: tier, Mode: mode}
					if alphaMod != nil {
						alphaMod(a)
					}
					a.Lite = true
					name := fmt.Sprintf("%s/%s/k3{%s}", ns.Name, []string{"Parse", "Validate"}[mode], strings.Join(fs, ","))
					items = append(items, Item{Name: name, Run: mk(a, ns, fs, elems), MaxDevs: -1})
				}
			}
		}
	}
	// shape grammar: every struct of two (thorough: also three) fields drawn from the field shapes
	// {Str, Slice(Int), Ptr(Str), Struct, Ptr(Struct), Slice(Struct)}, every pair of units over the
	// reduced alphabets. Sibling combinations (two records, a record next to an optional record, …)
	// are covered by construction instead of by the hand-picked list above.
	for _, ns := range shapeSkeletons(tier) {
		if keep != nil && !keep(ns) {
			continue
		}
		units := skelUnits(ns.S, elems)
		kk := 2
		if maxK > 0 && kk > maxK {
			kk = maxK
		}
		probe := &Alpha{Tier: tier}
		if alphaMod != nil {
			alphaMod(probe)
		}
		if probe.WithPost && tier != "thorough" {
			kk = 1 // the PostTransform dimension multiplies every unit by 7: pairs over the shape grammar are left to the thorough tier
		}
		for _, mode := range modes {
			for _, fs := range focusSets(units, kk) {
				a := &Alpha{Tier: tier, Mode: mode}
				if alphaMod != nil {
					alphaMod(a)
				}
				a.Lite = true
				name := fmt.Sprintf("%s/%s/{%s}", ns.Name, []string{"Parse", "Validate"}[mode], strings.Join(fs, ","))
				items = append(items, Item{Name: name, Run: mk(a, ns, fs, elems), MaxDevs: -1})
			}
		}
	}
	return items
}

// shapeSkeletons enumerates struct skeletons from a grammar of field shapes.
func shapeSkeletons(tier string) []NamedSkel {
	type shape struct {
		name string
		mk   func() *Skel
	}
	shapes := []shape{
		{"Str", func() *Skel { return sp(KStr) }},
		{"L", func() *Skel { return sl(sp(KInt)) }},
		{"R", func() *Skel { return sr(sp(KStr)) }},
		{"S", func() *Skel { return ss("g1", sp(KStr)) }},
		{"RS", func() *Skel { return sr(ss("g1", sp(KStr))) }},
		{"LS", func() *Skel { return sl(ss("g1", sp(KStr))) }},
	}
	var list []NamedSkel
	for i := range shapes {
		for j := i; j < len(shapes); j++ {
			list = append(list, NamedSkel{"G2[" + shapes[i].name + "," + shapes[j].name + "]", ss("f1", shapes[i].mk(), "f2", shapes[j].mk())})
			if tier != "thorough" {
				continue
			}
			for k := j; k < len(shapes); k++ {
				list = append(list, NamedSkel{"G3[" + shapes[i].name + "," + shapes[j].name + "," + shapes[k].name + "]", ss("f1", shapes[i].mk(), "f2", shapes[j].mk(), "f3", shapes[k].mk())})
			}
		}
	}
	for _, ns := range list {
		ns.S.label("")
	}
	return list
}

// lateConfigItems: every core case with one deviating unit again, the schema tree composed first and every node
// configured (Required, NotNil, Default, Catch, tests, PostTransforms) only afterwards.
func lateConfigItems(tier string, mk func(a *Alpha, ns NamedSkel, focus []string, elems int) mc.Scenario, alphaMod func(a *Alpha)) []Item {
	var items []Item
	for _, it := range coreItems(tier, mk, alphaMod, []int{0, 1}, 1) {
		inner := it.Run
		it.Name = "late-config/" + it.Name
		it.Run = func(x *mc.X) *mc.Outcome {
			BuildLateMode = true
			defer func() { BuildLateMode = false }()
			return inner(x)
		}
		items = append(items, it)
	}
	return items
}

func thoroughPrefix(tier string) string {
	if tier == "thorough" {
		return "every triple of units over the reduced alphabets (k=3), in addition to: "
	}
	return ""
}

func focusMap(fs []string) map[string]bool {
	m := map[string]bool{}
	for _, f := range fs {
		m[f] = true
	}
	return m
}

func eqStrings(a, b []string) bool {
	if len(a) != len(b) {
		return false
	}
	for i := range a {
		if a[i] != b[i] {
			return false
		}
	}
	return true
}

// diffKey abstracts a multiset difference into a stable finding key:
// which (code,type) entries are missing from / extra in the real result.
func diffKey(want, got []string) string {
	cnt := map[string]int{}
	for _, w := range want {
		cnt[w]++
	}
	for _, g := range got {
		cnt[g]--
	}
	var missing, extra []string
	seenM, seenE := map[string]bool{}, map[string]bool{}
	for _, k := range mc.SortedKeys(cnt) {
		parts := strings.Split(k, "|")
		ct := parts[2] + "/" + parts[3]
		if cnt[k] > 0 && !seenM[ct] {
			seenM[ct] = true
			missing = append(missing, ct)
		}
		if cnt[k] < 0 && !seenE[ct] {
			seenE[ct] = true
			extra = append(extra, ct)
		}
	}
	return fmt.Sprintf("missing[%s] extra[%s]", strings.Join(missing, ","), strings.Join(extra, ","))
}

func c02Scenario(a *Alpha, ns NamedSkel, focus []string, elems int) mc.Scenario {
	fm := focusMap(focus)
	return func(x *mc.X) *mc.Outcome {
		cr := runCore(x, a, ns.S, fm, elems, zh.OrderFree, false)
		if cr.Redundant {
			return &mc.Outcome{Sig: "redundant"}
		}
		out := &mc.Outcome{Traces: 1, Nontrivial: cr.Case.NDev > 0}
		want := cr.Spec.sortedFor(cr.Case.Root)
		got := cr.Real.IssueStrings()
		out.Sig = fmt.Sprintf("%s|%d|%v", ns.Name, a.Mode, want)
		out.LazySample = func() any { return map[string]any{"case": cr.Case.Describe(), "orders": cr.Orders, "issues": got} }
		defer func() {
			if len(out.Viol) > 0 {
				for _, l := range cr.describe() {
					x.Note("%s", l)
				}
			}
		}()
		modeName := []string{"Parse", "Validate"}[a.Mode]
		if cr.Real.Panic != "" {
			out.Viol = append(out.Viol, &mc.Violation{Key: "C02:panic:" + modeName + ":" + firstLine(cr.Real.Panic), What: "call panicked", Expected: fmt.Sprint(want), Observed: cr.Real.Panic})
			return out
		}
		if !eqStrings(want, got) {
			out.Viol = append(out.Viol, &mc.Violation{
				Key:      "C02:issues:" + modeName + ":" + diffKey(want, got),
				What:     "issues differ from the specification (key|path|code|type)",
				Expected: fmt.Sprint(want),
				Observed: fmt.Sprint(got),
			})
			return out
		}
		if (len(want) == 0) != cr.Real.Nil {
			out.Viol = append(out.Viol, &mc.Violation{Key: "C02:nil:" + modeName, What: "result must be nil iff there is no violation", Expected: fmt.Sprintf("nil=%v", len(want) == 0), Observed: fmt.Sprintf("nil=%v", cr.Real.Nil)})
		}
		return out
	}
}

func firstLine(s string) string {
	if i := strings.IndexByte(s, '\n'); i >= 0 {
		s = s[:i]
	}
	if len(s) > 80 {
		s = s[:80]
	}
	return s
}

func init() {
	Register(&Prop{
		ID:    "C02",
		Rule:  "one execution = one (skeleton, mode, ≤k focus units each ranging over its full configuration×input alphabet — tests {t2 | t1,t2 with t2 declared as an edited copy of a reusable z.Test value | none | t1 filed by IssuePath under one path shared by all such nodes, t2} —, field visit order at every struct visit) case; all other units are plain (optional, one passing recording test, valid input); non-trivial = at least one unit deviates from plain; distinct = distinct (skeleton, mode, expected issue multiset). plus every single-unit case again with the schema tree composed first and every node configured only afterwards (late configuration). plus " + callsRule,
		Floor: 50,
		Bound: func(tier string) string {
			k, e := coreK(tier)
			return thoroughPrefix(tier) + fmt.Sprintf("k=%d focus units jointly over full alphabets, %d skeletons, %d elements per slice, every permutation of field visits, Parse and Validate", k, len(coreSkeletons(tier)), e)
		},
		Assumptions: []string{
			"reference model written from the documentation/property statements (scen/core_spec.go); PostTransforms are absent in this space (failing PostTransforms belong to C12)",
			"order of issues within one map key is compared as a multiset; $first is excluded (C10 checks it)",
		},
		Items: func(tier string) []Item {
			items := coreItems(tier, c02Scenario, func(a *Alpha) { a.PathOpt = true }, []int{0, 1}, 0)
			// builder calls made after a schema was handed to its parent's constructor mean the same as before it
			items = append(items, lateConfigItems(tier, c02Scenario, func(a *Alpha) { a.PathOpt = true })...)
			// the issues a caller holds are exactly the violations, also after later and overlapping executions
			// "a value that satisfies its node yields no issue" / "each failed test yields one issue" for the built-in URL
			// test on URLs assembled from parts (the reference predicate is C20's)
			// every pointer NotNil by default: a NotNil pointer next to two other deviating nodes within k=2
			for _, it := range coreItemsFiltered(tier, c02Scenario, func(a *Alpha) { a.Lite = true; a.PtrReq = true }, []int{0, 1}, 2, func(ns NamedSkel) bool { return hasPtr(ns.S) }) {
				it.Name = "notnil-pointers/" + it.Name
				items = append(items, it)
			}
			// every struct-level test failing by default
			for _, it := range coreItemsFiltered(tier, c02Scenario, func(a *Alpha) { a.Lite = true; a.StructFails = true }, []int{0, 1}, 2, func(ns NamedSkel) bool { return hasStruct(ns.S) }) {
				it.Name = "failing-record-tests/" + it.Name
				items = append(items, it)
			}
			items = append(items, Item{Name: "builtin/declared-codes", MaxDevs: -1, Run: c02DeclaredCodeScenario})
			items = append(items, Item{Name: "undecodable-documents", MaxDevs: -1, Run: c02UndecodableScenario})
			items = append(items, Item{Name: "custom-schemas-do-not-coerce", MaxDevs: -1, Run: c02CustomTypesScenario})
			items = append(items, Item{Name: "builtin/URLParts", MaxDevs: -1, Run: reKey("C02", "C20", c20URLParts)})
			items = append(items, preprocItem("C02", "clean-despite-violation", "issues", "panic"))
			return append(items, callsItems(tier, "C02", "clean-despite-violation", "depends-on-history", "nested-call-differs", "earlier-result-changed", "panic")...)
		},
	})
}
