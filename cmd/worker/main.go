// worker: built with the instrumentation overlay; explores the items of one
// property that fall into its shard and writes partial statistics as JSON.
package main

import (
	"regexp"
	"encoding/json"
	"flag"
	"fmt"
	"os"
	"runtime/debug"
	"runtime/pprof"
	"time"

	"zogverif/mc"
	"zogverif/scen"
)

type Part struct {
	Prop        string               `json:"prop"`
	Tier        string               `json:"tier"`
	Shard       int                  `json:"shard"`
	Items       int                  `json:"items"`
	ItemsDone   int                  `json:"items_done"`
	Executions  int64                `json:"executions"`
	States      int64                `json:"states"`
	Transitions int64                `json:"transitions"`
	Traces      int64                `json:"traces"`
	Nontrivial  int64                `json:"nontrivial"`
	Sigs        []string             `json:"sigs"`
	MaxDepth    int                  `json:"max_depth"`
	MaxDevsUsed int                  `json:"max_devs_used"`
	Capped      bool                 `json:"capped"`
	CapReason   string               `json:"cap_reason"`
	Violations  []*mc.FoundViolation `json:"violations"`
	Samples     []any                `json:"samples"`
	Rechecks    int64                `json:"rechecks"`
	WallS       float64              `json:"wall_s"`
	PerItem     map[string]int64     `json:"per_item"`
	Rule        string               `json:"rule"`
	Bound       string               `json:"bound"`
	Assumptions []string             `json:"assumptions"`
	Floor       int                  `json:"floor"`
	Extra       map[string]any       `json:"extra"`
}

func main() {
	prop := flag.String("prop", "", "property id")
	tier := flag.String("tier", "quick", "quick|thorough")
	shard := flag.Int("shard", 0, "")
	nshards := flag.Int("nshards", 1, "")
	out := flag.String("out", "", "output file")
	deadline := flag.Int("deadline", 0, "seconds; 0 = none")
	replay := flag.String("replay", "", "replay file")
	list := flag.Bool("list", false, "list properties")
	cpuprof := flag.String("cpuprofile", "", "write cpu profile")
	flag.Parse()
	if *cpuprof != "" {
		f, _ := os.Create(*cpuprof)
		pprof.StartCPUProfile(f)
		defer pprof.StopCPUProfile()
	}
	debug.SetGCPercent(400)
	if *list {
		for _, id := range scen.IDs() {
			fmt.Println(id)
		}
		return
	}
	if *replay != "" {
		doReplay(*replay)
		return
	}
	p := scen.Get(*prop)
	if p == nil {
		fmt.Fprintf(os.Stderr, "HARNESS-ERROR unknown property %q\n", *prop)
		os.Exit(2)
	}
	start := time.Now()
	var dl time.Time
	if *deadline > 0 {
		dl = start.Add(time.Duration(*deadline) * time.Second)
		scen.RunDeadline = dl
	}
	items := p.Items(*tier)
	if f := os.Getenv("ZOGMC_ITEMS"); f != "" {
		// development aid: run only the items whose name matches (the driver then reports exhaustive=false)
		re := regexp.MustCompile(f)
		var keep []scen.Item
		for _, it := range items {
			if re.MatchString(it.Name) {
				keep = append(keep, it)
			}
		}
		items = keep
	}
	st := mc.NewStats()
	part := &Part{Prop: *prop, Tier: *tier, Shard: *shard, Items: len(items), PerItem: map[string]int64{}, Rule: p.Rule, Assumptions: p.Assumptions, Floor: p.Floor}
	if p.Bound != nil {
		part.Bound = p.Bound(*tier)
	}
	for i, it := range items {
		if p.Serial {
			if *shard != 0 {
				continue
			}
		} else if i%*nshards != *shard {
			continue
		}
		before := st.Executions
		nviol := len(st.Violations)
		mc.Explore(it.Name, it.Run, mc.Bounds{MaxDevs: it.MaxDevs, Deadline: dl}, st, *tier)
		part.PerItem[it.Name] = st.Executions - before
		if len(st.Violations) > nviol {
			// shrink new violations while the item's scenario is at hand
			for _, fv := range st.Violations {
				if fv.Item == it.Name && !fvShrunk[fv] {
					fvShrunk[fv] = true
					sh := mc.Shrink(it.Run, fv.Choices, fv.V.Key, *tier)
					x, o := mc.Replay(it.Run, sh, *tier)
					if o != nil {
						for _, v := range o.Viol {
							if v.Key == fv.V.Key {
								fv.V, fv.Choices, fv.Labels, fv.Notes = v, x.Choices(), x.Labels(), x.Notes()
							}
						}
					}
				}
			}
		}
		if st.Capped {
			break
		}
		part.ItemsDone++
	}
	if p.Custom != nil && !st.Capped {
		cc := &scen.CustomCtx{Tier: *tier, Shard: *shard, NShards: *nshards, Deadline: dl, Stats: st, Extra: map[string]any{}}
		p.Custom(cc)
		if len(cc.Extra) > 0 {
			part.Extra = cc.Extra
		}
	}
	part.Executions, part.States, part.Transitions, part.Traces = st.Executions, st.States, st.Transitions, st.Traces
	part.Nontrivial, part.MaxDepth, part.MaxDevsUsed = st.Nontrivial, st.MaxDepth, st.MaxDevsUsed
	part.Capped, part.CapReason, part.Rechecks = st.Capped, st.CapReason, st.Rechecks
	part.Sigs = mc.SortedKeys(st.Sigs)
	for _, k := range mc.SortedKeys(st.Violations) {
		part.Violations = append(part.Violations, st.Violations[k])
	}
	part.Samples = st.Samples
	part.WallS = time.Since(start).Seconds()
	if p.Extra != nil && *shard == 0 {
		for k, v := range p.Extra(*tier) {
			if part.Extra == nil {
				part.Extra = map[string]any{}
			}
			part.Extra[k] = v
		}
	}
	b, err := json.Marshal(part)
	if err != nil {
		fmt.Fprintf(os.Stderr, "HARNESS-ERROR marshal: %v\n", err)
		os.Exit(2)
	}
	if *out == "" {
		os.Stdout.Write(b)
		return
	}
	if err := os.WriteFile(*out, b, 0o644); err != nil {
		fmt.Fprintf(os.Stderr, "HARNESS-ERROR write: %v\n", err)
		os.Exit(2)
	}
}

var fvShrunk = map[*mc.FoundViolation]bool{}

type ReplayFile struct {
	Property string   `json:"property"`
	Tier     string   `json:"tier"`
	Item     string   `json:"item"`
	Choices  []int    `json:"choices"`
	Key      string   `json:"key"`
	What     string   `json:"what"`
	Expected string   `json:"expected"`
	Observed string   `json:"observed"`
	Labels   []string `json:"labels"`
	Notes    []string `json:"notes"`
}

func doReplay(path string) {
	b, err := os.ReadFile(path)
	if err != nil {
		fmt.Fprintln(os.Stderr, err)
		os.Exit(2)
	}
	var rf ReplayFile
	if err := json.Unmarshal(b, &rf); err != nil {
		fmt.Fprintln(os.Stderr, err)
		os.Exit(2)
	}
	p := scen.Get(rf.Property)
	if p == nil {
		fmt.Fprintf(os.Stderr, "unknown property %s\n", rf.Property)
		os.Exit(2)
	}
	for _, it := range p.Items(rf.Tier) {
		if it.Name != rf.Item {
			continue
		}
		x, o := mc.Replay(it.Run, rf.Choices, rf.Tier)
		fmt.Printf("replay property=%s item=%s choices=%v\n", rf.Property, rf.Item, x.Choices())
		for _, l := range x.Labels() {
			fmt.Println("  choice", l)
		}
		for _, n := range x.Notes() {
			fmt.Println("  note  ", n)
		}
		hit := false
		if o != nil {
			for _, v := range o.Viol {
				fmt.Printf("  VIOLATION key=%s\n    what: %s\n    expected: %s\n    observed: %s\n", v.Key, v.What, v.Expected, v.Observed)
				if v.Key == rf.Key {
					hit = true
				}
			}
		}
		if hit {
			fmt.Println("replay: recorded violation reproduced")
			os.Exit(1)
		}
		fmt.Println("replay: recorded violation NOT reproduced")
		os.Exit(0)
	}
	fmt.Fprintf(os.Stderr, "item %q not found\n", rf.Item)
	os.Exit(2)
}
