// zog-instr: reads the current working tree of the zog repository and writes
// instrumented copies of its non-test Go files plus an overlay.json for
// `go build -overlay`. /repo itself is never modified.
//
// Rewrites (DESIGN §3.1):
//  1. sync.Pool -> zverif.Pool (pool shim; Get answers chosen by the explorer)
//  2. for k, v := range <map> -> iterate zverif.Keys(site, m) (order chosen by the explorer)
//  3. zverif.Yield(site) before every statement (fine-grained scheduling points)
//
// It uses the Go standard library only (go/parser, go/types with the source
// importer, go/printer).
package main

import (
	"bytes"
	"encoding/json"
	"flag"
	"fmt"
	"go/ast"
	"go/importer"
	"go/parser"
	"go/printer"
	"go/token"
	"go/types"
	"os"
	"path/filepath"
	"sort"
	"strconv"
	"strings"
)

const shimImport = "github.com/Oudwins/zog/zverif"
const shimName = "zverif__"

type report struct {
	Files        int      `json:"files"`
	PoolSites    []string `json:"pool_sites"`
	MapRanges    []string `json:"map_range_sites_hooked"`
	Unhooked     []string `json:"map_range_sites_unhooked"`
	OrderStdlib  []string `json:"order_sensitive_stdlib_calls_not_hooked"`
	YieldSites   int      `json:"yield_sites"`
	Skipped      []string `json:"files_skipped"`
	TypeErrors   []string `json:"type_errors"`
	YieldSiteMap []string `json:"-"`
}

func main() {
	repo := flag.String("repo", "/repo", "zog working tree")
	out := flag.String("out", "", "output directory (gen/ and overlay.json are written here)")
	shim := flag.String("shim", "", "path of the real zverif.go to map into the overlay")
	keyroot := flag.String("keyroot", "", "overlay keys are written relative to this root instead of -repo (sources are read from -repo); used to check a scratch worktree without touching the module path")
	flag.Parse()
	if *out == "" || *shim == "" {
		fmt.Fprintln(os.Stderr, "usage: zog-instr -repo /repo -out DIR -shim /verif/zverif/zverif.go")
		os.Exit(2)
	}
	if err := os.Chdir(*repo); err != nil {
		fatal(err)
	}
	dirs := map[string][]string{}
	err := filepath.Walk(*repo, func(path string, info os.FileInfo, err error) error {
		if err != nil {
			return err
		}
		if info.IsDir() {
			b := info.Name()
			if path != *repo && (strings.HasPrefix(b, ".") || b == "docs" || b == "testdata" || b == "node_modules" || b == "assets" || b == "zverif") {
				return filepath.SkipDir
			}
			return nil
		}
		if strings.HasSuffix(path, ".go") && !strings.HasSuffix(path, "_test.go") {
			d := filepath.Dir(path)
			dirs[d] = append(dirs[d], path)
		}
		return nil
	})
	if err != nil {
		fatal(err)
	}
	var dirList []string
	for d := range dirs {
		dirList = append(dirList, d)
	}
	sort.Strings(dirList)

	rep := &report{}
	overlay := map[string]string{}
	if *keyroot == "" {
		*keyroot = *repo
	}
	overlay[filepath.Join(*keyroot, "zverif", "zverif.go")] = *shim
	fset := token.NewFileSet()
	imp := importer.ForCompiler(fset, "source", nil)
	yieldID := 0
	for _, d := range dirList {
		files := dirs[d]
		sort.Strings(files)
		var parsed []*ast.File
		var paths []string
		for _, f := range files {
			src, err := os.ReadFile(f)
			if err != nil {
				fatal(err)
			}
			if bytes.Contains(src, []byte("//go:build")) || bytes.Contains(src, []byte("// +build")) || bytes.Contains(src, []byte("//go:embed")) || bytes.Contains(src, []byte("import \"C\"")) {
				rep.Skipped = append(rep.Skipped, rel(*repo, f)+" (build constraint / directive)")
				continue
			}
			af, err := parser.ParseFile(fset, f, src, parser.SkipObjectResolution)
			if err != nil {
				fatal(fmt.Errorf("parse %s: %v", f, err))
			}
			if af.Name.Name == "main" {
				rep.Skipped = append(rep.Skipped, rel(*repo, f)+" (package main)")
				continue
			}
			parsed = append(parsed, af)
			paths = append(paths, f)
		}
		if len(parsed) == 0 {
			continue
		}
		relDir := rel(*repo, d)
		importPath := "github.com/Oudwins/zog"
		if relDir != "." {
			importPath += "/" + filepath.ToSlash(relDir)
		}
		info := &types.Info{Types: map[ast.Expr]types.TypeAndValue{}, Uses: map[*ast.Ident]types.Object{}}
		conf := types.Config{Importer: imp, Error: func(err error) {
			rep.TypeErrors = append(rep.TypeErrors, err.Error())
		}}
		conf.Check(importPath, fset, parsed, info)
		for i, af := range parsed {
			in := &instr{fset: fset, info: info, rep: rep, file: rel(*repo, paths[i]), yieldID: &yieldID}
			in.rewriteFile(af)
			var buf bytes.Buffer
			if err := (&printer.Config{Mode: printer.UseSpaces | printer.TabIndent, Tabwidth: 8}).Fprint(&buf, fset, af); err != nil {
				fatal(err)
			}
			dst := filepath.Join(*out, "gen", rel(*repo, paths[i]))
			if err := os.MkdirAll(filepath.Dir(dst), 0o755); err != nil {
				fatal(err)
			}
			if err := os.WriteFile(dst, buf.Bytes(), 0o644); err != nil {
				fatal(err)
			}
			overlay[filepath.Join(*keyroot, rel(*repo, paths[i]))] = dst
			rep.Files++
		}
	}
	rep.YieldSites = yieldID
	sort.Strings(rep.MapRanges)
	ov, _ := json.MarshalIndent(map[string]any{"Replace": overlay}, "", " ")
	if err := os.WriteFile(filepath.Join(*out, "overlay.json"), ov, 0o644); err != nil {
		fatal(err)
	}
	rp, _ := json.MarshalIndent(rep, "", " ")
	if err := os.WriteFile(filepath.Join(*out, "instr-report.json"), rp, 0o644); err != nil {
		fatal(err)
	}
	ys, _ := json.Marshal(rep.YieldSiteMap)
	os.WriteFile(filepath.Join(*out, "yield-sites.json"), ys, 0o644)
	if len(rep.TypeErrors) > 0 {
		fmt.Fprintf(os.Stderr, "zog-instr: %d type errors (first: %s)\n", len(rep.TypeErrors), rep.TypeErrors[0])
		os.Exit(3)
	}
}

func rel(base, p string) string {
	r, err := filepath.Rel(base, p)
	if err != nil {
		return p
	}
	return r
}

func fatal(err error) {
	fmt.Fprintln(os.Stderr, "zog-instr:", err)
	os.Exit(2)
}

type instr struct {
	fset     *token.FileSet
	info     *types.Info
	rep      *report
	file     string
	yieldID  *int
	needShim bool
	tmp      int
}

func (in *instr) pos(n ast.Node) string {
	p := in.fset.Position(n.Pos())
	return in.file + ":" + strconv.Itoa(p.Line)
}

func (in *instr) rewriteFile(f *ast.File) {
	// 1. sync.Pool -> shim
	syncName := ""
	for _, is := range f.Imports {
		if is.Path.Value == `"sync"` {
			syncName = "sync"
			if is.Name != nil {
				syncName = is.Name.Name
			}
		}
	}
	otherSyncUse := false
	if syncName != "" {
		ast.Inspect(f, func(n ast.Node) bool {
			se, ok := n.(*ast.SelectorExpr)
			if !ok {
				return true
			}
			id, ok := se.X.(*ast.Ident)
			if !ok || id.Name != syncName {
				return true
			}
			if obj, ok := in.info.Uses[id]; ok {
				if _, isPkg := obj.(*types.PkgName); !isPkg {
					return true
				}
			}
			if se.Sel.Name == "Pool" {
				id.Name = shimName
				in.needShim = true
				in.rep.PoolSites = append(in.rep.PoolSites, in.pos(se))
			} else {
				otherSyncUse = true
			}
			return true
		})
	}
	// order-sensitive stdlib calls we cannot hook
	ast.Inspect(f, func(n ast.Node) bool {
		se, ok := n.(*ast.SelectorExpr)
		if !ok {
			return true
		}
		if id, ok := se.X.(*ast.Ident); ok && id.Name == "maps" && (se.Sel.Name == "Keys" || se.Sel.Name == "Values" || se.Sel.Name == "All") {
			in.rep.OrderStdlib = append(in.rep.OrderStdlib, in.pos(se)+" maps."+se.Sel.Name)
		}
		if se.Sel.Name == "MapRange" || se.Sel.Name == "MapKeys" {
			in.rep.OrderStdlib = append(in.rep.OrderStdlib, in.pos(se)+" reflect."+se.Sel.Name)
		}
		return true
	})
	// 2+3. statement lists
	ast.Inspect(f, func(n ast.Node) bool {
		switch b := n.(type) {
		case *ast.BlockStmt:
			b.List = in.rewriteList(b.List)
		case *ast.CaseClause:
			b.Body = in.rewriteList(b.Body)
		case *ast.CommClause:
			b.Body = in.rewriteList(b.Body)
		}
		return true
	})
	if in.needShim {
		imp := &ast.GenDecl{Tok: token.IMPORT, Specs: []ast.Spec{&ast.ImportSpec{Name: ast.NewIdent(shimName), Path: &ast.BasicLit{Kind: token.STRING, Value: strconv.Quote(shimImport)}}}}
		f.Decls = append([]ast.Decl{imp}, f.Decls...)
	}
	if syncName != "" && !otherSyncUse && in.needShim {
		// drop the now unused sync import
		for _, d := range f.Decls {
			gd, ok := d.(*ast.GenDecl)
			if !ok || gd.Tok != token.IMPORT {
				continue
			}
			var keep []ast.Spec
			for _, s := range gd.Specs {
				if is := s.(*ast.ImportSpec); is.Path.Value == `"sync"` {
					continue
				}
				keep = append(keep, s)
			}
			gd.Specs = keep
		}
		var decls []ast.Decl
		for _, d := range f.Decls {
			if gd, ok := d.(*ast.GenDecl); ok && gd.Tok == token.IMPORT && len(gd.Specs) == 0 {
				continue
			}
			decls = append(decls, d)
		}
		f.Decls = decls
	}
}

func (in *instr) isMap(e ast.Expr) bool {
	tv, ok := in.info.Types[e]
	if !ok || tv.Type == nil {
		return false
	}
	_, isMap := tv.Type.Underlying().(*types.Map)
	return isMap
}

func (in *instr) rewriteList(list []ast.Stmt) []ast.Stmt {
	if len(list) == 0 {
		return list
	}
	switch list[0].(type) {
	case *ast.CaseClause, *ast.CommClause:
		return list // body of a switch/select: clauses are rewritten individually
	}
	out := make([]ast.Stmt, 0, 2*len(list))
	for _, s := range list {
		if isShimCall(s) {
			out = append(out, s)
			continue
		}
		// unsupported: labelled range over map
		if ls, ok := s.(*ast.LabeledStmt); ok {
			if rs, ok := ls.Stmt.(*ast.RangeStmt); ok && in.isMap(rs.X) {
				in.rep.Unhooked = append(in.rep.Unhooked, in.pos(rs)+" (labelled)")
			}
		}
		if rs, ok := s.(*ast.RangeStmt); ok && in.isMap(rs.X) {
			s = in.rewriteRange(rs)
		}
		id := *in.yieldID
		*in.yieldID++
		in.rep.YieldSiteMap = append(in.rep.YieldSiteMap, in.pos(s))
		in.needShim = true
		out = append(out, &ast.ExprStmt{X: &ast.CallExpr{
			Fun:  &ast.SelectorExpr{X: ast.NewIdent(shimName), Sel: ast.NewIdent("Yield")},
			Args: []ast.Expr{&ast.BasicLit{Kind: token.INT, Value: strconv.Itoa(id)}},
		}})
		if hasAtomicOp(s) {
			// a statement that performs an atomic operation is also a coarse scheduling point (like a pool operation):
			// hand-rolled caches in front of the pools are interleaved at the same granularity as the pools
			out = append(out, &ast.ExprStmt{X: &ast.CallExpr{
				Fun:  &ast.SelectorExpr{X: ast.NewIdent(shimName), Sel: ast.NewIdent("SyncPoint")},
				Args: []ast.Expr{&ast.BasicLit{Kind: token.INT, Value: strconv.Itoa(id)}},
			}})
		}
		out = append(out, s)
	}
	return out
}

// hasAtomicOp: the statement itself (not the bodies nested in it) calls something spelled like an atomic
// operation: atomic.XxxT(...) or x.Load() / x.Store(v) / x.Swap(v) / x.CompareAndSwap(a, b) / x.Add(n).
func hasAtomicOp(s ast.Stmt) bool {
	switch s.(type) {
	case *ast.ExprStmt, *ast.AssignStmt, *ast.ReturnStmt, *ast.IfStmt, *ast.DeclStmt, *ast.IncDecStmt:
	default:
		return false
	}
	found := false
	ast.Inspect(s, func(n ast.Node) bool {
		switch v := n.(type) {
		case *ast.BlockStmt, *ast.FuncLit:
			return false
		case *ast.CallExpr:
			if se, ok := v.Fun.(*ast.SelectorExpr); ok {
				if id, ok := se.X.(*ast.Ident); ok && id.Name == "atomic" {
					found = true
				}
				switch se.Sel.Name {
				case "Load", "Store", "Swap", "CompareAndSwap":
					found = true
				}
			}
		}
		return !found
	})
	return found
}

func isShimCall(s ast.Stmt) bool {
	es, ok := s.(*ast.ExprStmt)
	if !ok {
		return false
	}
	ce, ok := es.X.(*ast.CallExpr)
	if !ok {
		return false
	}
	se, ok := ce.Fun.(*ast.SelectorExpr)
	if !ok {
		return false
	}
	id, ok := se.X.(*ast.Ident)
	return ok && id.Name == shimName
}

func (in *instr) rewriteRange(rs *ast.RangeStmt) ast.Stmt {
	site := in.pos(rs)
	in.rep.MapRanges = append(in.rep.MapRanges, site)
	in.needShim = true
	in.tmp++
	n := strconv.Itoa(in.tmp)
	mName, kName, okName := "zvM"+n, "zvK"+n, "zvOK"+n
	blank := func(e ast.Expr) bool {
		if e == nil {
			return true
		}
		id, ok := e.(*ast.Ident)
		return ok && id.Name == "_"
	}
	var pre []ast.Stmt
	tok := rs.Tok
	if tok == token.ILLEGAL {
		tok = token.DEFINE
	}
	if !blank(rs.Key) {
		pre = append(pre, &ast.AssignStmt{Lhs: []ast.Expr{rs.Key}, Tok: tok, Rhs: []ast.Expr{ast.NewIdent(kName)}})
	}
	idx := &ast.IndexExpr{X: ast.NewIdent(mName), Index: ast.NewIdent(kName)}
	if !blank(rs.Value) {
		if tok == token.DEFINE {
			pre = append(pre, &ast.AssignStmt{Lhs: []ast.Expr{rs.Value, ast.NewIdent(okName)}, Tok: token.DEFINE, Rhs: []ast.Expr{idx}})
		} else {
			pre = append(pre, &ast.DeclStmt{Decl: &ast.GenDecl{Tok: token.VAR, Specs: []ast.Spec{&ast.ValueSpec{Names: []*ast.Ident{ast.NewIdent(okName)}, Type: ast.NewIdent("bool")}}}})
			pre = append(pre, &ast.AssignStmt{Lhs: []ast.Expr{rs.Value, ast.NewIdent(okName)}, Tok: token.ASSIGN, Rhs: []ast.Expr{idx}})
		}
	} else {
		pre = append(pre, &ast.AssignStmt{Lhs: []ast.Expr{ast.NewIdent("_"), ast.NewIdent(okName)}, Tok: token.DEFINE, Rhs: []ast.Expr{idx}})
	}
	// entries deleted during iteration are not visited (native range semantics)
	pre = append(pre, &ast.IfStmt{Cond: &ast.UnaryExpr{Op: token.NOT, X: ast.NewIdent(okName)}, Body: &ast.BlockStmt{List: []ast.Stmt{&ast.BranchStmt{Tok: token.CONTINUE}}}})
	body := &ast.BlockStmt{List: append(pre, rs.Body.List...)}
	inner := &ast.RangeStmt{
		Key: ast.NewIdent("_"), Value: ast.NewIdent(kName), Tok: token.DEFINE,
		X: &ast.CallExpr{
			Fun:  &ast.SelectorExpr{X: ast.NewIdent(shimName), Sel: ast.NewIdent("Keys")},
			Args: []ast.Expr{&ast.BasicLit{Kind: token.STRING, Value: strconv.Quote(site)}, ast.NewIdent(mName)},
		},
		Body: body,
	}
	return &ast.BlockStmt{List: []ast.Stmt{
		&ast.AssignStmt{Lhs: []ast.Expr{ast.NewIdent(mName)}, Tok: token.DEFINE, Rhs: []ast.Expr{rs.X}},
		inner,
	}}
}
