// zogmc: driver. Instruments zog from /repo's working tree (overlay), builds
// the worker against it, runs 16 worker processes over the items of one
// property, merges their statistics, classifies violations against
// known_findings.json, writes evidence and replay files.
package main

import (
	"bytes"
	"crypto/sha256"
	"encoding/hex"
	"encoding/json"
	"fmt"
	"io"
	"os"
	"os/exec"
	"path/filepath"
	"runtime"
	"sort"
	"strconv"
	"strings"
	"sync"
	"time"
)

var verifDir = "/verif"
var repoDir = "/repo"

// srcDir: where the library sources are read from. Normally /repo itself. ZOGMC_SRC points it at a
// scratch worktree with the same file set (used only to evaluate seeded changes in parallel; the
// registered commands never set it).
var srcDir = ""

// outDir: where evidence/ and replays/ are written (normally /verif).
var outDir = ""

func goEnv() []string {
	env := os.Environ()
	env = append(env, "GOFLAGS=-mod=mod", "GOPROXY=off", "GOSUMDB=off", "GOTOOLCHAIN=local", "CGO_ENABLED=0")
	return env
}

func goEnvCgo() []string {
	env := os.Environ()
	env = append(env, "GOFLAGS=-mod=mod", "GOPROXY=off", "GOSUMDB=off", "GOTOOLCHAIN=local")
	return env
}

func main() {
	if d := os.Getenv("ZOGMC_VERIF"); d != "" {
		verifDir = d
	}
	if d := os.Getenv("ZOGMC_REPO"); d != "" {
		repoDir = d
	}
	srcDir = repoDir
	if d := os.Getenv("ZOGMC_SRC"); d != "" {
		srcDir = d
	}
	outDir = verifDir
	if d := os.Getenv("ZOGMC_OUT"); d != "" {
		outDir = d
	}
	if len(os.Args) < 2 {
		usage()
	}
	switch os.Args[1] {
	case "setup":
		setup()
	case "check":
		if len(os.Args) < 3 {
			usage()
		}
		tier := "quick"
		if t := os.Getenv("VERIF_TIER"); t == "quick" || t == "thorough" {
			tier = t
		}
		for i := 3; i < len(os.Args); i++ {
			if os.Args[i] == "--tier" && i+1 < len(os.Args) {
				tier = os.Args[i+1]
			}
		}
		os.Exit(check(os.Args[2], tier))
	case "replay":
		if len(os.Args) < 3 {
			usage()
		}
		w := ensureWorker()
		cmd := exec.Command(w.bin, "-replay", os.Args[2])
		cmd.Stdout, cmd.Stderr = os.Stdout, os.Stderr
		cmd.Env = append(os.Environ(), "GOMAXPROCS=2", "ZOGMC_REPLAY=1")
		if err := cmd.Run(); err != nil {
			if ee, ok := err.(*exec.ExitError); ok {
				os.Exit(ee.ExitCode())
			}
			os.Exit(2)
		}
	case "build":
		w := ensureWorker()
		fmt.Println(w.bin)
	default:
		usage()
	}
}

func usage() {
	fmt.Fprintln(os.Stderr, "usage: zogmc setup | check <ID> [--tier quick|thorough] | replay <file> | build")
	os.Exit(2)
}

func harnessErr(format string, a ...any) {
	fmt.Fprintf(os.Stderr, "HARNESS-ERROR "+format+"\n", a...)
	os.Exit(2)
}

type worker struct {
	bin    string
	dir    string
	report map[string]any
	hash   string
}

func repoHash() string {
	h := sha256.New()
	var files []string
	filepath.Walk(srcDir, func(path string, info os.FileInfo, err error) error {
		if err != nil {
			return nil
		}
		if info.IsDir() {
			b := info.Name()
			if path != srcDir && (strings.HasPrefix(b, ".") || b == "docs" || b == "node_modules") {
				return filepath.SkipDir
			}
			return nil
		}
		if (strings.HasSuffix(path, ".go") && !strings.HasSuffix(path, "_test.go")) || info.Name() == "go.mod" || info.Name() == "go.sum" {
			files = append(files, path)
		}
		return nil
	})
	sort.Strings(files)
	for _, f := range files {
		b, _ := os.ReadFile(f)
		fmt.Fprintf(h, "%s %d\n", f, len(b))
		h.Write(b)
	}
	// instrumenter + shim are part of the key
	for _, f := range []string{"cmd/zog-instr/main.go", "zverif/zverif.go"} {
		b, _ := os.ReadFile(filepath.Join(verifDir, f))
		h.Write(b)
	}
	return hex.EncodeToString(h.Sum(nil))[:16]
}

func run(env []string, dir string, name string, args ...string) (string, error) {
	cmd := exec.Command(name, args...)
	cmd.Dir = dir
	cmd.Env = env
	var buf bytes.Buffer
	cmd.Stdout, cmd.Stderr = &buf, &buf
	err := cmd.Run()
	return buf.String(), err
}

func ensureTools() {
	os.MkdirAll(filepath.Join(verifDir, "bin"), 0o755)
	os.MkdirAll(filepath.Join(verifDir, ".work"), 0o755)
	// go.sum of the harness = zog's go.sum (no other dependency)
	if b, err := os.ReadFile(filepath.Join(repoDir, "go.sum")); err == nil {
		old, _ := os.ReadFile(filepath.Join(verifDir, "go.sum"))
		if !bytes.Equal(old, b) {
			os.WriteFile(filepath.Join(verifDir, "go.sum"), b, 0o644)
		}
	}
	if out, err := run(goEnv(), verifDir, "go", "build", "-o", "bin/zog-instr", "./cmd/zog-instr"); err != nil {
		harnessErr("building zog-instr: %v\n%s", err, out)
	}
}

// ensureWorker instruments the current /repo working tree and builds the worker.
func ensureWorker() *worker {
	ensureTools()
	h := repoHash()
	dir := filepath.Join(verifDir, ".work", "instr-"+h)
	if _, err := os.Stat(filepath.Join(dir, "overlay.json")); err != nil {
		tmp := fmt.Sprintf("%s.tmp%d", dir, os.Getpid())
		os.RemoveAll(tmp)
		out, err := run(goEnv(), verifDir, filepath.Join(verifDir, "bin/zog-instr"), "-repo", srcDir, "-keyroot", repoDir, "-out", tmp, "-shim", filepath.Join(verifDir, "zverif/zverif.go"))
		if err != nil {
			// the tree does not type-check: that is a build failure of the
			// code under test, not a property violation
			harnessErr("instrumenting %s failed: %v\n%s", repoDir, err, out)
		}
		// overlay paths point into tmp; rewrite to final dir
		ob, _ := os.ReadFile(filepath.Join(tmp, "overlay.json"))
		ob = bytes.ReplaceAll(ob, []byte(tmp), []byte(dir))
		os.WriteFile(filepath.Join(tmp, "overlay.json"), ob, 0o644)
		if err := os.Rename(tmp, dir); err != nil {
			os.RemoveAll(tmp) // someone else won the race
		}
		pruneWork(dir)
	}
	w := &worker{dir: dir, hash: h}
	rb, _ := os.ReadFile(filepath.Join(dir, "instr-report.json"))
	json.Unmarshal(rb, &w.report)
	bin := filepath.Join(dir, fmt.Sprintf("worker.%d", os.Getpid()))
	out, err := run(goEnv(), verifDir, "go", "build", "-overlay", filepath.Join(dir, "overlay.json"), "-o", bin, "./cmd/worker")
	if err != nil {
		harnessErr("building worker against instrumented %s failed: %v\n%s", repoDir, err, out)
	}
	w.bin = bin
	return w
}

// pruneWork keeps the scratch area bounded: only the newest 8 instrumented trees stay.
func pruneWork(keep string) {
	ents, _ := os.ReadDir(filepath.Join(verifDir, ".work"))
	type e struct {
		p string
		t time.Time
	}
	var es []e
	for _, en := range ents {
		if !strings.HasPrefix(en.Name(), "instr-") {
			continue
		}
		p := filepath.Join(verifDir, ".work", en.Name())
		if p == keep {
			continue
		}
		fi, err := en.Info()
		if err != nil {
			continue
		}
		es = append(es, e{p, fi.ModTime()})
	}
	sort.Slice(es, func(i, j int) bool { return es[i].t.After(es[j].t) })
	for i, x := range es {
		if i >= 7 {
			os.RemoveAll(x.p)
		}
	}
}

func setup() {
	start := time.Now()
	ensureTools()
	if out, err := run(goEnv(), verifDir, "go", "build", "-o", "bin/zogmc", "./cmd/zogmc"); err != nil {
		harnessErr("building zogmc: %v\n%s", err, out)
	}
	w := ensureWorker()
	defer os.Remove(w.bin)
	// instrumentation conformance: the repository's own suite under the overlay
	out, err := run(goEnv(), repoDir, "go", "test", "-overlay", filepath.Join(w.dir, "overlay.json"), "-vet=off", "-count=1", "./...")
	if err != nil {
		fmt.Println(out)
		harnessErr("repository suite fails under the instrumentation overlay: %v", err)
	}
	fmt.Printf("setup: instrumented %v files, %v yield sites; repo suite passes under overlay; %.1fs\n", w.report["files"], w.report["yield_sites"], time.Since(start).Seconds())
	// warm the -race build used by C08's free-running monitor
	if _, err := os.Stat(filepath.Join(verifDir, "racepass")); err == nil {
		out, err := run(goEnvCgo(), verifDir, "go", "build", "-race", "-o", filepath.Join(verifDir, ".work", "racepass.warm"), "./racepass")
		if err != nil {
			fmt.Printf("setup: warning: -race build failed: %v\n%s\n", err, out)
		}
		os.Remove(filepath.Join(verifDir, ".work", "racepass.warm"))
	}
}

type FoundViolation struct {
	V struct {
		Key      string `json:"key"`
		What     string `json:"what"`
		Expected string `json:"expected"`
		Observed string `json:"observed"`
	} `json:"violation"`
	Item    string   `json:"item"`
	Choices []int    `json:"choices"`
	Labels  []string `json:"labels"`
	Notes   []string `json:"notes"`
	Count   int64    `json:"count"`
}

type Part struct {
	Prop        string            `json:"prop"`
	Items       int               `json:"items"`
	ItemsDone   int               `json:"items_done"`
	Executions  int64             `json:"executions"`
	States      int64             `json:"states"`
	Transitions int64             `json:"transitions"`
	Traces      int64             `json:"traces"`
	Nontrivial  int64             `json:"nontrivial"`
	Sigs        []string          `json:"sigs"`
	MaxDepth    int               `json:"max_depth"`
	MaxDevsUsed int               `json:"max_devs_used"`
	Capped      bool              `json:"capped"`
	CapReason   string            `json:"cap_reason"`
	Violations  []*FoundViolation `json:"violations"`
	Samples     []any             `json:"samples"`
	Rechecks    int64             `json:"rechecks"`
	WallS       float64           `json:"wall_s"`
	PerItem     map[string]int64  `json:"per_item"`
	Rule        string            `json:"rule"`
	Bound       string            `json:"bound"`
	Assumptions []string          `json:"assumptions"`
	Floor       int               `json:"floor"`
	Serial      bool              `json:"serial"`
	Extra       map[string]any    `json:"extra"`
}

type Finding struct {
	Property string `json:"property"`
	Key      string `json:"key"`
	Status   string `json:"status"` // "known" | "fixed"
	Commit   string `json:"commit,omitempty"`
	What     string `json:"what"`
}

func loadFindings() []Finding {
	var f struct {
		Findings []Finding `json:"findings"`
	}
	b, err := os.ReadFile(filepath.Join(verifDir, "known_findings.json"))
	if err != nil {
		return nil
	}
	if err := json.Unmarshal(b, &f); err != nil {
		harnessErr("known_findings.json: %v", err)
	}
	return f.Findings
}

func check(id, tier string) int {
	start := time.Now()
	seed := 0
	if s := os.Getenv("VERIF_SEED"); s != "" {
		seed, _ = strconv.Atoi(s)
	}
	w := ensureWorker()
	defer os.Remove(w.bin)
	n := runtime.NumCPU()
	if n > 16 {
		n = 16
	}
	if s := os.Getenv("ZOGMC_WORKERS"); s != "" {
		if v, err := strconv.Atoi(s); err == nil && v > 0 {
			n = v
		}
	}
	deadline := 240
	if tier == "thorough" {
		deadline = 2700
	}
	if s := os.Getenv("ZOGMC_DEADLINE"); s != "" {
		if v, err := strconv.Atoi(s); err == nil && v > 0 {
			deadline = v
		}
	}
	tmp, err := os.MkdirTemp(filepath.Join(verifDir, ".work"), "run-"+id+"-")
	if err != nil {
		harnessErr("mkdtemp: %v", err)
	}
	defer os.RemoveAll(tmp)
	parts := make([]*Part, n)
	var wg sync.WaitGroup
	var mu sync.Mutex
	failed := ""
	for i := 0; i < n; i++ {
		wg.Add(1)
		go func(i int) {
			defer wg.Done()
			out := filepath.Join(tmp, fmt.Sprintf("part%d.json", i))
			cmd := exec.Command(w.bin, "-prop", id, "-tier", tier, "-shard", strconv.Itoa(i), "-nshards", strconv.Itoa(n), "-out", out, "-deadline", strconv.Itoa(deadline))
			cmd.Env = append(os.Environ(), "GOMAXPROCS=1", "ZOGMC_VERIF="+verifDir, "ZOGMC_REPO="+repoDir, "ZOGMC_TMP="+tmp)
			var buf bytes.Buffer
			cmd.Stdout, cmd.Stderr = &buf, &buf
			err := cmd.Run()
			if err != nil {
				mu.Lock()
				if failed == "" {
					s := buf.String()
					if len(s) > 6000 {
						s = s[:3000] + "\n...\n" + s[len(s)-3000:]
					}
					failed = fmt.Sprintf("worker %d: %v\n%s", i, err, s)
				}
				mu.Unlock()
				return
			}
			b, err := os.ReadFile(out)
			if err != nil {
				mu.Lock()
				failed = fmt.Sprintf("worker %d wrote no output: %v\n%s", i, err, buf.String())
				mu.Unlock()
				return
			}
			var p Part
			if err := json.Unmarshal(b, &p); err != nil {
				mu.Lock()
				failed = fmt.Sprintf("worker %d output: %v", i, err)
				mu.Unlock()
				return
			}
			parts[i] = &p
		}(i)
	}
	wg.Wait()
	if failed != "" {
		harnessErr("%s", failed)
	}
	// merge
	m := &Part{PerItem: map[string]int64{}}
	sigs := map[string]struct{}{}
	viols := map[string]*FoundViolation{}
	for _, p := range parts {
		m.Items = p.Items
		m.ItemsDone += p.ItemsDone
		m.Executions += p.Executions
		m.States += p.States
		m.Transitions += p.Transitions
		m.Traces += p.Traces
		m.Nontrivial += p.Nontrivial
		m.Rechecks += p.Rechecks
		if p.MaxDepth > m.MaxDepth {
			m.MaxDepth = p.MaxDepth
		}
		if p.MaxDevsUsed > m.MaxDevsUsed {
			m.MaxDevsUsed = p.MaxDevsUsed
		}
		if p.Capped {
			m.Capped, m.CapReason = true, p.CapReason
		}
		for _, s := range p.Sigs {
			sigs[s] = struct{}{}
		}
		for _, v := range p.Violations {
			if old, ok := viols[v.V.Key]; ok {
				old.Count += v.Count
			} else {
				viols[v.V.Key] = v
			}
		}
		if len(m.Samples) < 6 {
			for _, s := range p.Samples {
				if len(m.Samples) < 6 {
					m.Samples = append(m.Samples, s)
				}
			}
		}
		for k, v := range p.PerItem {
			m.PerItem[k] += v
		}
		if p.Rule != "" {
			m.Rule, m.Bound, m.Assumptions, m.Floor = p.Rule, p.Bound, p.Assumptions, p.Floor
		}
		if p.Extra != nil {
			if m.Extra == nil {
				m.Extra = map[string]any{}
			}
			for k, v := range p.Extra {
				m.Extra[k] = v
			}
		}
	}
	distinct := len(sigs)
	var raceInfo map[string]any
	if id == "C08" {
		raceInfo = racePass(tier, viols)
	}
	// classify violations
	findings := loadFindings()
	var keys []string
	for k := range viols {
		keys = append(keys, k)
	}
	sort.Strings(keys)
	exit := 0
	var knownSeen []string
	newViol := 0
	os.MkdirAll(filepath.Join(outDir, "replays"), 0o755)
	for _, k := range keys {
		v := viols[k]
		known := false
		for _, f := range findings {
			if f.Property == id && f.Status == "known" && f.Key == k {
				known = true
				fmt.Printf("KNOWN-FINDING: property=%s %s [key=%s, %d executions]\n", id, f.What, k, v.Count)
				knownSeen = append(knownSeen, k)
			}
		}
		if known {
			continue
		}
		newViol++
		hs := sha256.Sum256([]byte(k))
		rp := filepath.Join(outDir, "replays", fmt.Sprintf("%s-%s.json", id, hex.EncodeToString(hs[:5])))
		rf := map[string]any{"property": id, "tier": tier, "item": v.Item, "choices": v.Choices, "key": k, "what": v.V.What, "expected": v.V.Expected, "observed": v.V.Observed, "labels": v.Labels, "notes": v.Notes, "count": v.Count,
			"how_to_replay": "cd /verif && bin/zogmc replay " + rp}
		rb, _ := json.MarshalIndent(rf, "", " ")
		os.WriteFile(rp, rb, 0o644)
		if newViol <= 12 {
			fmt.Printf("VIOLATION property=%s replay=%s\n", id, rp)
			fmt.Printf("  key: %s\n  what: %s\n  expected: %s\n  observed: %s\n  executions: %d\n", k, v.V.What, trunc(v.V.Expected), trunc(v.V.Observed), v.Count)
			for _, nn := range v.Notes {
				fmt.Printf("  note: %s\n", trunc(nn))
			}
		}
		exit = 1
	}
	if newViol > 12 {
		fmt.Printf("(%d more distinct violations; replay files written)\n", newViol-12)
	}
	exhaustive := !m.Capped && m.ItemsDone == m.Items
	if os.Getenv("ZOGMC_ITEMS") != "" {
		exhaustive = false // only the items matching a development filter were run
	}
	if b, ok := m.Extra["search_budget_hit"].(bool); ok && b {
		exhaustive = false // the property's own state search stopped at its time/size budget
	}
	cov := map[string]any{
		"states":                        m.States,
		"transitions":                   m.Transitions,
		"traces_validated_against_impl": m.Traces,
		"evaluations":                   m.Executions,
		"distinct_nontrivial":           distinct,
		"nontrivial_executions":         m.Nontrivial,
		"rule":                          m.Rule,
		"bound_completed":               m.Bound,
		"exhaustive":                    exhaustive,
		"samples":                       m.Samples,
		"items":                         m.Items,
		"items_completed":               m.ItemsDone,
		"max_choice_depth":              m.MaxDepth,
		"max_deviations_used":           m.MaxDevsUsed,
		"determinism_rechecks":          m.Rechecks,
		"workers":                       n,
		"per_item_executions":           m.PerItem,
		"known_findings_seen":           knownSeen,
		"new_violation_keys":            newViol,
		"instrumentation":               w.report,
		"repo_tree_hash":                w.hash,
	}
	if m.Capped {
		cov["cap_hit"] = m.CapReason
	}
	for k, v := range m.Extra {
		cov[k] = v
	}
	if raceInfo != nil {
		cov["race_monitor"] = raceInfo
	}
	if len(m.Samples) == 0 {
		cov["samples"] = []any{"(no sample recorded)"}
	}
	ev := map[string]any{
		"property_id": id,
		"tier":        tier,
		"seed":        seed,
		"level":       "model_checking",
		"coverage":    cov,
		"assumptions": m.Assumptions,
		"wall_s":      time.Since(start).Seconds(),
		"violations":  newViol,
	}
	eb, _ := json.MarshalIndent(ev, "", " ")
	os.MkdirAll(filepath.Join(outDir, "evidence"), 0o755)
	if err := os.WriteFile(filepath.Join(outDir, "evidence", id+".json"), eb, 0o644); err != nil {
		harnessErr("writing evidence: %v", err)
	}
	fmt.Printf("%s %s: executions=%d states=%d transitions=%d traces=%d distinct_nontrivial=%d items=%d/%d exhaustive=%v known=%d new=%d wall=%.1fs\n",
		id, tier, m.Executions, m.States, m.Transitions, m.Traces, distinct, m.ItemsDone, m.Items, exhaustive, len(knownSeen), newViol, time.Since(start).Seconds())
	if exit == 0 && distinct < m.Floor {
		harnessErr("vacuous: distinct_nontrivial=%d below floor %d for %s", distinct, m.Floor, id)
	}
	return exit
}

func trunc(s string) string {
	if len(s) > 1500 {
		return s[:1500] + "…"
	}
	return s
}

var _ = io.Discard

// racePass is C08's auxiliary monitor: the same driver bodies, free-running on
// real goroutines, built with -race against the UN-instrumented sources.
// A race report is a definitive violation; silence is sampling evidence only.
func racePass(tier string, viols map[string]*FoundViolation) map[string]any {
	info := map[string]any{"kind": "free-running race detector pass (auxiliary, not exhaustive)"}
	bin := filepath.Join(verifDir, ".work", fmt.Sprintf("racepass.%d", os.Getpid()))
	defer os.Remove(bin)
	env := append(goEnvCgo(), "CGO_ENABLED=1")
	out, err := run(env, verifDir, "go", "build", "-race", "-o", bin, "./racepass")
	if err != nil {
		info["built"] = false
		info["note"] = "race build unavailable: " + firstLines(out, 3)
		return info
	}
	info["built"] = true
	iters := "300"
	if tier == "thorough" {
		iters = "3000"
	}
	// one process per driver: whatever the library initialises once per process (lazily built tables, compiled
	// grammars) is then cold for every driver's first concurrent round, not only for the first driver's
	nd := 0
	if o, err := exec.Command(bin, "-list").Output(); err == nil {
		fmt.Sscan(string(o), &nd)
	}
	var buf bytes.Buffer
	for di := 0; di < nd; di++ {
		cmd := exec.Command(bin, "-iters", iters, "-threads", "8", "-driver", fmt.Sprint(di))
		cmd.Env = append(os.Environ(), "GORACE=halt_on_error=0")
		cmd.Stdout, cmd.Stderr = &buf, &buf
		cmd.Run()
	}
	text := buf.String()
	info["processes"] = nd
	n := strings.Count(text, "WARNING: DATA RACE")
	info["iterations_per_thread"] = iters
	info["goroutines_per_driver"] = 8
	info["races_reported"] = n
	if n > 0 {
		// key: the first two zog frames of the first report
		var frames []string
		for _, line := range strings.Split(text, "\n") {
			l := strings.TrimSpace(line)
			if strings.HasPrefix(l, "github.com/Oudwins/zog") && len(frames) < 2 {
				if i := strings.Index(l, "("); i > 0 {
					// keep the function name incl. receiver
				}
				frames = append(frames, strings.TrimSuffix(strings.TrimPrefix(l, "github.com/Oudwins/zog"), "()"))
			}
		}
		os.MkdirAll(filepath.Join(outDir, "replays"), 0o755)
		rp := filepath.Join(outDir, "replays", "C08-race-report.txt")
		os.WriteFile(rp, []byte(text), 0o644)
		fv := &FoundViolation{Item: "racepass", Count: int64(n)}
		fv.V.Key = "C08:race:" + strings.Join(frames, "|")
		fv.V.What = "the Go race detector reports a data race between goroutines using one schema (free-running pass over the C08 driver bodies)"
		fv.V.Expected = "no data race"
		fv.V.Observed = firstLines(text, 40)
		fv.Notes = []string{"full report: " + rp, "reproduce: cd /verif && go build -race -o /tmp/racepass ./racepass && /tmp/racepass"}
		viols[fv.V.Key] = fv
	}
	return info
}

func firstLines(s string, n int) string {
	l := strings.Split(s, "\n")
	if len(l) > n {
		l = l[:n]
	}
	return strings.Join(l, "\n")
}
