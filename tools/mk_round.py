#!/usr/bin/env python3
"""mk_round.py N — prepares seeding round N: one scratch git worktree of /repo per property under /tmp/seedN/Cxx,
and /tmp/seedN/out/Cxx/{property.txt,prompt.txt}. A prompt holds the property text's location, the rules for the
change, and one-line summaries of every change submitted in earlier rounds (from /verif/seeded/*/meta.json) so that
the agent picks a different mechanism. Nothing else from /verif reaches an agent."""
import glob, json, os, subprocess, sys
n = int(sys.argv[1]); rnd = f"seed{n}"
words = {9: "eight", 10: "nine", 11: "ten", 12: "eleven", 13: "twelve", 14: "thirteen", 15: "fourteen"}
earlier = []
for mf in sorted(glob.glob("/verif/seeded/*/meta.json")):
    m = json.load(open(mf))
    earlier.append("- " + " ".join((m.get("summary") or "").split())[:200])
props = [json.loads(l) for l in open("/verif/properties.jsonl")]
tmpl = open("/verif/tools/seed_prompt.txt").read()
for p in props:
    pid = p["id"]
    w, o = f"/tmp/{rnd}/{pid}", f"/tmp/{rnd}/out/{pid}"
    os.makedirs(o, exist_ok=True)
    if not os.path.exists(w):
        subprocess.check_call(["git", "-C", "/repo", "worktree", "add", "--detach", "-q", w, "HEAD"])
    a = p.get("anchors", {})
    mech = "; ".join(f"{m['name']} @ {m['where']}" for m in a.get("mechanism", []))
    open(f"{o}/property.txt", "w").write(
        f"PROPERTY {pid}: {p['title']}\n\nStatement: {p['statement']}\n\nQuantified over: {p['quantifier']['text']}\n\n"
        f"Why ordinary tests cannot settle it: {p['why_tests_cant']}\n\nCode anchors: files {', '.join(a.get('files', []))}; mechanisms: {mech}\n")
    txt = tmpl.replace("{RND}", rnd).replace("{PID}", pid).replace("{COUNT}", str(len(earlier))).replace("{ROUNDS}", words.get(n, str(n - 1))).replace("{EARLIER}", "\n".join(earlier))
    open(f"{o}/prompt.txt", "w").write(txt)
print(rnd, len(props), "prompts;", len(earlier), "earlier changes listed")
