#!/bin/bash
# snapshot of the machinery (sources + built driver) so that seeded changes can be evaluated while /verif is being edited
rm -rf /tmp/vsnap; mkdir -p /tmp/vsnap
rsync -a --exclude .git --exclude .work --exclude evidence --exclude replays --exclude seeded --exclude findings /verif/ /tmp/vsnap/
mkdir -p /tmp/vsnap/evidence /tmp/vsnap/replays
echo snapshot at /tmp/vsnap
