#!/usr/bin/env python3
"""usage: add_finding.py fixed|known PROP KEY_OR_COMMIT 'what'   (fixed: third arg is the commit; known: the violation key)"""
import json, sys, os
p = os.path.join(os.path.dirname(os.path.dirname(os.path.abspath(__file__))), "known_findings.json")
d = json.load(open(p))
st, prop, k, what = sys.argv[1:5]
defect = sys.argv[5] if len(sys.argv) > 5 else ""
if st == "fixed":
    e = {"property": prop, "status": "fixed", "commit": k, "defect": defect, "what": what, "record": f"fixed: property={prop} {k} {what}"}
else:
    e = {"property": prop, "status": "known", "key": k, "defect": defect, "what": what}
d["findings"].append(e)
json.dump(d, open(p, "w"), indent=1, ensure_ascii=False)
open(p, "a").write("\n")
