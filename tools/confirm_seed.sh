#!/bin/bash
# usage: confirm_seed.sh CNN  — confirms an agent-produced change in its scratch worktree:
# suite passes with the change, demo fails with it, demo passes without it. (No git stash: stash refs
# are shared between worktrees.)
export GOFLAGS=-mod=mod GOPROXY=off GOSUMDB=off GOTOOLCHAIN=local
ID=$1; W=/tmp/${ROUND:-seed}/$ID; O=/tmp/${ROUND:-seed}/out/$ID
cd $W || exit 2
DD=$(python3 -c "import json;print(json.load(open('$O/meta.json')).get('demo_dir','.') or '.')")
PAT=$(grep -oE '^func (Test[A-Za-z0-9_]+)' $O/demo_test.go | awk '{print $2}' | paste -sd'|')
RACE=""; grep -qi '"demo_run".*-race' $O/meta.json && RACE="-race"
git checkout -q -- . ; git apply $O/patch.diff || { echo "$ID: patch does not apply"; exit 2; }
echo "== $ID: $(git diff --stat | tail -1)  demo: $DD  tests: $PAT $RACE"
if go build ./... && go test -vet=off -count=1 ./... > $O/suite.log 2>&1; then S=PASS; else S=FAIL; fi
cp $O/demo_test.go $W/$DD/zz_seed_demo_test.go
go test -vet=off -count=1 $RACE -run "^($PAT)\$" ./$DD > $O/demo_with.log 2>&1; A=$?
git apply -R $O/patch.diff
go test -vet=off -count=1 $RACE -run "^($PAT)\$" ./$DD > $O/demo_without.log 2>&1; B=$?
git apply $O/patch.diff
rm -f $W/$DD/zz_seed_demo_test.go
echo "   suite_with_change=$S  demo_with_change_exit=$A (want 1)  demo_without_change_exit=$B (want 0)"
echo "{\"suite_with_change\":\"$S\",\"demo_with_change_exit\":$A,\"demo_without_change_exit\":$B}" > $O/confirm.json
