#!/bin/bash
# usage: eval_seed.sh SEEDID CHECK...   — runs the given checks (quick tier) against the scratch worktree of a seeded change
# without touching /repo (ZOGMC_SRC), results in /tmp/seedrun/SEEDID/
export GOFLAGS=-mod=mod GOPROXY=off GOSUMDB=off GOTOOLCHAIN=local
ID=$1; shift
mkdir -p /tmp/${RUN:-seedrun}/$ID
for C in "$@"; do
  cd ${VERIF:-/verif}
  ZOGMC_VERIF=${VERIF:-/verif} ZOGMC_SRC=/tmp/${ROUND:-seed}/$ID ZOGMC_OUT=/tmp/${RUN:-seedrun}/$ID bin/zogmc check $C --tier ${TIER:-quick} > /tmp/${RUN:-seedrun}/$ID/$C.log 2>&1
  E=$?
  N=$(grep -c '^VIOLATION' /tmp/${RUN:-seedrun}/$ID/$C.log)
  echo "seed=$ID check=$C exit=$E violations=$N $(grep -E "^$C " /tmp/${RUN:-seedrun}/$ID/$C.log | cut -c1-120)" | tee -a /tmp/${RUN:-seedrun}/summary.txt
done
