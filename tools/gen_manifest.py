#!/usr/bin/env python3
"""Generates /verif/MANIFEST.json from the table below (kept in one place so the manifest stays valid)."""
import json, os
HERE = os.path.dirname(os.path.dirname(os.path.abspath(__file__)))
ALL = ["C%02d" % i for i in range(1, 21)]
# id -> (technique, level text, level note, design ref)
CLAIMED = {
 "C20": ("exhaustive enumeration of (built-in test, parameter, subject, mode, Not-form) cases on the real code vs. independent reference predicates",
         "Every built-in test of every schema type is executed on the real implementation for every subject over boundary alphabets (strings <=3/<=4 symbols over 21 boundary symbols, grammar strings <=5/<=7, UUID single/double edits, numeric boundary sets of all five types incl. NaN/Inf/-0, instants +-1ns in two zones, slices of length 0..3) in Parse and Validate and for every Not() form; issue present <=> not predicate. Bounded-exhaustive, not sampled: a comparison or character-class boundary that is off by one is inside the enumerated space.",
         "Reference predicates written from the property statement; URL reference uses net/url. Values outside the alphabets are not examined.",
         "DESIGN.md section 4 C20"),
 "C18": ("exhaustive enumeration of (numeric schema, source representation, boundary magnitude) on the real code vs. exact math/big arithmetic",
         "All five numeric schemas are driven with every boundary magnitude (type bounds +-1, 2^24/2^53 +-1, MaxFloat32 and the float32 rounding boundary, 1e19, 1e39, 1e300, fractions, NaN/Inf, odd strings) in every representation that can express it (int, int32, int64, float32, float64, decimal string, exponent string, JSON number through zjson, form string through zhttp), with and without an upper-bound test. A silent result must equal the exact input (truncated toward zero for integers, correctly rounded for floats) as computed with math/big. The full product is enumerated, so any wrap/saturation at a type boundary is inside the explored space.",
         "A coerce issue is always accepted (one-directional property); JSON numbers are compared after IEEE-double decoding; in-range float rounding is accepted.",
         "DESIGN.md section 4 C18"),

 "C01": ("stateless exhaustive exploration of the real code over (skeleton, <=k focus units x full alphabets, every field visit order, both modes); spec-free re-evaluation of every declared constraint on the destination",
         "Every schema tree from the skeleton catalogue (struct/slice/pointer nestings to depth 3, all primitive kinds) is executed on the real implementation for every joint configuration x input of any two units (Required/Default/Catch/tests x valid/missing/nil/blank/alt representation/failing/uncoercible/falsy), under every permutation of field visits at every struct visit (map-order hook), in Parse and Validate. When the call returns no issues the destination is walked and each declared test is re-evaluated by predicates that do not call zog; required/not-nil nodes must have been present. All pairwise interactions between any two positions are covered exhaustively - exactly where sibling/element state leaks hide.",
         "Shapes beyond the skeletons, >k simultaneously deviating units and values outside the alphabets are not covered. Map iteration order is owned through the overlay hook; pool answers are LIFO here (C07 varies them).",
         "DESIGN.md section 4 C01"),
 "C02": ("stateless exhaustive exploration of the real code over the core space; every execution compared with an executable reference model (issue multiset, nil iff none)",
         "Same enumeration as C01. For every execution the multiset of (key, path, code, type) of all issues except $first must equal the reference model's (written from the documentation, no shared state), and the result must be nil iff the model has no violation. Exact in both directions: missing, duplicated, misplaced or spurious issues are all differences.",
         "Reference model scen/core_spec.go is trusted; PostTransforms excluded (C12). Order of issues within one key compared as multiset.",
         "DESIGN.md section 4 C02"),
 "C05": ("stateless exhaustive exploration; differential twin (same case with every Catch removed) on the real code plus node-local model for the catcher's own value",
         "Every core case containing a catching primitive (at struct fields, slice elements, behind pointers, in struct-in-slice; catcher input ok / missing+required / uncoercible / failing one / failing both tests) is executed twice on the real code - as is, and with each Catch removed - under the same visit orders. The catcher must contribute no issue, all other nodes' issues and destination values must be identical in the two runs, and the catcher's own value must be the catch value iff its own failure happened.",
         "Twin comparison needs no model; own-value uses the model's node-local rule. Same bounds as C01.",
         "DESIGN.md section 4 C05"),
 "C09": ("stateless exhaustive exploration of all field-visit permutations at every range-over-map site (hooked by overlay); differential against the canonical order on the real code",
         "For every core case with a >=2-field struct the real code is run under the canonical order and under every permutation at every struct visit (jointly across nesting levels and slice elements); issues for every key except $first and, on success, the destination must be identical; $first must be one of the issues. The instrumenter re-derives the list of range-over-map sites by type on every run and reports unhooked order-sensitive calls.",
         "Insertion order can only act through map iteration, which is hooked (sites listed in evidence). Runtime map internals are irrelevant once hooked.",
         "DESIGN.md section 4 C09"),

 "C07": ("explicit-state BFS over pool states (histories replayed on the real code with every pool answer chosen by the explorer), closure of reachable free-object classes to a fixpoint, probes compared differentially with cleared pools",
         "sync.Pool is replaced (overlay) by a pool whose Get answers the explorer enumerates. Phase A: BFS over canonical pool states reached by histories of 12 calls x 3 collect modes (depth 2, bounded non-LIFO answers). Phase A': closure - from the pool holding one copy of every distinct free-object class, every event is run with recycled objects injected, new classes are added, repeated to a fixpoint (reached). Phase B: each of 10 probes in every BFS state under LIFO plus bounded deviations. Phase C: each probe on the pre-filled union pool with every Get answered by fresh or any reachable dirty object (<=2 dirty objects per call). The probe's complete canonical observation (every issue field, aliasing between issues, $first, destination, ctx.Get values) must equal the probe on cleared pools.",
         "Pool shim answers are exactly sync.Pool's contract; union-of-reachable-objects argument in DESIGN 3.5/4 C07; free-object class = object fields rendered to depth 4; cross-pool aliasing of prototypes is not preserved.",
         "DESIGN.md section 4 C07"),

 "C06": ("exhaustive enumeration of (well-formed schema+destination target, input position, dynamic-type zoo value | front end raw text) on the real code under recover(), with every field visit order",
         "33 well-formed targets (primitives, structs, slices, pointers, nestings, Custom, Preprocess, field names of 1/31/32/33/64 bytes) receive each of ~115 zoo values (typed/untyped nils, maps and named maps of every element type, structs with unexported/embedded fields, pointer chains, arrays, NaN/Inf/extremes, json.Number, invalid UTF-8, channels, funcs...) at every input position (top level, field, element, nested field), plus every pair of zoo values at two positions (thorough), plus ~100 JSON texts (every truncation of a document, 10001-deep nesting, {} / [] / null / scalars / duplicate keys / BOM), ~22 forms and queries, environment variants and method x Content-Type combinations through zjson, zhttp and zenv against 4 schemas. Any panic is a violation, classified by innermost zog frame and message class.",
         "All targets are well-formed so a panic is attributable to data. Cyclic inputs are outside the statement.",
         "DESIGN.md section 4 C06"),

 "C16": ("stateless exhaustive search over builder histories on the real code (<=3 live schemas, every Pick/Omit/Extend/Merge/Test/TestFunc/PostTransform event), every live schema compared with a reference model after every event",
         "From a base struct schema with 0..3 tests and 0..2 PostTransforms appended one by one (so every spare-capacity situation of the underlying slices occurs), every history of <=3 (quick) / <=5 (thorough) events over up to three live schemas is executed; after each event every live schema - operands included - is probed on the real code (all fields valid; one field failing) and must run exactly the tests and PostTransforms, in the order, with the issues and destination values, of the hand-built equivalent the model keeps as immutable lists and maps.",
         "Model semantics: later operands win, Merge concatenates in operand order, tests/posts are kept. Picks of absent keys are outside the alphabet.",
         "DESIGN.md section 4 C16"),
 "C19": ("stateless exhaustive search over call sequences on one schema object on the real code; deep snapshots (incl. hidden capacity) of schema-owned values and inputs, backing-array aliasing check, repeat-equals-first differential",
         "For six schema families (slice / nested-slice / behind-pointer defaults, scalar defaults, catch values, OneOf lists, Contains params, struct/pointer/typed-map inputs, Custom with reference-typed T) every sequence of <=3 (quick) / <=4 (thorough) Parse/Validate calls with absent and present inputs is run with PostTransforms that overwrite and append to their destination. After every call all values handed to builders and all inputs must be deeply unchanged, the destination must not share a backing array with them, and a repeated call must observe what its first occurrence observed.",
         "Callbacks mutate only through the pointer they receive. Known finding D19 (Custom[T] aliases reference-typed input) is listed in known_findings.json.",
         "DESIGN.md section 4 C19"),

 "C12": ("stateless exhaustive exploration of the real code with recording callbacks at every node; invocation log, pointer identity and issues compared with the reference model",
         "Every node of every skeleton (depth <=3) carries recording tests and PostTransforms; any two units range jointly over configuration x PostTransform configuration {one, none, two, first errors, second errors, first returns *ZogIssue} x input, under every field visit order, in Parse and Validate, with two WithCtxValue keys. The real invocation log (which callback, argument value, pointer vs value, ctx.Get values, order, count) must equal the model's; every pointer argument must be the address of a node of the destination; issues wrapping PostTransform errors must be at the node's path. Custom[int] and Preprocess[string,int] are exercised at top level, as field, as element and behind a pointer with ok / failing / wrongly-typed inputs and ok / erroring functions.",
         "Model rule for PostTransforms: node exit, declaration order, only while the execution has no issue. Preprocess.Validate is not asserted (different contract).",
         "DESIGN.md section 4 C12"),

 "C11": ("complete enumeration of the finite issue catalogue x every formatter configuration on the real code; each issue's fields and message source/language checked",
         "Every built-in test of every schema type (incl. all Not() forms), required / not_nil / coerce for every type, the front-end decode issues (invalid_json via zjson and zhttp, invalid_form) and Custom schema issues are produced on the real code at top level, as struct field and as slice element, in Parse and Validate, under the full product of test-level {none, Message, MessageFunc} x execution-level {none, WithIssueFormatter} x global {default formatter, i18n with default language en|es x context language unset|en|es|unknown x default|custom lang key}. Each issue must carry the documented code, the node's type, the test's parameter, a reference to the offending value, a non-empty message without {{placeholder}}, taken from the most specific level and in the context language if shipped, else the default language.",
         "Expected text is rendered from the shipped maps by the harness. Bool True/False are only required to be complete, not to use a particular code. The catalogue is finite and enumerated completely; nothing beyond it is sampled.",
         "DESIGN.md section 4 C11"),

 "C03": ("full-product enumeration of (leaf kind, input representation, coercer option, placement) on the real code vs. the documented coercion table; frame condition on untouched destinations",
         "All eight leaf kinds x 49 input representations (every Go numeric width, decimal/exponent/ParseBool/on-off strings, RFC3339 and layout strings, unix seconds, JSON-typed floats, []byte, lists, maps) x coercer option {default, WithCoercer, global conf.Coercers override, WithCoercer applied through Ptr, Time.Format with three layouts, Time.FormatFunc} x placement {top, struct field, slice element, behind pointer, struct in slice, pre-allocated pointer field} are parsed on the real code. On success the destination leaf must equal the documented coercion (and the input must have one); documented coercions must not be rejected; absent optional inputs, pointer fields with absent input and fields the schema does not name must be untouched; slices of length 0..3 in five representations keep length and order (scalar boxing, custom slice coercer).",
         "Documented table = docs parsing table + DESIGN Appendix A. Values outside the alphabet are not examined.",
         "DESIGN.md section 4 C03"),

 "C04": ("stateless exhaustive exploration of the decision table (kind x Required x Default x NotNil x absent-looking / present-but-falsy input x context) on the real code; issues, test-run counts (recording tests) and destination-written checks against the table",
         "Through the core space with the full input alphabets: every primitive kind, slice, pointer and struct context (top level, struct field, slice element, behind pointer, struct in slice, pointer to struct, nested struct), any two units jointly, Required x Default{none, passing, failing} x NotNil x {valid, missing key, nil, empty, spaces, tab/newline, NBSP, alternative representation, 0/false/zero time/\"0\", failing, uncoercible} in Parse and {valid, zero, failing, nil/empty/one-element slice, nil pointer} in Validate. Checked: exactly the required/not_nil issues the table prescribes at the right paths; recording tests ran exactly where a value is present or defaulted and not on skipped nodes; skipped nodes' destinations and fields not named by the schema are unchanged; defaults are written. Typed map inputs (map[string]string/int/float64/bool) with missing keys are checked separately.",
         "Catch excluded (C05). Typed nil pointers as inputs are outside the table.",
         "DESIGN.md section 4 C04"),

 "C10": ("stateless exhaustive exploration of record cases x struct-tag assignments x six front ends x failing-node sets x visit orders on the real code; issue-map invariants and paths against the documented key chain; known findings matched by an as-is model with quirk switches",
         "A record schema with nested structs and a list (depth 2, thorough 3) is parsed on the real code for every struct-tag assignment (per field none / zog / source / both / source with [] suffix; any two fields deviating, and the four uniform assignments), through every front end (Go map, zjson, zhttp JSON, form, query, env; Validate for Go values), with any one (two for uniform tags) unit ranging over Required x tests x {valid, missing, nil, empty, failing, uncoercible}, under identity and reversed field order at every struct visit. Checked on every result: each issue exactly once under the key equal to its Path ($root for empty), $first exactly one and equal to the first issue recorded under the chosen order, no empty lists, Path == documented key chain at every depth, SanitizeMap/SanitizeList mirror keys, order and messages; IssuePath overrides at root / field / required / element tests.",
         "Known findings D18 (nested providers drop the source tag; flat sources do not resolve nested structs) and D24 (JSON {} loses the json tag) are matched by the model, not by pattern: a case is known only if the reference model with those quirk switches predicts the result exactly.",
         "DESIGN.md section 4 C10"),
 "C13": ("stateless exhaustive exploration of fully populated values; relational oracle between two runs of the real code (Validate in place vs Parse of the value rendered as a map)",
         "For every core skeleton, any two units range over configuration x fully populated value (each leaf passing / failing t1 / failing t2 / failing both, never zero; slices of 1-2 elements; pointers set). The value is validated in place and, rendered as the map it would be decoded from, parsed into a fresh destination under the same field visit orders (all permutations); both must report the same (path, code, type, message) multiset and leave equal values.",
         "No Preprocess, no PostTransforms. toMap keys follow zog tag -> schema key.",
         "DESIGN.md section 4 C13"),
 "C14": ("stateless exhaustive exploration; every abstract record rendered through all six front ends and parsed on the real code in one execution; differential against the Go-map rendering; known findings explained by the as-is model",
         "Same record / tag / focus enumeration as C10. In each execution the record is rendered as a Go map, JSON text (zjson), zhttp JSON body, form body, query string and environment variables (real http.Request objects, real process environment) and parsed with the same visit orders; each rendering must give the Go-map rendering's issues (paths normalised to field identity) and destination, modulo only the documented differences (tag naming the key, string-typed leaves, env trimming, inexpressible cases skipped).",
         "Known findings D18 / D24 as in C10. Lists of several values are not expressible in env; nil / empty lists not expressible in flat sources.",
         "DESIGN.md section 4 C14"),

 "C15": ("full-product enumeration of real http.Request objects (method x Content-Type x body x query) through zhttp.Request on the real code; dispatch table, decode contract and list/scalar/absent rule against views built with net/http, net/url and encoding/json",
         "7 methods x 13 Content-Type values x 12 bodies (JSON object, {}, truncated, array, null, number, string, empty, form, malformed escape, semicolon form, single-valued list) x 6 query strings (none, single, repeated, m[] once, m[] twice, malformed) x {x optional, required}; each source carries its own sentinel keys and values so that the destination shows which source was read. GET/HEAD must read the query; other methods the JSON body / the form as net/http's ParseForm defines it / the query, by media type ignoring parameters. Undecodable bodies: exactly one issue at $root and $first with code invalid_json / invalid_form and a message, the schema's recording tests never ran, destination untouched. {} decodes to all-absent. Repeated or []-suffixed parameters arrive as lists, single ones as strings, missing ones as absent.",
         "Only Content-Type spellings the statement covers are asserted; three other spellings run for panic-freedom. Malformed query pairs are dropped by net/url; no invalid_query is demanded.",
         "DESIGN.md section 4 C15"),
 "C17": ("exhaustive enumeration of builder-call chains built through the real API and executed on subject sets in both modes vs a list-based model of what each call means; shared-object vs independent-copies differential",
         "Every chain of <=3 (quick) / <=4 (thorough) calls on z.String() from 10 tests (incl. four Not() forms and TestFunc) x option {none, Message, IssueCode, IssuePath, Params} and 7 modifier calls (Required, Required(Message), Optional, Default x2, Catch x2) is built and run on 7 subjects in Parse and Validate: a negated test fails exactly when the plain test passes, reports the not_ code, and the following test is plain; last call wins for modifiers; an option changes only its own test's code / path / message / params (issues are matched to tests by position). Int chains likewise. One schema object used at two places (two fields, field + slice element, field + behind pointer) must equal two independent copies on all input pairs; WithCoercer affects only its own schema, and through Ptr the pointed-to schema.",
         "Not() is followed only by methods of the interface it returns. Messages compared only where a Message option was given.",
         "DESIGN.md section 4 C17"),

 "C08": ("stateless model checking of the real code under a cooperative scheduler: every interleaving of 2-3 threads on shared schemas at pool operations (thorough: at every library statement) within a preemption bound, x pool answers; per-call result equals the sequential result; pool-ownership and schema-immutability monitors; separate free-running -race pass",
         "Eight closed drivers share schema objects between threads (two-test string schema; struct with fail -> CollectMap -> parse again vs fail twice; slice Default + element Catch validated from nil with a mutating PostTransform; per-thread WithCtxValue read by a recording test; Ptr(Struct) Validate; catching field next to a required slice; i18n with a language per thread; Time/Bool/Float with defaults and OneOf lists). The overlay turns every sync.Pool Get/Put (and, in the fine mode, every statement of the library) into a scheduling point; the explorer enumerates which thread starts, every preemption within the budget, which thread continues when one ends, and which free object each Get returns. In every schedule each thread's complete observations must equal that thread run alone on cleared pools with a fresh schema; no pooled object may be handed out while held or be in a free list twice; values handed to builders must be unchanged. The same bodies are also run free on 8 goroutines under the Go race detector against the un-instrumented sources (a report is a violation; silence is sampling evidence only).",
         "Quick: 2 threads, coarse points, <=2 deviations (preemptions + non-LIFO pool answers). Thorough: coarse <=3; fine points <=1 preemption; 3 threads coarse <=2. The 'no data race' half at memory-model level is monitored, not enumerated.",
         "DESIGN.md section 4 C08"),
}
NOT_YET = "check not built yet in this round (work in progress; see DESIGN.md section 4)"
def main():
    checks = []
    for pid in ALL:
        if pid not in CLAIMED: continue
        tech, text, note, ref = CLAIMED[pid]
        checks.append({
            "property_id": pid,
            "quick_cmd": f"bin/zogmc check {pid} --tier quick",
            "thorough_cmd": f"bin/zogmc check {pid} --tier thorough",
            "evidence_file": f"/verif/evidence/{pid}.json",
            "replay_cmd_template": "bin/zogmc replay {path}",
            "engine": "zogmc",
            "level_claimed": {"category": "model_checking", "text": text, "design_ref": ref},
            "level_note": note,
            "technique": tech,
        })
    m = {
        "version": 1,
        "setup_cmd": "cd /verif && export GOFLAGS=-mod=mod GOPROXY=off GOSUMDB=off GOTOOLCHAIN=local && cp /repo/go.sum go.sum && mkdir -p bin && go build -o bin/zogmc ./cmd/zogmc && bin/zogmc setup",
        "hooks": {
            "guard": "go build -overlay (no source hooks inside /repo: instrumented copies are generated from /repo's working tree into /verif/.work on every run; the ordinary build is the guard-off build)",
            "enable": "bin/zogmc runs cmd/zog-instr on /repo's working tree and builds the worker with go build -overlay <generated overlay.json>",
            "baseline_off_cmd": "cd /repo && GOFLAGS=-mod=mod GOPROXY=off GOSUMDB=off GOTOOLCHAIN=local go test -json -vet=off -count=1 -timeout 25m ./...",
            "source_commits": [],
            "add_only": True,
        },
        "engines": [
            {"name": "zogmc", "path": "/verif/cmd/zogmc", "serves_properties": sorted(CLAIMED), "kind_free_text": "stateless choice-tree model checker over the real zog code: overlay instrumentation (pool shim, map-order hook, yield points), depth-first prefix replay with deviation bounds, 16 worker processes, explicit-state BFS over histories, cooperative scheduler"},
        ],
        "checks": checks,
        "notes": "All checks rebuild from /repo's working tree via an overlay; see DESIGN.md. known_findings.json lists recorded/fixed defects.",
        "not_applicable": [{"property_id": p, "reason": NOT_YET} for p in ALL if p not in CLAIMED],
    }
    with open(os.path.join(HERE, "MANIFEST.json"), "w") as f:
        json.dump(m, f, indent=1)
        f.write("\n")
main()
