#!/usr/bin/env python3
"""Generates /verif/MANIFEST.json from the table below (kept in one place so the manifest stays valid)."""
import json, os
HERE = os.path.dirname(os.path.dirname(os.path.abspath(__file__)))
ALL = ["C%02d" % i for i in range(1, 21)]
# id -> (technique, level text, level note, design ref)
CLAIMED = {
 "C20": ("exhaustive enumeration of (built-in test, parameter, subject, mode, Not-form) cases on the real code vs. independent reference predicates",
         "Every built-in test of every schema type is executed on the real implementation for every subject over boundary alphabets (strings <=3/<=4 symbols over 21 boundary symbols, grammar strings <=5/<=7, UUID single/double edits, numeric boundary sets of all five types incl. NaN/Inf/-0, instants +-1ns in two zones, slices of length 0..3) in Parse and Validate and for every Not() form; issue present <=> not predicate. Bounded-exhaustive, not sampled: a comparison or character-class boundary that is off by one is inside the enumerated space.",
         "Reference predicates written from the property statement; URL reference uses net/url. Values outside the alphabets are not examined.",
         "DESIGN.md section 4 C20"),
 "C18": ("exhaustive enumeration of (numeric schema, source representation, boundary magnitude) on the real code vs. exact math/big arithmetic",
         "All five numeric schemas are driven with every boundary magnitude (type bounds +-1, 2^24/2^53 +-1, MaxFloat32 and the float32 rounding boundary, 1e19, 1e39, 1e300, fractions, NaN/Inf, odd strings) in every representation that can express it (int, int32, int64, float32, float64, decimal string, exponent string, JSON number through zjson, form string through zhttp), with and without an upper-bound test. A silent result must equal the exact input (truncated toward zero for integers, correctly rounded for floats) as computed with math/big. The full product is enumerated, so any wrap/saturation at a type boundary is inside the explored space.",
         "A coerce issue is always accepted (one-directional property); JSON numbers are compared after IEEE-double decoding; in-range float rounding is accepted.",
         "DESIGN.md section 4 C18"),
}
NOT_YET = "check not built yet in this round (work in progress; see DESIGN.md section 4)"
def main():
    checks = []
    for pid in ALL:
        if pid not in CLAIMED: continue
        tech, text, note, ref = CLAIMED[pid]
        checks.append({
            "property_id": pid,
            "quick_cmd": f"bin/zogmc check {pid} --tier quick",
            "thorough_cmd": f"bin/zogmc check {pid} --tier thorough",
            "evidence_file": f"/verif/evidence/{pid}.json",
            "replay_cmd_template": "bin/zogmc replay {path}",
            "engine": "zogmc",
            "level_claimed": {"category": "model_checking", "text": text, "design_ref": ref},
            "level_note": note,
            "technique": tech,
        })
    m = {
        "version": 1,
        "setup_cmd": "cd /verif && export GOFLAGS=-mod=mod GOPROXY=off GOSUMDB=off GOTOOLCHAIN=local && cp /repo/go.sum go.sum && mkdir -p bin && go build -o bin/zogmc ./cmd/zogmc && bin/zogmc setup",
        "hooks": {
            "guard": "go build -overlay (no source hooks inside /repo: instrumented copies are generated from /repo's working tree into /verif/.work on every run; the ordinary build is the guard-off build)",
            "enable": "bin/zogmc runs cmd/zog-instr on /repo's working tree and builds the worker with go build -overlay <generated overlay.json>",
            "baseline_off_cmd": "cd /repo && GOFLAGS=-mod=mod GOPROXY=off GOSUMDB=off GOTOOLCHAIN=local go test -json -vet=off -count=1 -timeout 25m ./...",
            "source_commits": [],
            "add_only": True,
        },
        "engines": [
            {"name": "zogmc", "path": "/verif/cmd/zogmc", "serves_properties": sorted(CLAIMED), "kind_free_text": "stateless choice-tree model checker over the real zog code: overlay instrumentation (pool shim, map-order hook, yield points), depth-first prefix replay with deviation bounds, 16 worker processes, explicit-state BFS over histories, cooperative scheduler"},
        ],
        "checks": checks,
        "notes": "All checks rebuild from /repo's working tree via an overlay; see DESIGN.md. known_findings.json lists recorded/fixed defects.",
        "not_applicable": [{"property_id": p, "reason": NOT_YET} for p in ALL if p not in CLAIMED],
    }
    with open(os.path.join(HERE, "MANIFEST.json"), "w") as f:
        json.dump(m, f, indent=1)
        f.write("\n")
main()
