#!/usr/bin/env python3
"""store_seed.py ROUND ID — copies a confirmed seeded change into /verif/seeded/<name>/ with meta.json
(which property, what it needs, what was run: confirmation in the scratch worktree and which checks fired)."""
import json, os, re, shutil, sys
rnd, pid = sys.argv[1], sys.argv[2]
src = f"/tmp/{rnd}/out/{pid}"
m = json.load(open(f"{src}/meta.json"))
conf = json.load(open(f"{src}/confirm.json"))
RN = int(rnd[4:] or 1)  # seed, seed2, seed3, ...
name = f"{pid}-r{RN}"
dst = f"/verif/seeded/{name}"
os.makedirs(dst, exist_ok=True)
shutil.copy(f"{src}/patch.diff", f"{dst}/patch.diff")
shutil.copy(f"{src}/demo_test.go", f"{dst}/demo_test.go.txt")
det = {}
sumf = f"/tmp/{'seedrun' if rnd=='seed' else 'seedrun'+str(RN)}/summary.txt"
if os.path.exists(sumf):
    for l in open(sumf):
        mm = re.match(r"seed=(\S+) check=(\S+) exit=(\d+) violations=(\d+)", l)
        if mm and mm.group(1) == pid:
            # several runs of the same check (before / after strengthening it) are kept in order
            det.setdefault(mm.group(2), []).append({"exit": int(mm.group(3)), "violation_keys": int(mm.group(4))})
meta = {
    "property": pid,
    "summary": m.get("summary"),
    "needs": m.get("needs"),
    "origin": "independent sub-agent given only the property text and its own scratch worktree",
    "demo": {"file": "demo_test.go.txt (rename to *_test.go)", "dir": m.get("demo_dir", "."), "run": m.get("demo_run")},
    "confirmed_by_me_in_scratch_worktree": {
        "repository_suite_with_change": conf["suite_with_change"],
        "demo_with_change_exit": conf["demo_with_change_exit"],
        "demo_without_change_exit": conf["demo_without_change_exit"],
        "how": "tools/confirm_seed.sh: git apply patch; go test ./...; copy demo; go test -run demo; git apply -R; go test -run demo",
    },
    "checks_run_against_it": det,
    "how_checks_were_run": "tools/eval_seed.sh (quick tier; sources read from the scratch worktree via ZOGMC_SRC, /repo untouched); C08 additionally with the patch applied to /repo (git -C /repo apply … ; checkout -- .) because the race monitor builds /repo",
}
json.dump(meta, open(f"{dst}/meta.json", "w"), indent=1, ensure_ascii=False)
print(name, det)
